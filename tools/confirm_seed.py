#!/usr/bin/env python3
"""tools/confirm_seed.py <PID> [<suffix>] [--check "<cmd>"...]
Confirm a seeded change produced by a sub-agent in /tmp/wt-<PID>[-<suffix>] (+ -out): the demo passes on /repo and
fails on the worktree, the 339 stable baseline tests still pass on the worktree; then run our quick check(s) against
/repo with the patch applied (and undo it), and store everything under /verif/seeded/<PID>-<n>/."""
import json, os, shutil, subprocess, sys, tempfile
import xml.etree.ElementTree as ET

pid = sys.argv[1]
suffix = sys.argv[2] if len(sys.argv) > 2 and not sys.argv[2].startswith("--") else ""
checks = [a for a in sys.argv[2:] if a.startswith("C") and a != suffix] or [pid]
name = pid + ("-" + suffix if suffix else "")
W, OUT = "/tmp/wt-" + name, "/tmp/wt-%s-out" % name
PY = "/venv/bin/python"


def run(cmd, env=None, cwd="/"):
    e = dict(os.environ); e.update(env or {})
    p = subprocess.run(cmd, shell=True, env=e, cwd=cwd, stdout=subprocess.PIPE, stderr=subprocess.STDOUT, text=True)
    return p.returncode, p.stdout

rec = {"confirmed": {}}
rc, out = run("%s %s/demo.py" % (PY, OUT), {"PYTHONPATH": "/repo"}, cwd="/tmp")
rec["confirmed"]["demo_on_repo_rc"] = rc
rc2, out2 = run("%s %s/demo.py" % (PY, OUT), {"PYTHONPATH": W}, cwd="/tmp")
rec["confirmed"]["demo_on_patched_rc"] = rc2
rec["confirmed"]["demo_on_patched_tail"] = out2[-400:]
# patch applies to /repo HEAD?
rc3, out3 = run("git -C /repo apply --check %s/patch.diff" % OUT)
rec["confirmed"]["patch_applies_to_repo"] = rc3 == 0
# baseline on the worktree
b = json.load(open("/root/.vp/BASELINE.json"))
jx = tempfile.mktemp(suffix=".xml", dir="/tmp")
run("%s -m pytest -q -p no:cacheprovider --timeout=900 --continue-on-collection-errors --junitxml=%s" % (PY, jx),
    {"PYTHONPATH": W}, cwd=W)
passed = set()
for tc in ET.parse(jx).getroot().iter("testcase"):
    if not any(ch.tag in ("failure", "error", "skipped") for ch in tc):
        passed.add(tc.get("classname") + "::" + tc.get("name"))
os.remove(jx)
missing = sorted(set(b["stable_pass"]) - passed)
rec["confirmed"]["stable_tests_missing_on_patched"] = missing
ok = rc == 0 and rc2 != 0 and rc3 == 0 and not missing
rec["confirmed"]["kept"] = ok
print(json.dumps(rec, indent=1))
if not ok:
    sys.exit(1)
# our checks against the patched /repo
results = {}
# CONFIRM_TREE=<worktree>: patch that tree instead of /repo (while something else is using /repo)
TREE = os.environ.get("CONFIRM_TREE", "/repo")
cenv = {"VERIF_REPO": TREE} if TREE != "/repo" else {}
run("git -C %s apply %s/patch.diff" % (TREE, OUT))
try:
    for c in checks:
        rcc, o = run("./check %s --tier quick" % c, cenv, cwd="/verif")
        results[c] = {"rc": rcc, "violation_lines": [l for l in o.splitlines() if l.startswith("VIOLATION")][:5],
                      "tail": o[-300:]}
finally:
    run("git -C %s checkout -- ." % TREE)
n = 1
while os.path.exists("/verif/seeded/%s-%d" % (pid, n)):
    n += 1
dst = "/verif/seeded/%s-%d" % (pid, n)
os.makedirs(dst)
shutil.copy(OUT + "/patch.diff", dst)
shutil.copy(OUT + "/demo.py", dst)
meta = json.load(open(OUT + "/meta.json"))
meta["ran"] = rec["confirmed"]
meta["checks_against_patched_repo"] = results
meta["caught_by"] = [c for c, r in results.items() if r["rc"] == 1]
json.dump(meta, open(dst + "/meta.json", "w"), indent=1)
print(dst, "caught_by", meta["caught_by"])
