#!/bin/sh
# tools/mk_worktree.sh <name> : scratch git worktree of /repo under /tmp/wt-<name>, with the compiled extensions copied in
set -e
W=/tmp/wt-$1
git -C /repo worktree add --detach "$W" HEAD >/dev/null 2>&1
cp /repo/fastparquet/*.so /repo/fastparquet/*.c "$W/fastparquet/" 2>/dev/null || true
mkdir -p /tmp/wt-$1-out
echo "$W"
