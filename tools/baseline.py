#!/usr/bin/env python3
"""Run the repository's pinned baseline with the guard off and compare with /root/.vp/BASELINE.json."""
import json, os, subprocess, sys, tempfile
import xml.etree.ElementTree as ET
b = json.load(open('/root/.vp/BASELINE.json'))
out = tempfile.mktemp(suffix='.xml', dir='/tmp')
env = dict(os.environ); env.pop('FASTPARQUET_VERIF', None)
cmd = b['cmd'].replace('<file>', out)
subprocess.run(cmd, shell=True, env=env, stdout=subprocess.DEVNULL, stderr=subprocess.DEVNULL)
passed = set()
for tc in ET.parse(out).getroot().iter('testcase'):
    name = tc.get('classname') + '::' + tc.get('name')
    if not any(ch.tag in ('failure', 'error', 'skipped') for ch in tc):
        passed.add(name)
os.remove(out)
missing = sorted(set(b['stable_pass']) - passed)
print("baseline: %d stable tests, %d pass now, %d missing" % (len(b['stable_pass']), len(set(b['stable_pass']) & passed), len(missing)))
for m in missing: print("  MISSING", m)
extra = sorted(passed - set(b['stable_pass']))
print("newly passing:", extra)
sys.exit(1 if missing else 0)
