#!/bin/sh
# tools/thorough_sweep.sh [ids...] : run the thorough tier of every (or the named) property from the current directory
# (a /verif tree), one after the other; one summary line per check in sweep.log, full output in sweep-<ID>.log
ids="$@"
[ -z "$ids" ] && ids="C17 C10 C08 C11 C19 C15 C05 C13 C06 C18 C16 C14 C07 C20 C12 C01 C02 C04 C03 C09"
rm -f sweep.log
for c in $ids; do
  s=$(date +%s)
  timeout 2400 ./check $c --tier thorough > sweep-$c.log 2>&1
  rc=$?
  echo "$c rc=$rc $(( $(date +%s) - s ))s $(grep -c '^VIOLATION' sweep-$c.log) violations" >> sweep.log
done
