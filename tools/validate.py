#!/usr/bin/env python3-vt
"""Validate MANIFEST.json and evidence/*.json against the schemas in /root/.vp (run with python3-vt)."""
import glob, json, sys
import jsonschema
bad = 0
m = json.load(open('/verif/MANIFEST.json'))
try:
    jsonschema.validate(m, json.load(open('/root/.vp/MANIFEST.schema.json')))
    print("MANIFEST ok: %d checks, %d not_applicable" % (len(m['checks']), len(m.get('not_applicable', []))))
except Exception as e:
    print("MANIFEST invalid:", e); bad += 1
es = json.load(open('/root/.vp/EVIDENCE.schema.json'))
for p in sorted(glob.glob('/verif/evidence/*.json')):
    try:
        jsonschema.validate(json.load(open(p)), es); print("ok", p)
    except Exception as e:
        print("INVALID", p, str(e)[:300]); bad += 1
ids = {c['property_id'] for c in m['checks']} | {n['property_id'] for n in m.get('not_applicable', [])}
allp = {json.loads(l)['id'] for l in open('/verif/properties.jsonl')}
if ids != allp:
    print("properties unaccounted:", sorted(allp ^ ids)); bad += 1
sys.exit(1 if bad else 0)
