#!/usr/bin/env python3
"""Regenerate MANIFEST.json from the table below (single source of truth for what is claimed)."""
import json

PROPS = [json.loads(l)["id"] for l in open("/verif/properties.jsonl")]

BASELINE_OFF = ("cd /repo && env -u FASTPARQUET_VERIF /venv/bin/python -m pytest -ra -q -p no:cacheprovider "
                "--timeout=900 --continue-on-collection-errors")

CLAIMS = {
 "C16": dict(
    level="model_checking",
    text=("TLC checks the footer-rewrite mechanism (spec/SingleFile.tla over the byte-extent file model "
          "spec/FileBytes.tla) against the contract invariants Openable/RowsReadable/NoStaleTail/DataIntact/KvExact for "
          "all update histories within the constants, and checks that the non-truncating model mutant violates them; the "
          "history tree TLC enumerates is replayed on real files (every footer delta -15..+15, data files and _metadata "
          "files) with the contract evaluated on the real bytes after every step by an independent tail parser and the "
          "library's reader; the recorded file-handle calls of every replayed update are validated by TLC as behaviours "
          "of the specification (SingleFileTrace)."),
    design_ref="DESIGN.md section 5 C16, section 10",
    note=("Symbolic bytes: coincidences between stale and new real bytes are judged on the real file, not by the model. "
          "Trusted: harness/minithrift.py (independent compact-protocol walker), local POSIX file semantics. "
          "Bounds: 2 keys x value lengths {1,8} and 1 key x lengths 0..9 (quick), histories of 2 updates; thorough adds "
          "3-update histories and more lengths."),
    technique="TLA+ spec + TLC model checking; spec->code history replay; code->spec I/O trace validation"),

 "C09": dict(
    level="model_checking",
    text=("spec/Dataset.tla models every dataset operation as the plan of filesystem calls and list updates the code "
          "performs (write_multi, partition_on_columns, find_max_part, overwrite, remove_row_groups, _sort_part_names, "
          "_write_common_metadata); TLC checks ModelContent/NoOrphans/CommonPresent/PartsBeforeSummary over all histories "
          "within the constants and that the number-keyed part-id mutant violates them; the exported history tree is "
          "replayed in real directories with the contract evaluated after every step by an independent projector "
          "(pqspec) and a fresh ParquetFile; every recorded filesystem-call trace is validated by TLC (DatasetTrace)."),
    design_ref="DESIGN.md section 5 C09, section 10",
    note=("Bounds: 3 partition keys, frame sets FramesTiny/FramesSmall, histories of 3 operations (4 in thorough), 0 or 1 "
          "partition column. Trusted: pqspec reader, os.rename/remove semantics of the local file system. A refusal "
          "(exception with the dataset unchanged) is accepted."),
    technique="TLA+ spec + TLC model checking; spec->code history replay; code->spec filesystem-call trace validation"),
 "C19": dict(
    level="fault_enumeration",
    text=("TLC explores Dataset.tla with a Fault action enabled at every filesystem call of every append and checks "
          "that a fault before the summary rewrite leaves the old content, that no referenced file is opened for "
          "writing and that parts are complete before the summary is opened (the SummaryFirst mutant violates). On the "
          "real code every k-th call (mkdir, open-for-write, write, close) of every exported append is failed by "
          "fault-injecting open_with/mkdirs wrappers, followed by a fresh open from disk; each faulted call trace is "
          "validated by TLC against DatasetTrace."),
    design_ref="DESIGN.md section 5 C19, section 10",
    note=("A fault is an OSError raised instead of performing the call; power-loss effects below the file API (torn "
          "writes, reordering by the OS) are out of scope. Orphan part files after a failed append are allowed."),
    technique="TLA+ spec with fault action + TLC; exhaustive fault injection at every filesystem call; trace validation (faulted runs and the repository's own test-suite under observation)"),
 "C07": dict(
    level="model_checking",
    text=("Three specifications decide it: SingleFile.tla (append to a simple file: DataIntact as an action property on "
          "every step, AppendOnly, RowsReadable), Dataset.tla restricted to write/append (ordered ModelContent, "
          "AppendKeepsFiles, NeverOpensReferenced) and Categorical.tla (per-batch dictionaries: LabelsPreserved holds "
          "for the remapping variant and is violated by the last-dictionary-wins mechanism the code has). TLC explores "
          "all append histories within the constants; the exported histories are replayed on real files/directories "
          "(bytes and inodes of existing files compared around every append; rows compared in order); recorded call "
          "traces are validated against SingleFileTrace/DatasetTrace; every categorical batch sequence TLC enumerates "
          "is written with the real writer and read back."),
    design_ref="DESIGN.md section 5 C07, section 10",
    note=("Bounds: appends of 0..2 row groups to single files (histories of 2, thorough 3); hive appends over the frame "
          "sets incl. an 11-row-group dataset; categorical lists {ab, xy, abc, ba}, <= 2 rows per batch, <= 2 (3) batches. "
          "Known finding KF-C07-1 (categoricals relabelled by the last dictionary) is matched by model prediction."),
    technique="TLA+ specs + TLC model checking; spec->code history replay; code->spec call-trace validation (replays and the repository's own test-suite under observation)"),
 "C18": dict(
    level="model_checking",
    text=("SingleFile.tla has explicit AppFail (exception at every (row group, column) position after the earlier chunks "
          "were written) and AppRefuse actions; TLC checks Openable/RowsReadable/FailureKeepsVersion with the restoring "
          "variant and that the non-restoring mutant violates them; Dataset.tla's Fault at a part-file write step models a "
          "mid-write rejection in a multi-file append. All failing histories TLC enumerates are replayed on real files "
          "(un-encodable value or unknown per-column codec at that position; other columns/scheme) and directories (also after "
          "a removal that leaves a hole in the part numbers), and a "
          "catalogue of every refusal kind of the statement is executed against five existing dataset states; after each, "
          "the dataset must open and hold exactly its previous content."),
    design_ref="DESIGN.md section 5 C18, section 10",
    note=("Content (rows, row-group count, key-value metadata) is compared, not bytes, for multi-file datasets: orphan "
          "part files of a refused operation are allowed. A 'different file scheme' append to a file without row groups "
          "is not required to be refused."),
    technique="TLA+ spec with failure actions + TLC; spec->code replay of failing histories; refusal catalogue"),
 "C20": dict(
    level="model_checking",
    text=("spec/Handles.tla models the only state read-only operations share and mutate - the schema tree's children "
          "dicts - with one action per step of the slice path (reset, one insertion per child) and of readers (lookups, "
          "dict iteration). TLC explores ALL interleavings of 2-3 threads: the contract (no operation fails because of "
          "another, parent undisturbed, termination) holds with private element dicts and is violated with shared ones. "
          "On the real code a deterministic sys.settrace scheduler runs every single-preemption schedule of ordered "
          "operation pairs on one shared handle (every line event of A as the switch point, B to completion, A resumed), "
          "compares each result with the operation run alone, and TLC validates every run of a handle-deriving A against "
          "HandlesTrace (the sampled children of the parent at the switch must explain B's outcome). Part-file writers "
          "sharing a schema object are scheduled the same way and their bytes compared with the sequential bytes."),
    design_ref="DESIGN.md section 5 C20, section 10",
    note=("On the real code only schedules with ONE preemption are exhaustive (quick: stride 5 on the longest operations; "
          "thorough: every point, every pair, and every bytecode for slice); more preemptions and 3 threads are covered "
          "at model level. Cython functions are atomic under the GIL. 2..16 free-running threads are not used as an "
          "oracle (only deterministic schedules are reported)."),
    technique="TLA+ spec + TLC over all interleavings; deterministic schedule enumeration on the real code; trace validation"),
 "C05": dict(
    level="model_checking",
    text=("spec/Filters.tla states the contract (DefSat/MaySat per row, MayOmit per row group, lenient NULL reading) and "
          "transcribes the pruner (filter_row_groups, filter_out_stats, filter_out_cats, filter_val, filter_in, "
          "filter_not_in). TLC checks PruneSound over every (row group contents x statistics x partition value x "
          "program) in the bounds: it holds for the repaired `not in` rule and is violated by the rule the code has. "
          "TLC then exports, per program, the contract verdicts and the mechanism prediction over the whole row-group "
          "pool; the pool is written with the real writer (four datasets: statistics on/off x hive-partitioned or not; "
          "int/float/text/timestamp columns) and filter_row_groups, to_pandas(filters) and count(filters) are compared "
          "with the verdicts; the (op, constants, min, max) lattice is replayed into the real filter_val."),
    design_ref="DESIGN.md section 5 C05, section 10",
    note=("Bounds: values 0..3 + NULL, constants -1..4, sets of size <= 2 incl. empty, row groups of 1..2 (thorough 3) rows, "
          "single atoms exhaustively, pairs (flat AND, explicit AND, OR) over a reduced atom set. Known finding KF-C05-1 "
          "(`not in` prunes on a bound) cannot be repaired because stable baseline tests assert it."),
    technique="TLA+ spec + TLC model checking of the transcribed pruner; TLC-generated verdict tables replayed end to end"),
 "C13": dict(
    level="model_checking",
    text=("Same specification: RowFilterExact (all DefSat rows, only MaySat rows) is checked by TLC on the transcription of "
          "_column_filter over the same bounded domain (holds for the repaired variant, violated by the as-found one), and "
          "TLC's per-program verdict tables are compared with to_pandas(filters, row_filter=True) and count(..., "
          "row_filter=True) on the real datasets, including alignment of the other columns with the selected rows; all "
          "boolean masks of <= 6 rows over 1..3 row groups (v1 and v2 pages) are applied through row_filter=mask. The "
          "datasets are written with version-1 and version-2 data pages, as one page and as one-row pages per chunk, and "
          "carry two categorical output columns (3 and 200 categories, with missing cells) whose alignment with the "
          "selected rows is checked."),
    design_ref="DESIGN.md section 5 C13, section 10",
    note=("Four defects repaired (flat list OR-ed; page window with nulls; nullable/object comparisons raising; row "
          "filter on version-2 pages handed every page the filter of the whole row group). Known "
          "findings: partition atoms ignored inside OR groups (KF-C13-1); consequence of KF-C05-1 (KF-C13-2)."),
    technique="TLA+ spec + TLC model checking of the transcribed row filter; TLC-generated verdict tables replayed end to end"),
 "C01": dict(
    level="model_checking",
    text=("spec/ColumnWriter.tla follows iter_dataframe -> make_row_group -> write_column page by page for one symbolic "
          "column (dtype class attributes, row count, null pattern, value pattern) under every option tuple "
          "(nullability mode, page budget, page version, row-group size, statistics mode) and states the format/round-"
          "trip contract (row groups tile the frame, pages tile the chunk, null counts exact, statistics exact, reject-"
          "or-preserve, the cell table a reader must reproduce). TLC checks the invariants over the whole product and "
          "exports every case; each is concretised (harness/concretise.py), written with the real writer under exactly "
          "that page budget/version and read back with the library: names, row count, every cell and its missingness, "
          "dtype / categories, and the neighbouring column(s). Write options on the dtype-class sub-lattice: codec, "
          "times='int96', explicit object_encoding, fixed_text, file_scheme='hive', and the column written as the frame's "
          "named row index, as the first level of a two-level MultiIndex, or next to a forced range index "
          "(write_index=True); a categorical case carries a second categorical column with the opposite order flag; "
          "every case with a missing cell is also replayed as an append to an existing file (simple and hive)."),
    design_ref="DESIGN.md section 5 C01, section 10",
    note=("TLA+ decides layout, counts, statistics and the expected cell table; rendering abstract values into pandas "
          "values (concretise.py) is trusted. Quick: 14 core classes x rows {0,1,2,3,8,9} plus all 35 classes (incl. "
          "timedelta64[s|ms|us|ns], a 200-category categorical) x codecs x write options on a small product; thorough: all "
          "classes incl. rows 17. Known findings KF-C01-1..6 (row index of nullable dtype, UInt64 index, ordered "
          "CategoricalIndex, bool / nullable-boolean / tz-aware MultiIndex levels). Index label dtypes (Int32 vs int64, level "
          "dtypes) are not compared, only labels, names, categories and order flag."),
    technique="TLA+ spec as layout/cell oracle + TLC enumeration of the input lattice; spec->code replay"),
 "C02": dict(
    level="model_checking",
    text=("Same specification and cases as C01, judged by an independent implementation: every written file is parsed by "
          "harness/pqspec (written from the format documents and parquet.thrift only) in strict mode - magic, footer "
          "length, every Thrift field id and wire type against the IDL, offsets, sizes, value/null counts, encodings, "
          "page tiling - its layout is compared with the specification's pages/row groups, and its decoded cells (NULL "
          "vs in-band NaN/NaT per nullability mode) with the specification's cell table; a sweep over 7 codec settings x "
          "{simple, hive, drill} x {v1, v2} validates every file of the dataset incl. _metadata and _common_metadata; every "
          "case with a missing cell is also replayed as an append (simple and hive) to a file that already holds the column, "
          "and the independent reader must decode base + appended rows."),
    design_ref="DESIGN.md section 5 C02, section 10",
    note=("Trusted: pqspec and cramjam/zlib. Known finding KF-C02-1 (empty lists written with element type 0; native "
          "code). Statistics are judged by C04, not here."),
    technique="TLA+ spec as layout/cell oracle; independent format implementation as projector; spec->code replay"),
 "C04": dict(
    level="model_checking",
    text=("StatsExact of spec/ColumnWriter.tla (min/max = extreme non-null stored values of the chunk in the class's "
          "order, absent if none or unordered; null_count = missing cells) is checked by TLC over the product and "
          "compared, case by case, with the raw Statistics structs decoded by pqspec from the real files (order-"
          "separating concrete values: unsigned straddling the sign bit, category order different from label order, "
          "multi-byte text, tz-aware instants, inf) and with ParquetFile.statistics; the stats option is explored as True, "
          "False, 'auto' and as a list naming the column or only its neighbour."),
    design_ref="DESIGN.md section 5 C04, section 10",
    note=("An in-band NaN/NaT of a REQUIRED column is not required in the bounds; a collapsed [None] list from "
          "ParquetFile.statistics exposes nothing and is accepted; sorted_partitioned_columns is exercised only through "
          "the statistics it reads."),
    technique="TLA+ spec as statistics oracle + TLC enumeration; spec->code replay through an independent decoder"),
 "C11": dict(
    level="model_checking",
    text=("spec/Codec.tla has a FORMAT layer (varints, bit-packed runs, RLE runs, hybrid streams, boolean packing, delta-"
          "binary-packed blocks over bit sequences, so that widths up to 64 need no wide integers) and a MECHANISM layer: "
          "the refill/extract cursor machine of read_bitpacked / delta_read_bitpacked with its accumulator width and "
          "counter range as constants. TLC checks EmittedPrefix, OutWithinCapacity, InWithinInput, ExactCount and "
          "termination: they hold exactly up to the widths (24 and 28) beyond which the real decoders go wrong. The FORMAT "
          "layer computes the test vectors bit by bit; every vector is decoded by the real functions with capacities "
          "count-1, count, count+1 and item sizes 1 and 4 (values, count produced, both cursors, a guard zone behind the "
          "output), and the real encoders' output is decoded back by the independent implementation."),
    design_ref="DESIGN.md section 5 C11, section 10",
    note=("Quick: widths {1,2,3,7,8,9,15,16,17,24,25,31,32}, delta widths {0..56 sample}; thorough: all widths 1..32 / 0..56, more "
          "counts. Known findings KF-C11-1..3 (native accumulators too narrow: decode width >= 25, delta width >= 29, encode "
          "width >= 25) cannot be repaired without Cython. The encoder's unpadded last group is accepted (lenient decode)."),
    technique="TLA+ spec: model-checked decoder cursor machine + TLC-computed test vectors replayed into the real codecs"),
 "C10": dict(
    level="model_checking",
    text=("Three specifications: ThriftShapes.tla enumerates, from the IDL TLA+ module generated at check time out of "
          "/repo's parquet.thrift, the lattice of value shapes of every metadata struct (presence patterns, list lengths "
          "0/1/14/15/16/40, integer boundaries per declared width, string lengths 0/1/127/128/300); ThriftCompact.tla is a "
          "pushdown acceptor of compact-protocol token traces that enables a token only if field id and wire type are the "
          "ones the IDL declares; ThriftBuffer.tla models the output-buffer heuristic of to_bytes with the real constants "
          "(NeverTruncated/NeverOutside hold with a growing buffer, are violated by the heuristic). Every shape goes "
          "through two routes (parsed from independently encoded bytes; built through the constructor API), is re-"
          "serialised, decoded by the independent decoder (lossless), round-tripped and pickled inside the library, and "
          "the token trace of the re-serialised bytes is validated by TLC against the acceptor; the size points of the "
          "buffer model are serialised by the real code in expendable processes."),
    design_ref="DESIGN.md section 5 C10, section 10",
    note=("Scope: structs reachable from FileMetaData and PageHeader that the library describes (encryption / bloom-filter "
          "structs are unknown to it). Known findings KF-C10-1..4 are all in native code (cencoding.pyx) and cannot be "
          "repaired here: field 14 dropped, i8/i16 widened to i64, buffer overrun for large binary fields, i8 read unsigned."),
    technique="TLA+ specs: IDL-generated acceptor for token-trace validation (shapes and every footer the library writes along TLC-enumerated operation routes), shape lattice export, integer buffer model"),
 "C12": dict(
    level="exploration",
    text=("Memory safety of compiled C is not a TLA+ notion: the specifications contribute the bounds models (Codec.tla's "
          "cursor machine with OutWithinCapacity/InWithinInput; ThriftBuffer.tla's NeverOutside, both model-checked, the "
          "latter violated by the buffer heuristic exactly for the size classes that overrun) and the systematic input "
          "spaces (TLC-computed codec vectors, IDL value shapes, buffer-model size points, sampled write/read cases). The "
          "verdict on the real code is the sanitizer's: the extension modules are rebuilt from the working tree's C files "
          "with clang ASan+UBSan and every input is replayed in expendable processes; a report located in the library's "
          "own functions (mapped back to the .pyx line), an abort or a signal is a violation."),
    design_ref="DESIGN.md section 5 C12, section 6",
    note=("Claimed as exploration, not model checking. 11 known findings (KF-C12-*: shifts wider than the type in "
          "read_bitpacked/_mask_for_bits/read_rle/delta_read_bitpacked/encode_bitpacked/zigzag/varint, heap overflow in "
          "write_thrift) are native and cannot be repaired here; a report in any other function or of another kind is a "
          "new violation. Foreign layouts with old- and new-style statistics are also read through a filter (the statistics "
          "decoders)."),
    technique="TLA+ bounds models and TLC-generated input spaces (codec vectors, IDL shapes, write/read cases, foreign flat and nested layouts) replayed under an ASan/UBSan build (sanitizer is the oracle)"),
 "C03": dict(
    level="model_checking",
    text=("spec/Format.tla is a nondeterministic generator of VALID single-column Parquet layouts (row-group and page "
          "splits, page version, encoding per page with dictionary fallback, explicit run structures of definition "
          "levels and dictionary indices, index bit widths, codec, v2 compression flag, created_by) whose guards are the "
          "format's validity rules and whose state carries the logical cells. TLC enumerates five sub-lattices "
          "exhaustively and samples the full product with seeded simulation; every terminal state is rendered to bytes "
          "by the independent encoder pqspec (which must read its own file back), read by the library, and compared cell "
          "by cell and by dtype kind; NotImplementedError counts as the permitted refusal. Layouts that carry chunk statistics "
          "(old style min/max + min_value/max_value, or new style min_value/max_value only) are also read through a filter on "
          "a value that is present: the read must not fail and must not lose the rows that hold it."),
    design_ref="DESIGN.md section 5 C03, section 10",
    note=("Not exhaustive over the full product (simulation). Five reader defects repaired in Python (v2 level byte "
          "length, v2 RLE/dictionary pages with nulls, v1 RLE booleans, v2 DELTA INT64, zero-length pages); known findings "
          "KF-C03-* rest on native code (delta decoder, 32-bit accumulator) or on the created_by heuristic."),
    technique="TLA+ spec as generator of valid layouts (TLC exhaustive sub-lattices + simulation); independent encoder; replay"),
 "C06": dict(
    level="model_checking",
    text=("spec/Access.tla models a handle as a VIEW (list of row-group positions) and transcribes Python's slice "
          "semantics (PySlice_AdjustIndices) for pf[i:j:k] / pf[i], composed with pickle/copy/deepcopy; TLC enumerates every "
          "program (derivations of depth 1 over the full argument grid with every read kind: to_pandas, iter_row_groups, "
          "head(n) for every n, count, file-like, column selections; depth 2-3 compositions) with the expected view, row "
          "counts and rows; each program is executed on a single-file and a hive dataset and compared with the "
          "corresponding projection of the full read, cell by cell, plus every reported count. The datasets (this library's "
          "single file and hive directory, and a foreign file) carry int, text, categorical, float-with-NaN, time-zone aware "
          "timestamp and nullable integer columns; a time cell compares by instant and by awareness."),
    design_ref="DESIGN.md section 5 C06, section 10",
    note=("The index= argument (recorded / suppressed / a named column) is explored on a reduced slice-argument grid, on "
          "datasets written without and with a named row index. "
          "Defects repaired: head() on an empty view, copied handle of a file without pandas metadata."),
    technique="TLA+ spec of views with Python slice semantics; TLC enumeration of access programs; spec->code replay"),
 "C17": dict(
    level="model_checking",
    text=("spec/DtypeTable.tla transcribes converted_types.typemap and the post-processing of ParquetFile._dtypes as "
          "Announce(schema element, pandas-metadata kind, statistics kind, pandas_nulls); TLC checks table-level invariants "
          "(NullsRepresentable, OptionOnlyMattersForIntLike) over the whole product and exports every case with the dtype "
          "the table announces; each case is rendered as a single-column file by the independent encoder (with a pandas "
          "key-value block where the case says so) and the real handle's announcement, the real read and the read of a "
          "zero-row selection must agree (a real announcement that differs from the transcription with the contract "
          "intact is reported as drift). spec/Predict.tla enumerates file classes (own with/without pandas metadata, "
          "foreign, hive, drill) x handle (whole, first slice, rest, empty slice, pickled) x read options (columns "
          "all/subset/reordered, categories none/list/dict/empty, index none/False/name, pandas_nulls, dtypes override); "
          "names, order, dtypes, index and the total / per-row-group counts announced are compared with the read."),
    design_ref="DESIGN.md section 10.2, 10.3",
    note=("Not modelled: timezone metadata, the categories argument's effect on dtypes beyond 'category', nested columns "
          "(always object). Text may be announced/read as object or str."),
    technique="TLA+ transcription of the dtype table (TLC-checked, exported) replayed through an independent encoder; TLC-enumerated option/handle product compared on the real code"),
 "C08": dict(
    level="model_checking",
    text=("spec/Partition.tla models the routing of partition_on (chunks by row-group offsets, grouping by key tuple, one "
          "part file per (chunk, key), rows with a missing key dropped) with the contract RowsRoutedToTheirKeyDirectory / "
          "MultisetPreserved / NoEmptyFile, and the typed-path case analysis (text class of a rendered value, kind restored "
          "with and without metadata). TLC checks the invariants over every assignment of keys to rows x offset list and "
          "exports each with its expected directory tree; the real write is compared file by file (independent reader) "
          "and the read-back for rows, partition column names, values and value kinds (int, float, bool, datetime, text, "
          "numeric-looking text, categorical with an unused category, and pairs of columns of different kinds whose directory "
          "texts coincide) in hive and drill layouts."),
    design_ref="DESIGN.md section 5 C08, section 10",
    note=("Bounds: 4-5 rows, keys {missing,1,2,3}, one and two partition columns, 3-5 offset lists; three partition columns on 3 rows (keys {missing,1,2} x {1,2} x {1,2}, 3 offset lists, six kind triples); kinds rotated over the "
          "cases in quick, every kind per case in thorough. Drill: the directory text is accepted in val_to_num's reading. "
          "A write that raises because a row group holds only rows with missing keys is accepted (pandas groupby)."),
    technique="TLA+ spec of partition routing + typed-path case analysis; TLC enumeration; spec->code replay"),
 "C14": dict(
    level="model_checking",
    text=("spec/ManyFiles.tla enumerates collections of 1..3(4) files (row counts incl. 0, directory keys) x ways of opening "
          "(list, directory, glob, merge) x absolute/relative paths x root given or inferred x verification x which file deviates "
          "in schema and how (column name, physical type, fixed length, logical type, REQUIRED vs OPTIONAL), with the "
          "contract rows = concatenation in the given order, count = sum, rejection under verification; each is built with "
          "the real writer in flat, hive and drill directory shapes and opened. spec/Categorical.tla (model-checked in both "
          "variants) supplies every sequence of per-file dictionaries, written as separate files and opened together."),
    design_ref="DESIGN.md section 5 C14, section 10",
    note=("Quick replays every third collection per shape. For directory/glob openings the order is the library's (row "
          "multiset compared). One defect repaired (>= 3 relative paths); known finding KF-C14-1 (differing dictionaries)."),
    technique="TLA+ specs (collection lattice, dictionary mechanism) + TLC enumeration; spec->code replay"),
 "C15": dict(
    level="model_checking",
    text=("spec/Nested.tla shreds rows (null row, empty list, lists with null elements; optional/required list and element) "
          "into Dremel triples, cuts the stream into pages at every position and states the contract 'assembled = rows'; "
          "the MECHANISM is a transcription of cencoding._assemble_objects with its per-page locals and the position it "
          "carries across pages. TLC finds the cut positions at which the transcription deviates and exports every case "
          "with that prediction; pqspec renders each as a LIST file (v1 with cuts anywhere, v2 with row-aligned cuts; plain "
          "and dictionary int64, plain text) and the real reader's rows are compared with the rows."),
    design_ref="DESIGN.md section 5 C15, section 6",
    note=("MAP columns are not generated (only LIST): the assembly code path is the same function, the key/value pairing "
          "into dicts is not exercised. Known findings: v1 continuation starting with nulls (exactly the model's "
          "predictions: no v1 failure outside them), v2 nested pages non-functional. Native code."),
    technique="TLA+ specs (LIST and MAP): contract (record assembly) vs transcribed assembler, TLC over all page cuts per leaf; replay via independent encoder, result compared with contract and with the mechanism model"),
}

NOT_BUILT = "not built yet (construction order in DESIGN.md section 9)"
NA = {}


def main():
    checks = []
    for pid in PROPS:
        if pid not in CLAIMS:
            continue
        c = CLAIMS[pid]
        checks.append({
            "property_id": pid,
            "quick_cmd": "./check %s --tier quick" % pid,
            "thorough_cmd": "./check %s --tier thorough" % pid,
            "evidence_file": "/verif/evidence/%s.json" % pid,
            "replay_cmd_template": "./check %s --replay {path}" % pid,
            "engine": "tlc",
            "level_claimed": {"category": c["level"], "text": c["text"], "design_ref": c["design_ref"]},
            "level_note": c["note"],
            "technique": c["technique"],
        })
    m = {
        "version": 1,
        "setup_cmd": "./check --setup",
        "hooks": {
            "guard": "FASTPARQUET_VERIF",
            "enable": ("reserved and unused so far: every observation is made from outside the repository "
                       "(caller-supplied open_with/mkdirs/remove_with wrappers, module globals, shadowed module attribute "
                       "fastparquet.writer.open, sys.settrace scheduler); checks export FASTPARQUET_VERIF=1"),
            "baseline_off_cmd": BASELINE_OFF,
            "source_commits": [],
            "add_only": True,
        },
        "engines": [{"name": "tlc", "path": "/usr/local/bin/tlc", "serves_properties": sorted(CLAIMS),
                     "kind_free_text": ("explicit-state model checker for the TLA+ specifications in /verif/spec; also "
                                        "validates traces recorded from the real code (trace specifications *Trace.tla)")}],
        "checks": checks,
        "notes": ("See DESIGN.md. A property is claimed only once its spec module, both bindings and known-finding "
                  "signatures exist and its quick check exits 0 on the unchanged tree. Genuine defects repaired in /repo "
                  "are listed as 'fixed' in known_findings.json."),
        "not_applicable": [{"property_id": p, "reason": NA.get(p, NOT_BUILT)} for p in PROPS if p not in CLAIMS],
    }
    json.dump(m, open("/verif/MANIFEST.json", "w"), indent=1)
    print("MANIFEST: %d claimed, %d not claimed" % (len(checks), len(m["not_applicable"])))


if __name__ == "__main__":
    main()
