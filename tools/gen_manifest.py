#!/usr/bin/env python3
"""Regenerate MANIFEST.json from the table below (single source of truth for what is claimed)."""
import json

PROPS = [json.loads(l)["id"] for l in open("/verif/properties.jsonl")]

BASELINE_OFF = ("cd /repo && env -u FASTPARQUET_VERIF /venv/bin/python -m pytest -ra -q -p no:cacheprovider "
                "--timeout=900 --continue-on-collection-errors")

CLAIMS = {
 "C16": dict(
    level="model_checking",
    text=("TLC checks the footer-rewrite mechanism (spec/SingleFile.tla over the byte-extent file model "
          "spec/FileBytes.tla) against the contract invariants Openable/RowsReadable/NoStaleTail/DataIntact/KvExact for "
          "all update histories within the constants, and checks that the non-truncating model mutant violates them; the "
          "history tree TLC enumerates is replayed on real files (every footer delta -15..+15, data files and _metadata "
          "files) with the contract evaluated on the real bytes after every step by an independent tail parser and the "
          "library's reader; the recorded file-handle calls of every replayed update are validated by TLC as behaviours "
          "of the specification (SingleFileTrace)."),
    design_ref="DESIGN.md section 5 C16, section 10",
    note=("Symbolic bytes: coincidences between stale and new real bytes are judged on the real file, not by the model. "
          "Trusted: harness/minithrift.py (independent compact-protocol walker), local POSIX file semantics. "
          "Bounds: 2 keys x value lengths {1,8} and 1 key x lengths 0..9 (quick), histories of 2 updates; thorough adds "
          "3-update histories and more lengths."),
    technique="TLA+ spec + TLC model checking; spec->code history replay; code->spec I/O trace validation"),
}

NOT_BUILT = "not built yet (construction order in DESIGN.md section 9)"
NA = {}


def main():
    checks = []
    for pid in PROPS:
        if pid not in CLAIMS:
            continue
        c = CLAIMS[pid]
        checks.append({
            "property_id": pid,
            "quick_cmd": "./check %s --tier quick" % pid,
            "thorough_cmd": "./check %s --tier thorough" % pid,
            "evidence_file": "/verif/evidence/%s.json" % pid,
            "replay_cmd_template": "./check %s --replay {path}" % pid,
            "engine": "tlc",
            "level_claimed": {"category": c["level"], "text": c["text"], "design_ref": c["design_ref"]},
            "level_note": c["note"],
            "technique": c["technique"],
        })
    m = {
        "version": 1,
        "setup_cmd": "./check --setup",
        "hooks": {
            "guard": "FASTPARQUET_VERIF",
            "enable": ("reserved and unused so far: every observation is made from outside the repository "
                       "(caller-supplied open_with/mkdirs/remove_with wrappers, module globals, shadowed module attribute "
                       "fastparquet.writer.open, sys.settrace scheduler); checks export FASTPARQUET_VERIF=1"),
            "baseline_off_cmd": BASELINE_OFF,
            "source_commits": [],
            "add_only": True,
        },
        "engines": [{"name": "tlc", "path": "/usr/local/bin/tlc", "serves_properties": sorted(CLAIMS),
                     "kind_free_text": ("explicit-state model checker for the TLA+ specifications in /verif/spec; also "
                                        "validates traces recorded from the real code (trace specifications *Trace.tla)")}],
        "checks": checks,
        "notes": ("See DESIGN.md. A property is claimed only once its spec module, both bindings and known-finding "
                  "signatures exist and its quick check exits 0 on the unchanged tree. Genuine defects repaired in /repo "
                  "are listed as 'fixed' in known_findings.json."),
        "not_applicable": [{"property_id": p, "reason": NA.get(p, NOT_BUILT)} for p in PROPS if p not in CLAIMS],
    }
    json.dump(m, open("/verif/MANIFEST.json", "w"), indent=1)
    print("MANIFEST: %d claimed, %d not claimed" % (len(checks), len(m["not_applicable"])))


if __name__ == "__main__":
    main()
