#!/usr/bin/env python3
"""tools/rerun_seeds.py [<seed-dir-name> ...]
For every seeded change under /verif/seeded (or the ones named): apply its patch to /repo, run the quick check of the
seed's own property plus the checks listed in meta["also_check"], undo the patch, and record the outcome in the seed's
meta.json ("caught_by_current") and in /verif/seeded/RESULTS.md.  /repo must be clean before and is clean after."""
import json, os, shutil, subprocess, sys, tempfile, time

SEEDED = "/verif/seeded"
# RERUN_TREE=<worktree of /repo>: patch that tree instead of /repo; RERUN_VERIF=<copy of /verif>: run the checks from that
# copy (its own evidence/ and replays/), so that several reruns - and work on /repo - can go on side by side
TREE = os.environ.get("RERUN_TREE", "/repo")
VERIF = os.environ.get("RERUN_VERIF", "/verif")


def run(cmd, cwd=None):
    env = dict(os.environ)
    if TREE != "/repo":
        env["VERIF_REPO"] = TREE
    p = subprocess.run(cmd, shell=True, cwd=cwd or VERIF, env=env, stdout=subprocess.PIPE, stderr=subprocess.STDOUT, text=True)
    return p.returncode, p.stdout


def main():
    names = sys.argv[1:] or sorted(d for d in os.listdir(SEEDED) if os.path.isdir(os.path.join(SEEDED, d)))
    rc, out = run("git -C %s status --porcelain" % TREE)
    if out.strip():
        sys.exit("refusing: %s is not clean:\n" % TREE + out)
    rows = []
    # the checks rewrite /verif/evidence/<id>.json: keep the evidence of the unchanged tree
    keep = tempfile.mkdtemp(prefix="evidence-keep-")
    shutil.copytree(VERIF + "/evidence", os.path.join(keep, "evidence"))
    try:
        rows = _all(names)
    finally:
        shutil.rmtree(VERIF + "/evidence", ignore_errors=True)
        shutil.copytree(os.path.join(keep, "evidence"), VERIF + "/evidence")
        shutil.rmtree(keep, ignore_errors=True)
    # the table always lists every seed: the latest recorded run of each (this invocation's or an earlier one's)
    allrows = []
    for name in sorted(d for d in os.listdir(SEEDED) if os.path.isdir(os.path.join(SEEDED, d))):
        m = json.load(open(os.path.join(SEEDED, name, "meta.json")))
        res = m.get("current_run")
        if not res:
            allrows.append((name, "not run yet", ""))
            continue
        allrows.append((name, ", ".join(m.get("caught_by_current", [])) or "MISSED",
                        ", ".join("%s rc=%d (%ss)" % (c, r["rc"], r["wall_s"]) for c, r in res.items())))
    for r in rows:
        if r[1] == "patch does not apply any more":
            allrows = [x if x[0] != r[0] else r for x in allrows]
    with open(os.path.join(SEEDED, "RESULTS.md"), "w") as f:
        f.write("# Seeded changes against the quick checks (written by tools/rerun_seeds.py)\n\n| seed | caught by | runs |\n|---|---|---|\n")
        for r in allrows:
            f.write("| %s | %s | %s |\n" % r)
    rc, out = run("git -C %s status --porcelain" % TREE)
    if out.strip():
        sys.exit("%s left dirty:\n" % TREE + out)


def _all(names):
    rows = []
    for name in names:
        d = os.path.join(SEEDED, name)
        meta = json.load(open(os.path.join(d, "meta.json")))
        pid = name.split("-")[0]
        checks = [pid] + [c for c in meta.get("also_check", []) if c != pid]
        rc, out = run("git -C %s apply %s/patch.diff" % (TREE, d))
        if rc:
            rows.append((name, "patch does not apply any more", ""))
            continue
        res = {}
        try:
            for c in checks:
                t = time.time()
                rcc, o = run("./check %s --tier quick" % c)
                res[c] = {"rc": rcc, "wall_s": round(time.time() - t, 1),
                          "first_violation": next((l for l in o.splitlines() if l.startswith("VIOLATION")), None)}
        finally:
            run("git -C %s checkout -- ." % TREE)
        meta["caught_by_current"] = [c for c, r in res.items() if r["rc"] == 1]
        meta["current_run"] = res
        json.dump(meta, open(os.path.join(d, "meta.json"), "w"), indent=1)
        rows.append((name, ", ".join(meta["caught_by_current"]) or "MISSED",
                     ", ".join("%s rc=%d (%ss)" % (c, r["rc"], r["wall_s"]) for c, r in res.items())))
        print(rows[-1], flush=True)
    return rows


if __name__ == "__main__":
    main()
