#!/usr/bin/env python3
"""Print the brief for a seeded-change sub-agent: property text only, nothing from /verif."""
import json, sys
pid = sys.argv[1]
n = sys.argv[2] if len(sys.argv) > 2 else "1"
p = [json.loads(l) for l in open('/verif/properties.jsonl') if json.loads(l)['id'] == pid][0]
NAME = pid if n == "1" else pid + "-" + n
W = "/tmp/wt-%s" % NAME
print(f"""You are helping to evaluate a verification effort for the Python library dask/fastparquet (a Parquet reader/writer). Your job: craft ONE realistic, subtle code change (a "seeded defect") to the library that BREAKS the property below while the library still imports and its existing test-suite still passes, plus a small demonstration program that fails with your change and passes without it.

## The property (id {pid}): {p['title']}
Statement: {p['statement']}
Quantified over: {p['quantifier']['text']}
Code most relevant: {', '.join(p['anchors']['files'])}

## Where to work
* Your private scratch git worktree of the library is `{W}` (a checkout of the current HEAD with the compiled extension modules already copied in). Edit ONLY files inside `{W}/fastparquet/` (Python files only: `.pyx`/C cannot be rebuilt here - there is no Cython). Do NOT touch `/repo`, do NOT look at or touch `/verif` (you must work independently of it), do not run git commit.
* Run Python against your worktree with `cd {W} && PYTHONPATH={W} /venv/bin/python ...` (check `fastparquet.__file__` points into `{W}`). There is no network; nothing can be installed. pandas 3.0.5 / numpy 2.5 are installed.
* Existing tests: `cd {W} && PYTHONPATH={W} /venv/bin/python -m pytest -q -p no:cacheprovider -x --timeout=900 fastparquet/test/<file>` . In this environment 41 tests of the suite fail even on the unchanged tree (pandas-3 incompatibilities); the list of the 339 tests that must keep passing is the `stable_pass` array in `/root/.vp/BASELINE.json` (names like `fastparquet.test.test_api::test_x`). Your change must not make any of those 339 fail: run the full suite once at the end (`cd {W} && PYTHONPATH={W} /venv/bin/python -m pytest -q -p no:cacheprovider --timeout=900 --junitxml=/tmp/wt-{NAME}-out/junit.xml`, ~1 minute) and compare against that list with a few lines of Python.

## What kind of change
* It must be a change a tired maintainer could plausibly make (a refactor slip, an off-by-one, a wrong condition, a reordered pair of calls, a cached value not invalidated, a fast path that is wrong for a corner case) - not sabotage that breaks ordinary use at once.
* It should need something SPECIFIC to manifest: an unusual input or option combination, a particular multi-step sequence of operations, a fault/crash at a particular point, a particular interleaving, or two cooperating sites that each look fine alone. Ordinary single-call use, and everything the existing tests do, must keep working.
* It must genuinely violate the property statement above (not some neighbouring property).

## Deliverables (write them to `/tmp/wt-{NAME}-out/`)
1. `patch.diff` - output of `git -C {W} diff` (your change, Python files only).
2. `demo.py` - a self-contained program (run as `PYTHONPATH=<tree> /venv/bin/python demo.py`) that exits 0 on the unchanged library and exits non-zero (assertion failure with a clear message) with your change applied. It must work from any cwd and create its files under a `tempfile.mkdtemp()` directory that it removes.
3. `meta.json` - {{"property": "{pid}", "summary": "<one sentence: what you changed>", "needs": "<what specific circumstance is needed for it to manifest>", "why_tests_pass": "<why the existing suite does not notice>", "files": [...]}}.
Verify yourself: demo passes on `/repo` (`PYTHONPATH=/repo`), fails on your worktree; the 339 stable tests still pass on your worktree. Report in your final message exactly what you ran and observed. Keep it to one change; aim to finish in about 20-30 minutes.""")
