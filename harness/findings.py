"""known_findings.json: signature matching.  The file is read, never written, at run time."""
import json
import os

from .common import HOME

PATH = os.path.join(HOME, "known_findings.json")


def load():
    if not os.path.exists(PATH):
        return []
    with open(PATH) as f:
        return json.load(f).get("findings", [])


def _match_one(want, got):
    if isinstance(want, dict) and ("min" in want or "max" in want):
        if not isinstance(got, (int, float)) or isinstance(got, bool):
            return False
        return want.get("min", got) <= got <= want.get("max", got)
    if isinstance(want, dict) and "any_of" in want:
        return got in want["any_of"]
    if isinstance(want, dict) and "contains" in want:
        return isinstance(got, (list, tuple, set, str)) and want["contains"] in got
    return want == got


def match(pid, signature, findings=None):
    """Return the open finding whose signature is matched by `signature` (all its keys), or None."""
    for f in (load() if findings is None else findings):
        if f.get("property") != pid or f.get("status") != "open":
            continue
        sig = f.get("signature", {})
        if sig and all(k in signature and _match_one(v, signature[k]) for k, v in sig.items()):
            return f
    return None


class Verdicts:
    """Collects violations by signature; prints KNOWN-FINDING / VIOLATION lines; decides exit code."""

    def __init__(self, pid, replay_dir):
        self.pid = pid
        self.replay_dir = replay_dir
        self.groups = {}      # sigkey -> dict(signature, size, cost, replay)
        self.findings = load()

    def add(self, signature, replay, cost=0):
        key = json.dumps(signature, sort_keys=True, default=str)
        g = self.groups.get(key)
        if g is None:
            self.groups[key] = {"signature": signature, "size": 1, "cost": cost, "replay": replay}
        else:
            g["size"] += 1
            if cost < g["cost"]:
                g["cost"], g["replay"] = cost, replay

    def report(self, ev):
        """Print the lines, write replay files; returns number of unlisted violations."""
        os.makedirs(self.replay_dir, exist_ok=True)
        unlisted = 0
        hits = {}
        n = 0
        for key in sorted(self.groups):
            g = self.groups[key]
            f = match(self.pid, g["signature"], self.findings)
            if f is not None:
                h = hits.setdefault(f["id"], {"id": f["id"], "what": f["what"], "cases": 0})
                h["cases"] += g["size"]
                continue
            n += 1
            path = os.path.join(self.replay_dir, "%s-%03d.json" % (self.pid, n))
            with open(path, "w") as fh:
                json.dump({"property": self.pid, "signature": g["signature"], "group_size": g["size"],
                           "replay": g["replay"]}, fh, indent=1, default=str)
            print("VIOLATION property=%s replay=%s" % (self.pid, path))
            print("  signature: %s  (%d case(s))" % (json.dumps(g["signature"], sort_keys=True, default=str), g["size"]))
            unlisted += 1
        for h in hits.values():
            print("KNOWN-FINDING: property=%s %s [%s, %d case(s)]" % (self.pid, h["what"], h["id"], h["cases"]))
        ev.known = list(hits.values())
        ev.violations = unlisted
        return unlisted
