"""Verification harness for dask/fastparquet: binds the TLA+ specifications in ../spec to the code."""
