"""./check <id> --tier quick|thorough [--replay path] | --setup | --list"""
import argparse
import importlib
import os
import sys
import traceback

from .common import HOME, Timer, seed, tier_from_env


def main(argv=None):
    ap = argparse.ArgumentParser(prog="check")
    ap.add_argument("pid", nargs="?")
    ap.add_argument("--tier", default=None, choices=["quick", "thorough"])
    ap.add_argument("--replay", default=None)
    ap.add_argument("--setup", action="store_true")
    ap.add_argument("--selftest", nargs="*", default=None)
    a = ap.parse_args(argv)
    if a.setup:
        from . import setup
        return setup.main()
    if a.selftest is not None:
        from . import selftest
        return selftest.main(a.selftest)
    if not a.pid:
        ap.error("property id required")
    tier = a.tier or tier_from_env()
    try:
        mod = importlib.import_module("harness.checks.%s" % a.pid.lower())
    except ImportError:
        traceback.print_exc()
        print("no check for %s" % a.pid)
        return 2
    t = Timer()
    try:
        if a.replay:
            rc = mod.replay(a.replay)
        else:
            rc = mod.run(tier, seed())
    except SystemExit:
        raise
    except Exception:
        traceback.print_exc()
        print("MACHINERY-ERROR property=%s" % a.pid)
        return 2
    print("check %s tier=%s seed=%d rc=%d wall=%.1fs" % (a.pid, tier, seed(), rc, t.s()))
    return rc


if __name__ == "__main__":
    sys.exit(main())
