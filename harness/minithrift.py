"""A 60-line IDL-agnostic Thrift compact-protocol walker (independent of fastparquet), used to find where a
serialised struct ends and to pull out a few fields.  harness.pqspec supersedes it where available."""


class Malformed(ValueError):
    pass


def varint(buf, pos):
    r = 0
    shift = 0
    while True:
        if pos >= len(buf):
            raise Malformed("truncated varint")
        b = buf[pos]
        pos += 1
        r |= (b & 0x7F) << shift
        if not b & 0x80:
            return r, pos
        shift += 7
        if shift > 70:
            raise Malformed("varint too long")


def unzig(n):
    return (n >> 1) ^ -(n & 1)


def read_value(buf, pos, wt):
    if wt in (1, 2):
        return wt == 1, pos
    if wt == 3:
        if pos >= len(buf):
            raise Malformed("truncated")
        return buf[pos], pos + 1
    if wt in (4, 5, 6):
        v, pos = varint(buf, pos)
        return unzig(v), pos
    if wt == 7:
        if pos + 8 > len(buf):
            raise Malformed("truncated double")
        return bytes(buf[pos:pos + 8]), pos + 8
    if wt == 8:
        n, pos = varint(buf, pos)
        if pos + n > len(buf):
            raise Malformed("truncated binary")
        return bytes(buf[pos:pos + n]), pos + n
    if wt in (9, 10):
        if pos >= len(buf):
            raise Malformed("truncated")
        h = buf[pos]
        pos += 1
        n = h >> 4
        et = h & 0x0F
        if n == 15:
            n, pos = varint(buf, pos)
        out = []
        for _ in range(n):
            if et in (1, 2):
                if pos >= len(buf):
                    raise Malformed("truncated")
                out.append(buf[pos] == 1)
                pos += 1
            else:
                v, pos = read_value(buf, pos, et)
                out.append(v)
        return out, pos
    if wt == 12:
        return read_struct(buf, pos)
    raise Malformed("bad wire type %d" % wt)


def read_struct(buf, pos=0):
    """-> ({field_id: value}, end).  Nested structs are dicts, lists are lists, binaries are bytes."""
    out = {}
    last = 0
    while True:
        if pos >= len(buf):
            raise Malformed("truncated struct")
        h = buf[pos]
        pos += 1
        if h == 0:
            return out, pos
        delta = h >> 4
        wt = h & 0x0F
        if delta == 0:
            v, pos = varint(buf, pos)
            fid = unzig(v)
        else:
            fid = last + delta
        last = fid
        out[fid], pos = read_value(buf, pos, wt)
