"""Concretisation of the abstract dtype classes and values of spec/ColumnWriter.tla (trusted base).

Abstract value k in 0..6 of class c  |->  a concrete pandas value; the map is monotone in the class's Parquet order,
so the concretisation of the abstract min/max is the concrete min/max.  Values are chosen to separate orders
(unsigned values straddling the sign bit, category order different from label order, multi-byte text) and never
small counters (stale memory must not coincide with an expected cell)."""
import datetime

NULL = -1
SENT = -2


def conc(cls, k):
    cls = cls[:-4] if cls.endswith("_ord") else cls      # ordered categorical variants share everything but the flag
    import numpy as np
    import pandas as pd
    if cls == "bool" or cls == "boolean":
        return bool(k >= 3)
    if cls in ("int8", "Int8"):
        return [-120, -77, -5, 0, 9, 66, 127][k]
    if cls == "int16":
        return [-32000, -777, -5, 0, 9, 6666, 32767][k]
    if cls in ("int32", "Int32"):
        return [-2000000000, -777777, -5, 0, 9, 66666666, 2147483647][k]
    if cls in ("int64", "Int64"):
        return [-(2 ** 62) - 12345, -777777777777, -5, 0, 9, 66666666666666, 2 ** 63 - 1][k]
    if cls == "uint8":
        return [0, 3, 77, 127, 128, 200, 255][k]
    if cls in ("uint16", "UInt16"):
        return [0, 3, 777, 32767, 32768, 50000, 65535][k]
    if cls == "uint32":
        return [0, 3, 777, 2 ** 31 - 1, 2 ** 31, 3000000000, 2 ** 32 - 1][k]
    if cls in ("uint64", "UInt64"):
        return [0, 3, 777, 2 ** 63 - 1, 2 ** 63, 2 ** 63 + 12345, 2 ** 64 - 2][k]
    if cls == "float32":
        return [-1.5e10, -2.25, -0.5, 0.0, 0.75, 3.5, 2.5e10][k]
    if cls == "float64":
        return [-1.5e300, -2.25, -0.5, 0.0, 0.75, 3.5, float("inf")][k]
    if cls in ("obj_str", "str"):
        return ["Aaaa", "Bcde", "abcd", "abce", "aéz", "b中z", "zzzz"][k]    # UTF-8 byte order = this order
    if cls == "obj_str_e":
        return ["", "Bcde", "abcd", "abce", "aéz", "b中z", "zzzz"][k]
    if cls == "obj_bytes":
        return [b"\x00\x01\x02\x03", b"Aaaa", b"abcd", b"abce", b"b\x7fzz", b"\x80abc", b"\xff\xfe\xfd\xfc"][k]
    if cls in ("dt_ns", "dt_us", "dt_ms", "dt_s", "dt_tz"):
        unit = {"dt_ns": "ns", "dt_us": "us", "dt_ms": "ms", "dt_s": "s", "dt_tz": "ns"}[cls]
        base = [-86400 * 400, -3600, -1, 0, 1, 86400 * 365 * 30, 86400 * 365 * 60][k]      # seconds around the epoch
        ts = pd.Timestamp(base, unit="s")
        if cls == "dt_tz":
            ts = ts.tz_localize("UTC").tz_convert("Europe/Paris")
        return ts.as_unit(unit)
    if cls in ("td_ns", "td_us"):
        return pd.Timedelta(microseconds=[-5_000_000, -3, 0, 7, 1000, 86_400_000_000, 10 ** 14][k])
    if cls == "td_ms":       # durations of coarser resolution: whole milliseconds / seconds (all representable in microseconds)
        return pd.Timedelta(milliseconds=[-5_000, -3, 0, 7, 1000, 86_400_000, 10 ** 11][k])
    if cls == "td_s":
        return pd.Timedelta(seconds=[-5, -3, 0, 7, 1000, 86_400, 10 ** 8][k])
    if cls in ("cat_str", "cat_str_w"):
        return ["lab_a", "lab_b", "lab_c", "lab_d", "lab_e", "lab_f", "lab_g"][k]
    if cls == "cat_int":
        return [-500, -7, 0, 13, 140, 9999, 1234567][k]
    raise ValueError(cls)


NP_DTYPE = {"bool": "bool", "int8": "int8", "int16": "int16", "int32": "int32", "int64": "int64", "uint8": "uint8",
            "uint16": "uint16", "uint32": "uint32", "uint64": "uint64", "float32": "float32", "float64": "float64"}
MASKED = {"Int8", "Int32", "Int64", "UInt16", "UInt64", "boolean"}


def series(cls, cells, name="x"):
    """cells: list of abstract values with NULL (-1) / SENT (-2) for missing"""
    import numpy as np
    import pandas as pd
    miss = [c < 0 for c in cells]
    vals = [None if m else conc(cls, c) for c, m in zip(cells, miss)]
    if cls in NP_DTYPE:
        if cls.startswith("float"):
            return pd.Series([np.nan if m else v for v, m in zip(vals, miss)], dtype=NP_DTYPE[cls], name=name)
        return pd.Series(np.array(vals, dtype=NP_DTYPE[cls]) if vals else np.array([], dtype=NP_DTYPE[cls]), name=name)
    if cls in MASKED:
        return pd.Series(pd.array([pd.NA if m else v for v, m in zip(vals, miss)], dtype=cls), name=name)
    if cls in ("obj_str", "obj_bytes", "obj_str_e"):
        return pd.Series(vals, dtype=object, name=name)
    if cls == "str":
        return pd.Series(vals, dtype="str", name=name)
    if cls.startswith("dt_"):
        unit = {"dt_ns": "ns", "dt_us": "us", "dt_ms": "ms", "dt_s": "s", "dt_tz": "ns"}[cls]
        if cls == "dt_tz":
            return pd.Series(pd.DatetimeIndex([pd.NaT if m else v.tz_convert("UTC") for v, m in zip(vals, miss)],
                                              dtype="datetime64[ns, UTC]").tz_convert("Europe/Paris"), name=name)
        return pd.Series([pd.NaT if m else v for v, m in zip(vals, miss)], dtype="datetime64[%s]" % unit, name=name)
    if cls.startswith("td_"):
        return pd.Series([pd.NaT if m else v for v, m in zip(vals, miss)], dtype="timedelta64[%s]" % cls[3:], name=name)
    if cls == "cat_str_w":
        # 200 categories, of which the column uses at most seven: two-byte codes
        used = sorted({c for c in cells if c >= 0})
        cats = [conc(cls, k) for k in reversed(used)] + ["pad_%03d" % i for i in range(200 - len(used))]
        return pd.Series(pd.Categorical([None if m else v for v, m in zip(vals, miss)], categories=cats), name=name)
    if cls in ("cat_str", "cat_int", "cat_str_ord", "cat_int_ord"):
        # category order deliberately differs from the order of the labels, plus one unused category;
        # the _ord variants declare that order as THE order of the categorical (statistics still go by label value)
        used = sorted({c for c in cells if c >= 0})
        cats = [conc(cls, k) for k in reversed(used)] + [conc(cls, 6) if 6 not in used else ("unused" if cls.startswith("cat_str") else 424242)]
        return pd.Series(pd.Categorical([None if m else v for v, m in zip(vals, miss)], categories=cats,
                                        ordered=cls.endswith("_ord")), name=name)
    raise ValueError(cls)


def cell_equal(cls, got, want_k):
    """compare a cell read back by the library with the abstract expectation (want_k < 0: missing)"""
    cls = cls[:-4] if cls.endswith("_ord") else cls      # ordered categorical variants share everything but the flag
    import numpy as np
    import pandas as pd
    missing = got is None or got is pd.NA or got is pd.NaT or (isinstance(got, float) and got != got)
    try:
        if not missing and pd.isna(got):
            missing = True
    except (TypeError, ValueError):
        pass
    if want_k < 0:
        return missing
    if missing:
        return False
    want = conc(cls, want_k)
    if cls.startswith("dt_"):
        g = pd.Timestamp(got)
        if cls == "dt_tz":
            return g.tzinfo is not None and g == want
        return g.tzinfo is None and g == want
    if cls.startswith("td_"):
        return pd.Timedelta(got) == want
    if cls == "obj_bytes":
        return bytes(got) == want
    if cls in ("obj_str", "str", "cat_str", "cat_str_w", "obj_str_e"):
        return str(got) == want
    if cls.startswith("float"):
        return float(got) == float(np.dtype(NP_DTYPE[cls]).type(want))
    if cls in ("bool", "boolean"):
        return bool(got) == want
    return int(got) == want


def stat_equal(cls, got, want_k):
    cls = cls[:-4] if cls.endswith("_ord") else cls      # ordered categorical variants share everything but the flag
    """a min/max exposed by ParquetFile.statistics against the abstract expectation: same logical value
    (text may come as bytes, a tz-aware instant as the naive UTC instant)"""
    import numpy as np
    import pandas as pd
    want = conc(cls, want_k)
    try:
        if cls in ("obj_str", "str", "cat_str", "cat_str_w", "obj_str_e"):
            g = got.decode("utf8") if isinstance(got, (bytes, np.bytes_)) else str(got)
            return g == want
        if cls == "obj_bytes":
            return bytes(got) == want
        if cls.startswith("dt_"):
            g = pd.Timestamp(got)
            g = g.tz_localize("UTC") if g.tzinfo is None else g.tz_convert("UTC")
            w = pd.Timestamp(want)
            w = w.tz_localize("UTC") if w.tzinfo is None else w.tz_convert("UTC")
            return g == w
        return cell_equal(cls, got, want_k)
    except Exception:
        return False


def dtype_ok(cls, dtype):
    """the documented canonical dtype of a class after a round trip"""
    cls = cls[:-4] if cls.endswith("_ord") else cls      # ordered categorical variants share everything but the flag
    s = str(dtype)
    if cls in NP_DTYPE:
        return s == NP_DTYPE[cls]
    if cls in MASKED:
        return s == cls
    if cls in ("obj_str", "str", "obj_str_e"):
        return s in ("object", "str", "string")
    if cls == "obj_bytes":
        return s == "object"
    if cls == "dt_tz":
        return s.startswith("datetime64[ns, ") and "Paris" in s
    if cls.startswith("dt_"):
        return s == "datetime64[%s]" % {"dt_ns": "ns", "dt_us": "us", "dt_ms": "ms", "dt_s": "s"}[cls]
    if cls.startswith("td_"):
        return s.startswith("timedelta64")
    if cls in ("cat_str", "cat_int", "cat_str_w"):
        return s == "category"
    return False


# ---------------------------------------------------------------------------------------------------------------
# independent decode: physical value of the file (pqspec) -> comparable logical value, using only the schema
# ---------------------------------------------------------------------------------------------------------------

def logical_from_physical(leaf, v):
    """leaf: pqspec Leaf; v: physical value.  Returns a tuple (kind, value) comparable with expected_logical()."""
    ct = leaf.converted_type
    lt = leaf.logical_type or {}
    pt = leaf.physical_type if hasattr(leaf, "physical_type") else leaf.type
    if pt == "BOOLEAN":
        return ("bool", bool(v))
    if pt in ("FLOAT", "DOUBLE"):
        return ("float", float(v))
    if pt == "BYTE_ARRAY" or pt == "FIXED_LEN_BYTE_ARRAY":
        return ("bytes", bytes(v))
    if pt in ("INT32", "INT64"):
        unsigned = ct in ("UINT_8", "UINT_16", "UINT_32", "UINT_64")
        if unsigned and v < 0:
            v += 2 ** (32 if pt == "INT32" else 64)
        if ct in ("TIMESTAMP_MILLIS",) or _lt_unit(lt, "TIMESTAMP") == "MILLIS":
            return ("ns", v * 1_000_000)
        if ct in ("TIMESTAMP_MICROS",) or _lt_unit(lt, "TIMESTAMP") == "MICROS":
            return ("ns", v * 1000)
        if _lt_unit(lt, "TIMESTAMP") == "NANOS":
            return ("ns", v)
        if ct == "TIME_MICROS" or _lt_unit(lt, "TIME") == "MICROS":
            return ("td_ns", v * 1000)
        if ct == "TIME_MILLIS" or _lt_unit(lt, "TIME") == "MILLIS":
            return ("td_ns", v * 1_000_000)
        if _lt_unit(lt, "TIME") == "NANOS":
            return ("td_ns", v)
        return ("int", int(v))
    if pt == "INT96":
        nanos = int.from_bytes(v[:8], "little")
        day = int.from_bytes(v[8:12], "little")
        return ("ns", (day - 2440588) * 86400 * 10 ** 9 + nanos)
    return ("?", v)


def _lt_unit(lt, key):
    d = lt.get(key) if isinstance(lt, dict) else None
    if not isinstance(d, dict):
        return None
    u = d.get("unit")
    if isinstance(u, dict):
        for k in ("MILLIS", "MICROS", "NANOS"):
            if u.get(k) is not None:
                return k
    return None


def expected_logical(cls, k):
    cls = cls[:-4] if cls.endswith("_ord") else cls      # ordered categorical variants share everything but the flag
    import pandas as pd
    v = conc(cls, k)
    if cls in ("bool", "boolean"):
        return ("bool", v)
    if cls.startswith("float"):
        import numpy as np
        return ("float", float(np.dtype(NP_DTYPE[cls]).type(v)))
    if cls in ("obj_str", "str", "cat_str", "cat_str_w", "obj_str_e"):
        return ("bytes", v.encode("utf8"))
    if cls == "obj_bytes":
        return ("bytes", v)
    if cls.startswith("dt_"):
        return ("ns", pd.Timestamp(v).value if cls != "dt_tz" else v.tz_convert("UTC").tz_localize(None).value)
    if cls.startswith("td_"):
        return ("td_ns", int(v.value))        # Timedelta.value: always nanoseconds
    return ("int", int(v))
