"""Crash-tolerant parallel map: the code under test contains C extensions that may segfault on the inputs we
feed it; a dying worker must become a *result* ("crashed"), never a hang."""
import os
import pickle
import select
import signal
import struct
import sys
import time

from .common import NCPU


class Crashed:
    def __init__(self, job_index, status, timed_out=False):
        self.job_index = job_index
        self.status = status
        self.timed_out = timed_out

    def __repr__(self):
        return "Crashed(job=%d, status=%s%s)" % (self.job_index, self.status, ", timeout" if self.timed_out else "")


def _worker(func, jobs, indices, wfd, init, quiet=True):
    try:
        if quiet:
            # the C extension prints diagnostics ("Corrupted thrift data ...") on broken inputs
            dn = os.open(os.devnull, os.O_WRONLY)
            os.dup2(dn, 1)
            if not os.environ.get("VERIF_DEBUG"):
                os.dup2(dn, 2)
        if init:
            init()
        w = os.fdopen(wfd, "wb", buffering=0)
        for i in indices:
            w.write(struct.pack("<cI", b"S", i))          # "starting job i"
            try:
                r = func(jobs[i])
            except BaseException as e:   # noqa
                import traceback
                r = RuntimeError("worker exception: " + traceback.format_exc())
            blob = pickle.dumps(r, protocol=4)
            w.write(struct.pack("<cII", b"R", i, len(blob)) + blob)
        w.close()
    finally:
        os._exit(0)


def pmap(func, jobs, nproc=None, init=None, job_timeout=120, retry_timeouts=True):
    """results[i] = func(jobs[i]) or Crashed(i, status).  Order preserved.
    A job that only TIMED OUT is run once more on its own (nothing else running, twice the time) before it is reported
    as Crashed: on a loaded machine a time-out is not evidence of a hang."""
    jobs = list(jobs)
    results = _pmap(func, jobs, nproc, init, job_timeout)
    if retry_timeouts:
        for i, r in enumerate(results):
            if isinstance(r, Crashed) and r.timed_out:
                again = _pmap(func, [jobs[i]], 1, init, 2 * job_timeout)[0]
                if isinstance(again, Crashed):
                    again.job_index = i
                results[i] = again
    return results


def _pmap(func, jobs, nproc=None, init=None, job_timeout=120):
    jobs = list(jobs)
    n = len(jobs)
    results = [None] * n
    done = [False] * n
    nproc = max(1, min(nproc or NCPU, n))
    pending = list(range(n))
    # static round-robin split keeps neighbouring (similar-cost) jobs on different workers
    slices = [pending[k::nproc] for k in range(nproc)]
    workers = {}   # pid -> dict(fd, buf, current, queue, t0)

    def spawn(indices):
        if not indices:
            return
        r, w = os.pipe()
        sys.stdout.flush()
        sys.stderr.flush()
        pid = os.fork()
        if pid == 0:
            os.close(r)
            for wk in workers.values():
                try:
                    os.close(wk["fd"])
                except OSError:
                    pass
            _worker(func, jobs, indices, w, init)
        os.close(w)
        workers[pid] = {"fd": r, "buf": b"", "current": None, "queue": list(indices), "t0": time.time()}

    for s in slices:
        spawn(s)
    while workers:
        fds = {wk["fd"]: pid for pid, wk in workers.items()}
        ready, _, _ = select.select(list(fds), [], [], 1.0)
        now = time.time()
        for pid, wk in list(workers.items()):
            if wk["fd"] in ready:
                try:
                    data = os.read(wk["fd"], 1 << 20)
                except OSError:
                    data = b""
                if data:
                    wk["buf"] += data
                    _drain(wk, results, done)
                    wk["t0"] = now
                    continue
                # EOF: worker ended (cleanly or not)
                os.close(wk["fd"])
                _, status = os.waitpid(pid, 0)
                del workers[pid]
                rest = [i for i in wk["queue"] if not done[i]]
                if wk["current"] is not None and not done[wk["current"]]:
                    i = wk["current"]
                    results[i] = Crashed(i, status)
                    done[i] = True
                    rest = [j for j in rest if j != i]
                if rest:
                    spawn(rest)
            elif wk["current"] is not None and now - wk["t0"] > job_timeout:
                os.kill(pid, signal.SIGKILL)
                os.close(wk["fd"])
                os.waitpid(pid, 0)
                del workers[pid]
                i = wk["current"]
                results[i] = Crashed(i, -9, timed_out=True)
                done[i] = True
                rest = [j for j in wk["queue"] if not done[j]]
                if rest:
                    spawn(rest)
    return results


def _drain(wk, results, done):
    buf = wk["buf"]
    while buf:
        if buf[:1] == b"S":
            if len(buf) < 5:
                break
            wk["current"] = struct.unpack("<I", buf[1:5])[0]
            buf = buf[5:]
        elif buf[:1] == b"R":
            if len(buf) < 9:
                break
            i, ln = struct.unpack("<II", buf[1:9])
            if len(buf) < 9 + ln:
                break
            results[i] = pickle.loads(buf[9:9 + ln])
            done[i] = True
            wk["current"] = None
            buf = buf[9 + ln:]
        else:
            raise RuntimeError("protocol error")
    wk["buf"] = buf
