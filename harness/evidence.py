"""Evidence writer: evidence/<id>.json from counters the run actually incremented."""
import json
import os

from .common import EVIDENCE


class Evidence:
    def __init__(self, pid, tier, seed, level):
        self.pid, self.tier, self.seed, self.level = pid, tier, seed, level
        self.states = 0
        self.transitions = 0
        self.traces = 0              # traces of the real code validated by TLC against a trace spec
        self.evaluations = 0         # executions of the real code
        self.nontrivial = set()      # keys of distinct non-trivial cases
        self.rule = ""
        self.samples = []
        self.exhaustive = False
        self.assumptions = []
        self.extra = {}
        self.violations = 0
        self.known = []
        self.drift = []
        self.tlc_runs = []

    def add_tlc(self, name, res, **kw):
        self.states += res.distinct
        self.transitions += res.generated
        d = {"run": name, "distinct_states": res.distinct, "states_generated": res.generated, "depth": res.depth}
        if res.coverage:
            d["action_coverage"] = res.coverage
        d.update(kw)
        self.tlc_runs.append(d)

    def sample(self, s, limit=6):
        if len(self.samples) < limit:
            self.samples.append(s)

    def write(self, wall_s):
        os.makedirs(EVIDENCE, exist_ok=True)
        cov = {
            "states": self.states, "transitions": self.transitions,
            "traces_validated_against_impl": self.traces,
            "evaluations": self.evaluations,
            "distinct_nontrivial": len(self.nontrivial),
            "rule": self.rule, "samples": self.samples or ["(none)"],
            "exhaustive": self.exhaustive,
            "tlc_runs": self.tlc_runs,
            "known_finding_hits": self.known,
            "drift": self.drift[:50],
        }
        cov.update(self.extra)
        doc = {"property_id": self.pid, "tier": self.tier, "seed": self.seed, "level": self.level,
               "coverage": cov, "assumptions": self.assumptions, "wall_s": wall_s,
               "violations": self.violations}
        path = os.path.join(EVIDENCE, self.pid + ".json")
        tmp = path + ".tmp"
        with open(tmp, "w") as f:
            json.dump(doc, f, indent=1, sort_keys=True, default=str)
            f.write("\n")
        os.replace(tmp, path)
        return path
