"""Shared plumbing: locations, scratch directories, seeds, importing the code under test."""
import contextlib
import os
import shutil
import sys
import tempfile
import time

HOME = os.environ.get("VERIF_HOME") or os.path.dirname(os.path.dirname(os.path.abspath(__file__)))
SPEC = os.path.join(HOME, "spec")
EVIDENCE = os.path.join(HOME, "evidence")
REPO = os.environ.get("VERIF_REPO", "/repo")
GUARD = "FASTPARQUET_VERIF"
NCPU = min(16, os.cpu_count() or 1)


def seed():
    try:
        return int(os.environ.get("VERIF_SEED", "0"))
    except ValueError:
        return 0


def tier_from_env(default="quick"):
    t = os.environ.get("VERIF_TIER", default)
    return t if t in ("quick", "thorough") else default


@contextlib.contextmanager
def scratch(prefix="verif-"):
    """A fresh scratch directory outside /repo and /verif, removed on exit."""
    base = os.environ.get("VERIF_SCRATCH") or os.environ.get("TMPDIR") or "/tmp"
    d = tempfile.mkdtemp(prefix=prefix, dir=base)
    try:
        yield d
    finally:
        shutil.rmtree(d, ignore_errors=True)


def use_repo():
    """Make `import fastparquet` resolve to the tree under test (VERIF_REPO, default /repo)."""
    if REPO not in sys.path:
        sys.path.insert(0, REPO)
    os.environ.setdefault(GUARD, "1")
    import fastparquet  # noqa
    got = os.path.dirname(os.path.dirname(os.path.abspath(fastparquet.__file__)))
    if os.path.realpath(got) != os.path.realpath(REPO):
        raise RuntimeError("fastparquet imported from %s, expected %s" % (got, REPO))
    return fastparquet


class Timer:
    def __init__(self):
        self.t0 = time.time()

    def s(self):
        return round(time.time() - self.t0, 3)
