"""./check --setup : verify the tools, generate ParquetIDL.tla, parse every specification."""
import glob
import os
import shutil
import sys

from .common import SPEC, REPO
from . import tlc


def main():
    bad = 0
    for tool in ("java", "tlc"):
        if not shutil.which(tool):
            print("SETUP: missing tool", tool)
            bad += 1
    try:
        from .pqspec import idl
        if hasattr(idl, "generate_tla"):
            idl.generate_tla(os.path.join(REPO, "fastparquet", "parquet.thrift"), os.path.join(SPEC, "ParquetIDL.tla"))
    except ImportError:
        pass
    for path in sorted(glob.glob(os.path.join(SPEC, "*.tla"))):
        mod = os.path.basename(path)[:-4]
        ok, out = tlc.sany(mod)
        print("SETUP: sany %-16s %s" % (mod, "ok" if ok else "FAILED"))
        if not ok:
            print(out[-3000:])
            bad += 1
    return 1 if bad else 0


if __name__ == "__main__":
    sys.exit(main())
