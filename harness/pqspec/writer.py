"""build_file(): low level generator of valid Parquet files, with control over the layout.

See the module docstring of the package and the `spec` description in build_file.
"""
import zlib

from . import default_idl
from . import compact, encodings as enc
from .codecs import compress

MAGIC = b"PAR1"


class SpecError(ValueError):
    pass


class _Leaf:
    def __init__(self, path, node, reps):
        self.path = tuple(path)
        self.ptype = node["type"]
        self.type_length = node.get("type_length")
        self.max_def = sum(1 for r in reps if r in ("OPTIONAL", "REPEATED"))
        self.max_rep = sum(1 for r in reps if r == "REPEATED")
        self.node = node

    def unsigned(self):
        ct = self.node.get("converted_type") or ""
        lt = self.node.get("logical_type") or {}
        return ct.startswith("UINT_") or ("INTEGER" in lt and not lt["INTEGER"].get("isSigned", True))

    def decimal(self):
        return self.node.get("converted_type") == "DECIMAL" or "DECIMAL" in (self.node.get("logical_type") or {})


def _flatten_schema(children, idl, root_name="schema"):
    """-> (list of SchemaElement dicts, list of _Leaf)"""
    elements = [{"name": root_name, "num_children": len(children)}]
    leaves = []

    def walk(node, path, reps):
        rep = node.get("repetition", "REQUIRED")
        el = {"name": node["name"], "repetition_type": idl.enum_value("FieldRepetitionType", rep)}
        if node.get("converted_type") is not None:
            el["converted_type"] = idl.enum_value("ConvertedType", node["converted_type"])
        if node.get("logical_type") is not None:
            el["logicalType"] = node["logical_type"]
        for k in ("scale", "precision", "field_id", "type_length"):
            if node.get(k) is not None:
                el[k] = node[k]
        p = path + [node["name"]]
        r = reps + [rep]
        if node.get("children") is not None:
            if node.get("type") is not None:
                raise SpecError("schema node %r has both type and children" % node["name"])
            el["num_children"] = len(node["children"])
            elements.append(el)
            for ch in node["children"]:
                walk(ch, p, r)
        else:
            if node.get("type") is None:
                raise SpecError("schema node %r has neither type nor children" % node["name"])
            el["type"] = idl.enum_value("Type", node["type"])
            if node["type"] == "FIXED_LEN_BYTE_ARRAY" and node.get("type_length") is None:
                raise SpecError("FIXED_LEN_BYTE_ARRAY %r needs type_length" % node["name"])
            elements.append(el)
            leaves.append(_Leaf(p, node, r))

    for ch in children:
        walk(ch, [], [])
    return elements, leaves


# ---------------------------------------------------------------------------------------------
# statistics


def stat_bytes(leaf, v):
    """PLAIN encoding of one value, without length prefix for byte arrays."""
    if leaf.ptype in ("BYTE_ARRAY", "FIXED_LEN_BYTE_ARRAY"):
        return v.encode("utf-8") if isinstance(v, str) else bytes(v)
    return enc.plain_encode(leaf.ptype, [v], leaf.type_length)


def compute_statistics(leaf, values, null_count):
    """Statistics dict (min_value/max_value + deprecated min/max where the orders agree)."""
    st = {"null_count": null_count}
    t = leaf.ptype
    vals = [v for v in values if not (isinstance(v, float) and v != v)]
    if t == "INT96" or not vals or leaf.node.get("converted_type") == "INTERVAL":
        return st
    signed_same = True
    if t in ("BYTE_ARRAY", "FIXED_LEN_BYTE_ARRAY"):
        bvals = [x.encode("utf-8") if isinstance(x, str) else bytes(x) for x in vals]
        if leaf.decimal():
            def key(b):
                return int.from_bytes(b, "big", signed=True)
        else:
            key = bytes
            signed_same = all(all(c < 128 for c in b) for b in bvals)
        lo, hi = min(bvals, key=key), max(bvals, key=key)
    elif t in ("INT32", "INT64") and leaf.unsigned():
        bits = 32 if t == "INT32" else 64
        lo = min(vals, key=lambda v: v & ((1 << bits) - 1))
        hi = max(vals, key=lambda v: v & ((1 << bits) - 1))
        signed_same = lo == min(vals) and hi == max(vals)
    else:
        lo, hi = min(vals), max(vals)
        if t in ("FLOAT", "DOUBLE"):
            # -0.0 / +0.0: widen as the IDL asks
            if lo == 0:
                lo = -0.0
            if hi == 0:
                hi = 0.0
    st["min_value"] = stat_bytes(leaf, lo)
    st["max_value"] = stat_bytes(leaf, hi)
    if signed_same:
        st["min"] = st["min_value"]
        st["max"] = st["max_value"]
    return st


# ---------------------------------------------------------------------------------------------


def _encode_page(leaf, codec, col, page, dictionary, idl):
    """-> (header dict without sizes filled... , payload bytes stored, uncompressed size, info)"""
    version = page.get("version", 1)
    encoding = page.get("encoding", "PLAIN")
    values = list(page.get("values") or [])
    defs = page.get("def_levels")
    reps = page.get("rep_levels")
    if leaf.max_def > 0:
        if defs is None:
            n = len(reps) if reps is not None else len(values)
            defs = [leaf.max_def] * n
        defs = list(defs)
    elif defs:
        raise SpecError("%s: def_levels given for a column with max definition level 0" % (leaf.path,))
    else:
        defs = None
    if leaf.max_rep > 0:
        if reps is None:
            raise SpecError("%s: rep_levels needed for a repeated column" % (leaf.path,))
        reps = list(reps)
    elif reps:
        raise SpecError("%s: rep_levels given for a column with max repetition level 0" % (leaf.path,))
    else:
        reps = None
    if defs is not None:
        n = len(defs)
        if reps is not None and len(reps) != n:
            raise SpecError("%s: %d def levels, %d rep levels" % (leaf.path, n, len(reps)))
        nonnull = sum(1 for d in defs if d == leaf.max_def)
        if nonnull != len(values):
            raise SpecError("%s: %d values for %d entries at the maximum definition level" % (leaf.path, len(values), nonnull))
    elif reps is not None:
        n = len(reps)
        if n != len(values):
            raise SpecError("%s: %d values, %d rep levels" % (leaf.path, len(values), n))
    else:
        n = len(values)
    num_nulls = n - len(values)
    num_rows = page.get("num_rows")
    if num_rows is None:
        num_rows = sum(1 for r in reps if r == 0) if reps is not None else n

    # values
    actual = values
    if encoding == "PLAIN":
        body = enc.plain_encode(leaf.ptype, values, leaf.type_length)
        enc_name = "PLAIN"
    elif encoding == "DICT":
        if dictionary is None:
            raise SpecError("%s: DICT page without a dictionary" % (leaf.path,))
        for i in values:
            if not 0 <= i < len(dictionary):
                raise SpecError("%s: dictionary index %r out of range" % (leaf.path, i))
        need = max([0] + [int(i).bit_length() for i in values])
        width = page.get("index_width")
        if width is None:
            width = max(need, (len(dictionary) - 1).bit_length() if dictionary else 0)
        if width < need or width > 32:
            raise SpecError("%s: index_width %d (need %d..32)" % (leaf.path, width, need))
        runs = page.get("index_runs")
        hr = enc.apply_runs(values, runs) if runs is not None else enc.hybrid_auto(values, width)
        body = bytes([width]) + enc.hybrid_encode(hr, width)
        enc_name = col.get("dict_encoding", "RLE_DICTIONARY")
        if enc_name not in ("PLAIN_DICTIONARY", "RLE_DICTIONARY"):
            raise SpecError("dict_encoding %r" % (enc_name,))
        actual = [dictionary[i] for i in values]
    elif encoding == "RLE":
        if leaf.ptype != "BOOLEAN":
            raise SpecError("RLE value encoding is for BOOLEAN only")
        bits = [1 if v else 0 for v in values]
        runs = page.get("index_runs")
        hr = enc.apply_runs(bits, runs) if runs is not None else enc.hybrid_auto(bits, 1)
        h = enc.hybrid_encode(hr, 1)
        body = len(h).to_bytes(4, "little") + h
        enc_name = "RLE"
    elif encoding == "DELTA_BINARY_PACKED":
        if leaf.ptype not in ("INT32", "INT64"):
            raise SpecError("DELTA_BINARY_PACKED is for INT32/INT64 only")
        d = dict(page.get("delta") or {})
        body = enc.delta_encode(values, block_size=d.get("block_size", 128), miniblocks=d.get("miniblocks", 4),
                                bits=32 if leaf.ptype == "INT32" else 64, force_widths=d.get("force_widths"))
        enc_name = "DELTA_BINARY_PACKED"
    elif encoding == "DELTA_LENGTH_BYTE_ARRAY":
        body = enc.delta_length_encode(values)
        enc_name = encoding
    elif encoding == "DELTA_BYTE_ARRAY":
        body = enc.delta_bytearray_encode(values)
        enc_name = encoding
    elif encoding == "BYTE_STREAM_SPLIT":
        body = enc.byte_stream_split_encode(leaf.ptype, values, leaf.type_length)
        enc_name = encoding
    else:
        raise SpecError("unknown page encoding %r" % (encoding,))

    stats = None
    if page.get("page_stats"):
        stats = compute_statistics(leaf, actual, num_nulls)
    if isinstance(page.get("statistics"), dict):
        stats = page["statistics"]

    E = lambda name: idl.enum_value("Encoding", name)      # noqa: E731
    if version == 1:
        rep_b = enc.levels_v1_encode(reps, leaf.max_rep, page.get("rep_runs")) if reps is not None else b""
        def_b = enc.levels_v1_encode(defs, leaf.max_def, page.get("def_runs")) if defs is not None else b""
        raw = rep_b + def_b + body
        stored = compress(codec, raw)
        sub = {"num_values": n, "encoding": E(enc_name), "definition_level_encoding": E("RLE"),
               "repetition_level_encoding": E("RLE"), "statistics": stats}
        hdr = {"type": idl.enum_value("PageType", "DATA_PAGE"), "uncompressed_page_size": len(raw),
               "compressed_page_size": len(stored), "data_page_header": sub}
        kind = "DATA_PAGE"
    elif version == 2:
        rep_b = enc.levels_v2_encode(reps, leaf.max_rep, page.get("rep_runs")) if reps is not None else b""
        def_b = enc.levels_v2_encode(defs, leaf.max_def, page.get("def_runs")) if defs is not None else b""
        is_c = page.get("is_compressed")
        cbody = body if is_c is False else compress(codec, body)
        stored = rep_b + def_b + cbody
        sub = {"num_values": n, "num_nulls": num_nulls, "num_rows": num_rows, "encoding": E(enc_name),
               "definition_levels_byte_length": len(def_b), "repetition_levels_byte_length": len(rep_b),
               "is_compressed": is_c, "statistics": stats}
        hdr = {"type": idl.enum_value("PageType", "DATA_PAGE_V2"),
               "uncompressed_page_size": len(rep_b) + len(def_b) + len(body),
               "compressed_page_size": len(stored), "data_page_header_v2": sub}
        kind = "DATA_PAGE_V2"
    else:
        raise SpecError("page version %r" % (version,))
    if page.get("crc"):
        c = zlib.crc32(stored) & 0xFFFFFFFF
        hdr["crc"] = c - (1 << 32) if c >= 1 << 31 else c
    info = {"kind": kind, "encoding": enc_name, "n": n, "nulls": num_nulls, "actual": actual,
            "levels": bool(reps is not None or defs is not None), "rows": num_rows}
    return hdr, stored, info


def build_file(spec, idl=None, layout=None):
    """Generate a valid Parquet file from a layout specification.

    spec = {"created_by": str, "version": 1, "kv": {key: value},
      "schema": [node, ...]            children of the root, recursive; a node is
         leaf:  {"name", "type": physical type name, "repetition": "REQUIRED"|"OPTIONAL"|"REPEATED",
                 "converted_type": name|None, "logical_type": LogicalType dict|None, "type_length",
                 "scale", "precision", "field_id"}
         group: {"name", "repetition", "converted_type", "logical_type", "children": [node, ...]}
      "row_groups": [{"num_rows": n, "columns": [column, ...]}]      columns in schema leaf order
      column = {"path": [..], "codec": codec name, "dictionary": None | [values],
                "dict_encoding": "RLE_DICTIONARY" (dictionary page PLAIN, data pages RLE_DICTIONARY) |
                                 "PLAIN_DICTIONARY" (both pages PLAIN_DICTIONARY, the pre 2.0 style),
                "statistics": None | "auto" | Statistics dict, "pages": [page, ...]}
      page = {"version": 1|2, "encoding": "PLAIN"|"DICT"|"RLE"|"DELTA_BINARY_PACKED"|
                         "DELTA_LENGTH_BYTE_ARRAY"|"DELTA_BYTE_ARRAY"|"BYTE_STREAM_SPLIT",
              "values": non-null physical values (for DICT: dictionary indices),
              "def_levels": list | None (None: all at the maximum), "rep_levels": list | None,
              "def_runs" / "rep_runs" / "index_runs": None | [("rle", count) | ("bp", groups of 8), ...]
                         run structure of the hybrid encoding, consumed left to right,
              "index_width": None | bit width byte of DICT pages (>= needed, <= 32),
              "delta": {"block_size": 128, "miniblocks": 4, "force_widths": None | int},
              "is_compressed": None | True | False   (v2; False stores the values uncompressed),
              "num_rows": None | int (v2; default: number of rep level 0 entries),
              "page_stats": bool}

    All offsets, sizes, counts, encodings lists and encoding_stats are computed. Column chunks are
    written in order, the dictionary page first. ColumnMetaData.encodings lists the encodings of
    the pages plus RLE when levels are stored.

    Extra keys understood, all optional:
      spec["root_name"]            name of the schema root (default "schema")
      spec["file_offset_mode"]     what ColumnChunk.file_offset is: "metadata" (default: a copy of
                                   the ColumnMetaData is written after the chunk and file_offset
                                   points at it, the literal reading of the IDL), "chunk_start", "zero"
      spec["column_orders"]        True/False, default: written iff any min_value/max_value is
      column["statistics"]         dict of Statistics fields, or "auto"
      column["dictionary_sorted"]  is_sorted flag of the dictionary page
      column["key_value_metadata"] dict
      page["crc"]                  True to write the page CRC
      page["statistics"]           explicit Statistics dict for the page header
    `layout`, if a dict, receives the offsets of what was written.
    """
    idl = idl or default_idl()
    elements, leaves = _flatten_schema(spec.get("schema") or [], idl, spec.get("root_name", "schema"))
    by_path = {lf.path: lf for lf in leaves}
    out = bytearray(MAGIC)
    mode = spec.get("file_offset_mode", "metadata")
    row_groups = []
    total_rows = 0
    any_minmax = False
    lay = {"row_groups": []}
    for gi, rg in enumerate(spec.get("row_groups") or []):
        cols = rg.get("columns") or []
        if [tuple(c["path"]) for c in cols] != [lf.path for lf in leaves]:
            raise SpecError("row group %d: columns %r do not match the schema leaves %r" % (
                gi, [tuple(c["path"]) for c in cols], [lf.path for lf in leaves]))
        chunks = []
        rg_start = len(out)
        lay_rg = []
        for col in cols:
            leaf = by_path[tuple(col["path"])]
            codec = col.get("codec", "UNCOMPRESSED")
            dictionary = col.get("dictionary")
            start = len(out)
            dict_off = None
            tot_c = tot_u = 0
            used = []
            estats = {}
            lay_pages = []
            all_actual = []
            nulls = 0
            nvalues = 0
            rows = 0
            dict_style = col.get("dict_encoding", "RLE_DICTIONARY")
            if dictionary is not None:
                dict_off = len(out)
                raw = enc.plain_encode(leaf.ptype, dictionary, leaf.type_length)
                stored = compress(codec, raw)
                denc = "PLAIN_DICTIONARY" if dict_style == "PLAIN_DICTIONARY" else "PLAIN"
                hdr = {"type": idl.enum_value("PageType", "DICTIONARY_PAGE"), "uncompressed_page_size": len(raw),
                       "compressed_page_size": len(stored),
                       "dictionary_page_header": {"num_values": len(dictionary),
                                                  "encoding": idl.enum_value("Encoding", denc),
                                                  "is_sorted": col.get("dictionary_sorted")}}
                hb = compact.encode("PageHeader", hdr, idl)
                lay_pages.append({"offset": len(out), "header_len": len(hb), "size": len(stored), "kind": "DICTIONARY_PAGE"})
                out += hb
                out += stored
                tot_c += len(hb) + len(stored)
                tot_u += len(hb) + len(raw)
                used.append(denc)
                k = ("DICTIONARY_PAGE", denc)
                estats[k] = estats.get(k, 0) + 1
            data_off = None
            levels_used = False
            for page in col.get("pages") or []:
                hdr, stored, info = _encode_page(leaf, codec, col, page, dictionary, idl)
                hb = compact.encode("PageHeader", hdr, idl)
                if data_off is None:
                    data_off = len(out)
                lay_pages.append({"offset": len(out), "header_len": len(hb), "size": len(stored), "kind": info["kind"]})
                out += hb
                out += stored
                tot_c += len(hb) + len(stored)
                tot_u += len(hb) + hdr["uncompressed_page_size"]
                if info["encoding"] not in used:
                    used.append(info["encoding"])
                levels_used = levels_used or info["levels"]
                k = (info["kind"], info["encoding"])
                estats[k] = estats.get(k, 0) + 1
                all_actual += info["actual"]
                nulls += info["nulls"]
                nvalues += info["n"]
                rows += info["rows"]
                st = hdr.get("data_page_header", hdr.get("data_page_header_v2")).get("statistics")
                if st and (st.get("min_value") is not None or st.get("max_value") is not None):
                    any_minmax = True
            if data_off is None:
                raise SpecError("column %r of row group %d has no data page" % (col["path"], gi))
            if levels_used and "RLE" not in used:
                used.append("RLE")
            stats = col.get("statistics")
            if stats == "auto":
                stats = compute_statistics(leaf, all_actual, nulls)
            elif stats == "auto-new":
                # only the fields current writers emit: min_value / max_value (+ null_count), no deprecated min / max
                stats = {k: v for k, v in compute_statistics(leaf, all_actual, nulls).items() if k not in ("min", "max")}
            if stats and (stats.get("min_value") is not None or stats.get("max_value") is not None):
                any_minmax = True
            md = {"type": idl.enum_value("Type", leaf.ptype),
                  "encodings": [idl.enum_value("Encoding", e) for e in used],
                  "path_in_schema": list(leaf.path),
                  "codec": idl.enum_value("CompressionCodec", codec),
                  "num_values": nvalues,
                  "total_uncompressed_size": tot_u,
                  "total_compressed_size": tot_c,
                  "data_page_offset": data_off,
                  "dictionary_page_offset": dict_off,
                  "statistics": stats or None,
                  "encoding_stats": [{"page_type": idl.enum_value("PageType", a), "encoding": idl.enum_value("Encoding", b),
                                      "count": c} for (a, b), c in estats.items()]}
            if col.get("key_value_metadata"):
                md["key_value_metadata"] = [{"key": k, "value": v} for k, v in col["key_value_metadata"].items()]
            end = len(out)
            if mode == "metadata":
                fo = len(out)
                out += compact.encode("ColumnMetaData", md, idl)
            elif mode == "chunk_start":
                fo = start
            elif mode == "zero":
                fo = 0
            else:
                raise SpecError("file_offset_mode %r" % (mode,))
            chunks.append({"file_offset": fo, "meta_data": md})
            lay_rg.append({"path": leaf.path, "start": start, "end": end, "pages": lay_pages, "rows": rows})
        nrows = rg.get("num_rows")
        if nrows is None:
            nrows = lay_rg[0]["rows"] if lay_rg else 0
        total_rows += nrows
        g = {"columns": chunks, "num_rows": nrows,
             "total_byte_size": sum(c["meta_data"]["total_uncompressed_size"] for c in chunks),
             "total_compressed_size": sum(c["meta_data"]["total_compressed_size"] for c in chunks),
             "ordinal": gi}
        if chunks:
            g["file_offset"] = rg_start
        if rg.get("sorting_columns"):
            g["sorting_columns"] = rg["sorting_columns"]
        row_groups.append(g)
        lay["row_groups"].append(lay_rg)
    fmd = {"version": spec.get("version", 1), "schema": elements, "num_rows": total_rows, "row_groups": row_groups,
           "created_by": spec.get("created_by", "pqspec version 1.0 (build 0)")}
    kv = spec.get("kv")
    if kv:
        # a dict, or a list of (key, value) pairs (the IDL's list<KeyValue> may repeat a key)
        fmd["key_value_metadata"] = [{"key": k, "value": v} for k, v in (kv.items() if isinstance(kv, dict) else kv)]
    want_co = spec.get("column_orders")
    if want_co is None:
        want_co = any_minmax
    if want_co:
        fmd["column_orders"] = [{"TYPE_ORDER": {}} for _ in leaves]
    footer = compact.encode("FileMetaData", fmd, idl)
    lay["footer_start"] = len(out)
    lay["footer_len"] = len(footer)
    out += footer
    out += len(footer).to_bytes(4, "little")
    out += MAGIC
    if isinstance(layout, dict):
        layout.update(lay)
    return bytes(out)


# ---------------------------------------------------------------------------------------------
# conveniences for tests: levels for flat optional columns, LIST and MAP columns


def flat_levels(rows):
    """rows with None for NULL -> (non-null values, def_levels) for an OPTIONAL flat column."""
    return [v for v in rows if v is not None], [0 if v is None else 1 for v in rows]


def list_levels(rows):
    """Three level LIST: optional group (LIST) { repeated group list { optional <T> element } }.
    rows: None | [] | [v or None, ...] -> (values, def_levels, rep_levels); max_def 3, max_rep 1."""
    vals, defs, reps = [], [], []
    for row in rows:
        if row is None:
            defs.append(0)
            reps.append(0)
        elif len(row) == 0:
            defs.append(1)
            reps.append(0)
        else:
            for i, v in enumerate(row):
                reps.append(0 if i == 0 else 1)
                if v is None:
                    defs.append(2)
                else:
                    defs.append(3)
                    vals.append(v)
    return vals, defs, reps


def map_levels(rows):
    """MAP: optional group (MAP) { repeated group key_value { required K key; optional V value } }.
    rows: None | [] | [(k, v or None), ...] -> dict with 'key' and 'value' -> (values, defs, reps).
    key: max_def 2, value: max_def 3; max_rep 1."""
    kv, kd, kr = [], [], []
    vv, vd, vr = [], [], []
    for row in rows:
        if row is None:
            kd.append(0); kr.append(0); vd.append(0); vr.append(0)
        elif len(row) == 0:
            kd.append(1); kr.append(0); vd.append(1); vr.append(0)
        else:
            for i, (k, v) in enumerate(row):
                r = 0 if i == 0 else 1
                kr.append(r); vr.append(r)
                kd.append(2); kv.append(k)
                if v is None:
                    vd.append(2)
                else:
                    vd.append(3); vv.append(v)
    return {"key": (kv, kd, kr), "value": (vv, vd, vr)}
