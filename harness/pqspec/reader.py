"""read_file(): parse a Parquet file completely and check its structure against the format.

Nothing here raises on a bad file: every deviation is recorded in FileView.problems (codes E-..,
U-.. for things this reader cannot decode) or FileView.warnings (codes W-..).
"""
import math
import zlib

from . import FormatError, default_idl
from . import compact, encodings as enc
from .codecs import decompress, UnsupportedCodec

MAGIC = b"PAR1"
MAGIC_ENCRYPTED = b"PARE"


class Leaf:
    """Descriptor of a leaf column of the schema."""

    def __init__(self, path, element, repetitions, idl):
        self.path = tuple(path)
        self.element = element
        self.physical_type = idl.enum_name("Type", element.get("type"))
        self.type_length = element.get("type_length")
        self.repetitions = tuple(repetitions)            # one per path element
        self.max_def = sum(1 for r in repetitions if r in ("OPTIONAL", "REPEATED"))
        self.max_rep = sum(1 for r in repetitions if r == "REPEATED")
        ct = element.get("converted_type")
        self.converted_type = idl.enum_name("ConvertedType", ct) if ct is not None else None
        self.logical_type = element.get("logicalType")
        self.scale = element.get("scale")
        self.precision = element.get("precision")

    @property
    def name(self):
        return ".".join(self.path)

    def is_unsigned(self):
        if self.converted_type in ("UINT_8", "UINT_16", "UINT_32", "UINT_64"):
            return True
        lt = self.logical_type or {}
        return "INTEGER" in lt and not lt["INTEGER"].get("isSigned", True)

    def is_decimal(self):
        return self.converted_type == "DECIMAL" or "DECIMAL" in (self.logical_type or {})

    def __repr__(self):
        return "Leaf(%s %s def=%d rep=%d)" % (self.name, self.physical_type, self.max_def, self.max_rep)


class PageView:
    def __init__(self):
        self.offset = None
        self.header_len = None
        self.header = None
        self.header_tokens = None
        self.kind = None
        self.compressed_size = None
        self.uncompressed_size = None
        self.actual_uncompressed = None
        self.num_values = None
        self.num_nulls = None
        self.num_rows = None
        self.encoding = None
        self.def_levels = None
        self.rep_levels = None
        self.def_len = 0
        self.rep_len = 0
        self.values = None
        self.indices = None           # dictionary indices before lookup
        self.index_width = None
        self.trailing = 0
        self.raw = None               # stored payload bytes
        self.payload = None           # levels + values, uncompressed
        self.level_info = {}
        self.value_info = {}

    def __repr__(self):
        return "Page(%s @%s n=%s enc=%s)" % (self.kind, self.offset, self.num_values, self.encoding)


class ChunkView:
    def __init__(self):
        self.path = None
        self.leaf = None
        self.column = None        # ColumnChunk dict
        self.meta = None          # ColumnMetaData dict
        self.file_path = None
        self.start = None
        self.end = None
        self.pages = []
        self.values = None
        self.triples = None
        self.dictionary = None
        self.skipped = False      # data lives in a file we were not given
        self.complete = False     # every page decoded

    def __repr__(self):
        return "Chunk(%s [%s,%s) %d pages)" % (".".join(self.path or ()), self.start, self.end, len(self.pages))


class RowGroupView:
    def __init__(self):
        self.num_rows = None
        self.meta = None
        self.chunks = []


class FileView:
    def __init__(self):
        self.size = 0
        self.footer_start = None
        self.footer_len = None
        self.footer_parsed_len = None
        self.meta = None
        self.footer_tokens = None
        self.schema_leaves = []
        self.schema_tree = None
        self.row_groups = []
        self.problems = []
        self.warnings = []
        self.idl = None

    @property
    def kv(self):
        out = {}
        for e in (self.meta or {}).get("key_value_metadata") or []:
            out[e.get("key")] = e.get("value")
        return out

    def leaf(self, name_or_path):
        if isinstance(name_or_path, str):
            for lf in self.schema_leaves:
                if lf.name == name_or_path:
                    return lf
            cands = [lf for lf in self.schema_leaves if lf.path[0] == name_or_path]
            if len(cands) == 1:
                return cands[0]
            raise KeyError(name_or_path)
        p = tuple(name_or_path)
        for lf in self.schema_leaves:
            if lf.path == p:
                return lf
        raise KeyError(name_or_path)

    def chunks(self, name_or_path):
        lf = self.leaf(name_or_path)
        return [c for rg in self.row_groups for c in rg.chunks if c.path == lf.path]

    def column(self, name_or_path):
        """Values of a non-repeated leaf over all row groups (None for NULL)."""
        out = []
        for c in self.chunks(name_or_path):
            if c.values is None:
                raise ValueError("column %r: chunk values not available (%s)" % (
                    name_or_path, "repeated" if c.leaf and c.leaf.max_rep else "not decoded"))
            out += c.values
        return out

    def triples(self, name_or_path):
        out = []
        for c in self.chunks(name_or_path):
            if c.triples is None:
                raise ValueError("column %r: chunk not decoded" % (name_or_path,))
            out += c.triples
        return out

    def codes(self):
        return sorted({p.split()[0] for p in self.problems})


# ---------------------------------------------------------------------------------------------
# schema


def parse_schema(schema, idl, problems, warnings):
    """Flattened depth first SchemaElement list -> (tree, leaves)."""
    leaves = []
    if not schema:
        problems.append("E-SCHEMA empty schema list (no root)")
        return None, leaves
    pos = [0]

    def rep_name(el):
        r = el.get("repetition_type")
        return idl.enum_name("FieldRepetitionType", r) if r is not None else None

    def node(path, reps, is_root):
        if pos[0] >= len(schema):
            problems.append("E-SCHEMA num_children runs past the end of the schema list at %s" % ".".join(path))
            return None
        idx = pos[0]
        el = schema[idx]
        pos[0] += 1
        name = compact.as_text(el.get("name", b""), "replace")
        nd = {"name": name, "element": el, "index": idx, "children": []}
        rep = rep_name(el)
        if is_root:
            if rep is not None and rep != "REQUIRED":
                problems.append("E-SCHEMA root has repetition_type %s" % rep)
            elif rep is not None:
                warnings.append("W-SCHEMA root has a repetition_type (REQUIRED); the root should have none")
            mypath, myreps = path, reps
        else:
            if rep is None:
                problems.append("E-SCHEMA element %d %r has no repetition_type" % (idx, name))
                rep = "REQUIRED"
            mypath, myreps = path + [name], reps + [rep]
        nch = el.get("num_children")
        has_type = el.get("type") is not None
        if has_type and nch:
            problems.append("E-SCHEMA element %d %r has both a type and %d children" % (idx, name, nch))
        if has_type and not nch:
            if nch == 0:
                warnings.append("W-SCHEMA leaf %r sets num_children = 0" % name)
            lf = Leaf(mypath, el, myreps, idl)
            if lf.physical_type == "FIXED_LEN_BYTE_ARRAY" and (lf.type_length is None or lf.type_length < 0):
                problems.append("E-SCHEMA FIXED_LEN_BYTE_ARRAY leaf %s without valid type_length" % lf.name)
            if is_root:
                problems.append("E-SCHEMA root element is a leaf")
            nd["leaf"] = lf
            leaves.append(lf)
            return nd
        if nch is None:
            problems.append("E-SCHEMA element %d %r has neither type nor num_children" % (idx, name))
            nch = 0
        if nch < 0:
            problems.append("E-SCHEMA element %d %r has num_children %d" % (idx, name, nch))
            nch = 0
        if nch == 0 and not is_root:
            warnings.append("W-SCHEMA group %r has no children" % name)
        for _ in range(nch):
            ch = node(mypath, myreps, False)
            if ch is None:
                break
            nd["children"].append(ch)
        names = [c["name"] for c in nd["children"]]
        if len(set(names)) != len(names):
            problems.append("E-SCHEMA duplicate child names under %r" % name)
        return nd

    tree = node([], [], True)
    if pos[0] != len(schema):
        problems.append("E-SCHEMA %d schema elements, tree from root covers %d" % (len(schema), pos[0]))
    return tree, leaves


# ---------------------------------------------------------------------------------------------
# statistics helpers


def _signed_bytes_key(b):
    return tuple(x - 256 if x >= 128 else x for x in b)


def _stat_decode(leaf, raw, unsigned):
    """Statistics min/max bytes -> comparable python value; raises FormatError on wrong length."""
    t = leaf.physical_type
    if t == "BOOLEAN":
        if len(raw) != 1:
            raise FormatError("BOOLEAN statistic of %d bytes" % len(raw))
        return bool(raw[0])
    if t in ("INT32", "INT64"):
        n = 4 if t == "INT32" else 8
        if len(raw) != n:
            raise FormatError("%s statistic of %d bytes" % (t, len(raw)))
        return int.from_bytes(raw, "little", signed=not unsigned)
    if t in ("FLOAT", "DOUBLE"):
        n = 4 if t == "FLOAT" else 8
        if len(raw) != n:
            raise FormatError("%s statistic of %d bytes" % (t, len(raw)))
        return enc.plain_decode(t, raw, 1)[0][0]
    if t == "FIXED_LEN_BYTE_ARRAY" and leaf.type_length is not None and len(raw) != leaf.type_length:
        raise FormatError("FIXED_LEN_BYTE_ARRAY(%d) statistic of %d bytes" % (leaf.type_length, len(raw)))
    return bytes(raw)


def _stat_keys(leaf, deprecated):
    """List of candidate key functions (value -> comparable) for the ordering of this column's
    statistics; a bound is accepted if it holds under any of them. Empty list: order undefined."""
    t = leaf.physical_type
    if t == "INT96":
        return []
    if leaf.converted_type == "INTERVAL":
        return []
    if t in ("BYTE_ARRAY", "FIXED_LEN_BYTE_ARRAY"):
        if leaf.is_decimal():
            return [lambda b: int.from_bytes(b, "big", signed=True) if b else 0]
        if deprecated:
            return [bytes, _signed_bytes_key]
        return [bytes]
    if t in ("INT32", "INT64"):
        bits = 32 if t == "INT32" else 64
        if leaf.is_unsigned():
            if deprecated:      # signed by the letter of the IDL, unsigned by common practice
                return [lambda v: v, lambda v: v & ((1 << bits) - 1)]
            return [lambda v: v & ((1 << bits) - 1)]
        return [lambda v: v]
    return [lambda v: v]


# ---------------------------------------------------------------------------------------------
# the reader


class _Ctx:
    def __init__(self, view, idl, strict):
        self.view = view
        self.idl = idl
        self.strict = strict

    def problem(self, msg):
        self.view.problems.append(msg)

    def warn(self, msg):
        self.view.warnings.append(msg)

    def thrift(self, buf, pos, struct_name, where):
        """Non raising IDL decode; IDL deviations become E-THRIFT (W-THRIFT if not strict).
        Returns (value, end, tokens) or None if the bytes are malformed."""
        probs = []
        try:
            val, end, toks = compact.decode(buf, pos, struct_name, self.idl, strict=False, problems=probs,
                                            want_tokens=True)
        except FormatError as e:
            self.problem("E-THRIFT %s: malformed %s: %s" % (where, struct_name, e))
            return None
        except RecursionError:
            self.problem("E-THRIFT %s: malformed %s: nesting too deep" % (where, struct_name))
            return None
        for p in probs:
            (self.problem if self.strict else self.warn)("%s-THRIFT %s: %s" % ("E" if self.strict else "W", where, p))
        return val, end, toks


def read_file(data, idl=None, strict=True, other_files=None):
    data = bytes(data)
    idl = idl or default_idl()
    view = FileView()
    view.idl = idl
    view.size = len(data)
    ctx = _Ctx(view, idl, strict)
    P = ctx.problem

    if len(data) < 12:
        P("E-MAGIC file of %d bytes is too short to be a Parquet file" % len(data))
        return view
    ok = True
    if data[:4] != MAGIC:
        P("E-MAGIC file starts with %r, not PAR1" % data[:4])
        ok = data[:4] == MAGIC_ENCRYPTED
    if data[-4:] != MAGIC:
        P("E-MAGIC file ends with %r, not PAR1" % data[-4:])
        if data[-4:] == MAGIC_ENCRYPTED:
            P("U-ENCRYPTED encrypted footer")
            return view
    view.footer_len = int.from_bytes(data[-8:-4], "little")
    view.footer_start = len(data) - 8 - view.footer_len
    if view.footer_start < 4:
        P("E-FOOTERLEN footer length %d does not fit in a file of %d bytes" % (view.footer_len, len(data)))
        return view
    res = ctx.thrift(data, view.footer_start, "FileMetaData", "footer")
    if res is None:
        return view
    meta, end, toks = res
    view.meta = meta
    view.footer_tokens = toks
    view.footer_parsed_len = end - view.footer_start
    if view.footer_parsed_len != view.footer_len:
        P("E-FOOTERLEN footer length declared %d, FileMetaData occupies %d bytes" % (
            view.footer_len, view.footer_parsed_len))
    if end > len(data) - 8:
        P("E-FOOTERLEN FileMetaData runs into the trailing length/magic")
    if meta.get("version") not in (1, 2):
        ctx.warn("W-VERSION FileMetaData.version = %r" % (meta.get("version"),))

    schema = meta.get("schema")
    if not isinstance(schema, list) or any(not isinstance(e, dict) for e in schema):
        P("E-SCHEMA schema is not decodable")
        return view
    view.schema_tree, view.schema_leaves = parse_schema(schema, idl, view.problems, view.warnings)
    leaves = view.schema_leaves
    co = meta.get("column_orders")
    if co is not None and len(co) != len(leaves):
        P("E-SCHEMA %d column_orders for %d leaf columns" % (len(co), len(leaves)))

    rgs = meta.get("row_groups")
    if not isinstance(rgs, list):
        P("E-THRIFT row_groups not decodable")
        return view
    total_rows = 0
    ranges = []        # (file key, start, end, label) for overlap check
    for gi, rg in enumerate(rgs):
        rv = RowGroupView()
        rv.meta = rg
        view.row_groups.append(rv)
        if not isinstance(rg, dict):
            P("E-THRIFT row group %d not decodable" % gi)
            continue
        rv.num_rows = rg.get("num_rows")
        if isinstance(rv.num_rows, int):
            total_rows += rv.num_rows
            if rv.num_rows < 0:
                P("E-ROWS row group %d: num_rows %d" % (gi, rv.num_rows))
        cols = rg.get("columns")
        if not isinstance(cols, list):
            P("E-THRIFT row group %d: columns not decodable" % gi)
            continue
        if len(cols) != len(leaves):
            P("E-SCHEMA row group %d has %d column chunks, schema has %d leaves" % (gi, len(cols), len(leaves)))
        for ci, col in enumerate(cols):
            cv = ChunkView()
            cv.column = col
            rv.chunks.append(cv)
            where = "rg %d col %d" % (gi, ci)
            if not isinstance(col, dict):
                P("E-THRIFT %s: not decodable" % where)
                continue
            _read_chunk(ctx, data, other_files, cv, col, leaves, ci, where, rv, ranges)
        _check_row_group(ctx, gi, rv)
    if isinstance(meta.get("num_rows"), int) and meta["num_rows"] != total_rows:
        P("E-ROWS FileMetaData.num_rows = %d, row groups sum to %d" % (meta["num_rows"], total_rows))
    # overlap of chunks
    ranges.sort()
    for a, b in zip(ranges, ranges[1:]):
        if a[0] == b[0] and b[1] < a[2]:
            P("E-TILING chunks overlap: %s [%d,%d) and %s [%d,%d)" % (a[3], a[1], a[2], b[3], b[1], b[2]))
    return view


def _check_row_group(ctx, gi, rv):
    rg = rv.meta
    metas = [c.meta for c in rv.chunks if isinstance(c.meta, dict)]
    if len(metas) == len(rv.chunks) and metas:
        tu = sum(m.get("total_uncompressed_size") or 0 for m in metas)
        tc = sum(m.get("total_compressed_size") or 0 for m in metas)
        if rg.get("total_byte_size") != tu:
            ctx.warn("W-SIZE row group %d: total_byte_size = %r, chunks' total_uncompressed_size sum to %d" % (
                gi, rg.get("total_byte_size"), tu))
        if rg.get("total_compressed_size") is not None and rg["total_compressed_size"] != tc:
            ctx.warn("W-SIZE row group %d: total_compressed_size = %d, chunks sum to %d" % (
                gi, rg["total_compressed_size"], tc))
        starts = [c.start for c in rv.chunks if c.start is not None]
        if rg.get("file_offset") is not None and starts and rg["file_offset"] != starts[0]:
            ctx.warn("W-OFFSET row group %d: file_offset = %d, first chunk starts at %d" % (
                gi, rg["file_offset"], starts[0]))
    if rg.get("ordinal") is not None and rg["ordinal"] != gi:
        ctx.warn("W-ORDINAL row group %d has ordinal %d" % (gi, rg["ordinal"]))


def _read_chunk(ctx, data, other_files, cv, col, leaves, ci, where, rv, ranges):
    P = ctx.problem
    idl = ctx.idl
    md = col.get("meta_data")
    cv.meta = md
    fp = col.get("file_path")
    cv.file_path = fp
    if not isinstance(md, dict):
        if md is None:
            P("U-CHUNKMETA %s: ColumnChunk without inline meta_data" % where)
        return
    path = md.get("path_in_schema")
    if isinstance(path, list):
        cv.path = tuple(compact.as_text(p, "replace") for p in path)
    where = "%s (%s)" % (where, ".".join(cv.path or ("?",)))
    leaf = None
    if ci < len(leaves) and leaves[ci].path == cv.path:
        leaf = leaves[ci]
    else:
        P("E-SCHEMA %s: chunk %d is for path %r, schema leaf %d is %r" % (
            where, ci, cv.path, ci, leaves[ci].path if ci < len(leaves) else None))
        for lf in leaves:
            if lf.path == cv.path:
                leaf = lf
    cv.leaf = leaf
    if leaf is None:
        return
    tname = idl.enum_name("Type", md.get("type"))
    if tname != leaf.physical_type:
        P("E-SCHEMA %s: ColumnMetaData.type %s, schema says %s" % (where, tname, leaf.physical_type))
    for k in ("num_values", "total_compressed_size", "total_uncompressed_size", "data_page_offset"):
        if not isinstance(md.get(k), int):
            return

    # which bytes
    buf = data
    fkey = ""
    foreign = False
    if fp is not None:
        fkey = compact.as_text(fp, "replace")
        foreign = True
        buf = None
        if other_files is not None:
            for k in (fkey, fp):
                if k in other_files:
                    buf = bytes(other_files[k])
        if buf is None:
            cv.skipped = True
    dpo = md["data_page_offset"]
    dict_off = md.get("dictionary_page_offset")
    start = dpo
    if dict_off is not None:
        if dict_off < 4:
            ctx.warn("W-OFFSET %s: dictionary_page_offset = %d is set but cannot be a page position" % (where, dict_off))
            dict_off = None
        elif dict_off >= dpo:
            P("E-OFFSET %s: dictionary_page_offset %d not before data_page_offset %d" % (where, dict_off, dpo))
            dict_off = None
        else:
            start = dict_off
    cv.start = start
    cv.end = start + md["total_compressed_size"]
    if md["total_compressed_size"] < 0 or md["num_values"] < 0:
        P("E-SIZE %s: negative size or count" % where)
        return
    ranges.append((fkey, cv.start, cv.end, where))
    fo = col.get("file_offset")
    if cv.skipped:
        return
    limit = len(buf) - 8
    if not foreign:
        limit = ctx.view.footer_start
    if start < 4 or cv.end > limit:
        P("E-OFFSET %s: chunk bytes [%d,%d) outside the data area [4,%d)" % (where, start, cv.end, limit))
        if start < 4 or start >= limit:
            return
    _walk_pages(ctx, buf, cv, md, leaf, where, dict_off, dpo, min(cv.end, limit), rv)
    # ColumnChunk.file_offset plausibility
    if fo is not None and fo not in (0, cv.start, cv.end):
        okfo = False
        if 4 <= fo < len(buf):
            try:
                v, _e = compact.decode(buf, fo, "ColumnMetaData", idl, strict=True)
                okfo = v == md
            except (FormatError, RecursionError):
                okfo = False
        if not okfo:
            ctx.warn("W-OFFSET %s: ColumnChunk.file_offset = %d is neither 0, the chunk start %d, its end %d, nor a ColumnMetaData copy" % (
                where, fo, cv.start, cv.end))


def _walk_pages(ctx, buf, cv, md, leaf, where, dict_off, dpo, end, rv):
    P = ctx.problem
    W = ctx.warn
    idl = ctx.idl
    codec = idl.enum_name("CompressionCodec", md.get("codec"))
    pos = cv.start
    sum_c = 0
    sum_u = 0
    first_data = None
    legacy_dict = False
    mentioned_level_enc = set()
    complete = True
    walked_ok = True
    used_value_enc = set()
    used_level_enc = set()
    used_dict_enc = set()
    page_stats = []   # (PageType value, Encoding value)
    while pos < end:
        pw = "%s page %d @%d" % (where, len(cv.pages), pos)
        res = ctx.thrift(buf, pos, "PageHeader", pw)
        if res is None:
            walked_ok = False
            complete = False
            break
        hdr, hend, toks = res
        pg = PageView()
        pg.offset = pos
        pg.header = hdr
        pg.header_tokens = toks
        pg.header_len = hend - pos
        pg.kind = idl.enum_name("PageType", hdr.get("type"))
        pg.compressed_size = hdr.get("compressed_page_size")
        pg.uncompressed_size = hdr.get("uncompressed_page_size")
        cv.pages.append(pg)
        if not isinstance(pg.compressed_size, int) or pg.compressed_size < 0 or \
                not isinstance(pg.uncompressed_size, int) or pg.uncompressed_size < 0:
            P("E-SIZE %s: page sizes %r/%r" % (pw, pg.compressed_size, pg.uncompressed_size))
            walked_ok = False
            complete = False
            break
        if hend + pg.compressed_size > end:
            P("E-TILING %s: page of %d+%d bytes runs past the end of the chunk at %d" % (
                pw, pg.header_len, pg.compressed_size, end))
            if hend + pg.compressed_size > len(buf):
                walked_ok = False
                complete = False
                break
        pg.raw = buf[hend:hend + pg.compressed_size]
        sum_c += pg.header_len + pg.compressed_size
        sum_u += pg.header_len + pg.uncompressed_size
        pos = hend + pg.compressed_size
        sub = {"DATA_PAGE": "data_page_header", "DATA_PAGE_V2": "data_page_header_v2",
               "DICTIONARY_PAGE": "dictionary_page_header", "INDEX_PAGE": "index_page_header"}.get(pg.kind)
        present = [k for k in ("data_page_header", "data_page_header_v2", "dictionary_page_header", "index_page_header")
                   if hdr.get(k) is not None]
        if sub is None:
            P("E-THRIFT %s: unknown page type %r" % (pw, hdr.get("type")))
            complete = False
            continue
        if sub not in present and pg.kind != "INDEX_PAGE":
            P("E-THRIFT %s: page type %s without %s" % (pw, pg.kind, sub))
            complete = False
            continue
        if [k for k in present if k != sub]:
            P("E-THRIFT %s: page type %s also carries %s" % (pw, pg.kind, [k for k in present if k != sub]))
        if hdr.get("crc") is not None:
            crc = zlib.crc32(pg.raw) & 0xFFFFFFFF
            if crc != hdr["crc"] & 0xFFFFFFFF:
                P("E-CRC %s: header crc %08x, computed %08x" % (pw, hdr["crc"] & 0xFFFFFFFF, crc))
        sh = hdr.get(sub) or {}
        if pg.kind == "INDEX_PAGE":
            continue
        page_stats.append((hdr.get("type"), sh.get("encoding")))
        pg.encoding = idl.enum_name("Encoding", sh.get("encoding"))
        pg.num_values = sh.get("num_values")
        if not isinstance(pg.num_values, int) or pg.num_values < 0:
            P("E-NUMVALUES %s: num_values %r" % (pw, pg.num_values))
            complete = False
            continue
        if pg.kind == "DICTIONARY_PAGE":
            if len(cv.pages) != 1:
                P("E-DICT %s: dictionary page is not the first page of the chunk" % pw)
            if cv.dictionary is not None:
                P("E-DICT %s: second dictionary page in the chunk" % pw)
            if md.get("dictionary_page_offset") is None:
                P("E-OFFSET %s: chunk has a dictionary page but dictionary_page_offset is not set%s" % (
                    pw, " (data_page_offset points at the dictionary page)" if dpo == pg.offset else ""))
                legacy_dict = dpo == pg.offset
            elif dict_off is not None and pg.offset != dict_off:
                P("E-OFFSET %s: dictionary_page_offset = %d" % (pw, dict_off))
            used_dict_enc.add(pg.encoding)
            ok = _decode_dict_page(ctx, pg, codec, leaf, pw)
            if ok:
                cv.dictionary = pg.values
            else:
                complete = False
            continue
        # data page
        if first_data is None:
            first_data = pg.offset
        if pg.kind == "DATA_PAGE":
            for k in ("definition_level_encoding", "repetition_level_encoding"):
                mentioned_level_enc.add(idl.enum_name("Encoding", sh.get(k)))
        ok = _decode_data_page(ctx, pg, sh, codec, leaf, cv, pw, used_level_enc)
        used_value_enc.add(pg.encoding)
        if not ok:
            complete = False
    cv.complete = complete and walked_ok

    # chunk level checks
    if walked_ok:
        if pos != cv.end:
            P("E-SIZE %s: pages occupy %d bytes (headers included), total_compressed_size = %d" % (
                where, sum_c, md["total_compressed_size"]))
        if sum_u != md["total_uncompressed_size"]:
            P("E-SIZE %s: pages' header+uncompressed sizes sum to %d, total_uncompressed_size = %d" % (
                where, sum_u, md["total_uncompressed_size"]))
    data_pages = [p for p in cv.pages if p.kind in ("DATA_PAGE", "DATA_PAGE_V2")]
    if walked_ok:
        nv = sum(p.num_values or 0 for p in data_pages)
        if nv != md["num_values"]:
            P("E-NUMVALUES %s: data pages hold %d values, ColumnMetaData.num_values = %d" % (where, nv, md["num_values"]))
        if first_data is None:
            if md["num_values"] or rv.num_rows:
                P("E-OFFSET %s: chunk has no data page" % where)
        elif first_data != dpo and not legacy_dict:
            P("E-OFFSET %s: first data page is at %d, data_page_offset = %d" % (where, first_data, dpo))
        if dict_off is not None and (not cv.pages or cv.pages[0].kind != "DICTIONARY_PAGE"):
            P("E-OFFSET %s: dictionary_page_offset = %d but the page there is %s" % (
                where, dict_off, cv.pages[0].kind if cv.pages else None))

    # encodings
    declared = md.get("encodings")
    if isinstance(declared, list):
        dnames = [idl.enum_name("Encoding", e) for e in declared]
        if len(set(declared)) != len(declared):
            W("W-ENCODINGS %s: encodings list has duplicates: %s" % (where, dnames))
        if walked_ok:
            used = {e for e in used_value_enc | used_dict_enc if e}
            missing = sorted(used - set(dnames))
            if missing:
                P("E-ENCODINGS %s: page encodings %s used but not in ColumnMetaData.encodings %s" % (where, missing, dnames))
            lmissing = sorted(used_level_enc - set(dnames) - used)
            if lmissing:
                W("W-ENCODINGS %s: level encodings %s used but not in ColumnMetaData.encodings %s" % (where, lmissing, dnames))
            extra = sorted(set(n for n in dnames if n) - used - used_level_enc - mentioned_level_enc)
            if extra:
                W("W-ENCODINGS %s: ColumnMetaData.encodings lists %s, which no page uses" % (where, extra))
    es = md.get("encoding_stats")
    if isinstance(es, list) and walked_ok:
        want = {}
        for k in page_stats:
            want[k] = want.get(k, 0) + 1
        got = {}
        for e in es:
            if isinstance(e, dict):
                k = (e.get("page_type"), e.get("encoding"))
                got[k] = got.get(k, 0) + (e.get("count") or 0)
        if got != want:
            def show(d):
                return sorted((idl.enum_name("PageType", a), idl.enum_name("Encoding", b), c) for (a, b), c in d.items())
            P("E-ENCODINGS %s: encoding_stats %s, pages are %s" % (where, show(got), show(want)))

    # assemble triples / values
    if complete and walked_ok:
        triples = []
        for p in data_pages:
            it = iter(p.values)
            for r, d in zip(p.rep_levels, p.def_levels):
                triples.append((r, d, next(it) if d == leaf.max_def else None))
        cv.triples = triples
        if leaf.max_rep == 0:
            cv.values = [t[2] for t in triples]
        if triples and triples[0][0] != 0:
            P("E-LEVELS %s: first repetition level of the chunk is %d" % (where, triples[0][0]))
        rows = sum(1 for t in triples if t[0] == 0)
        if isinstance(rv.num_rows, int) and rows != rv.num_rows:
            P("E-ROWS %s: chunk holds %d rows, row group num_rows = %d" % (where, rows, rv.num_rows))
        nulls = sum(1 for t in triples if t[1] < leaf.max_def)
        st = md.get("statistics")
        if isinstance(st, dict):
            _check_stats(ctx, st, leaf, nulls, [t[2] for t in triples if t[1] == leaf.max_def], where + " chunk statistics")


def _decompress(ctx, codec, raw, size, pw):
    try:
        info = {}
        out = decompress(codec, raw, size, info)
        if info.get("lz4_framing") not in (None, "hadoop"):
            ctx.warn("W-CODEC %s: codec LZ4 (5, deprecated) is defined with Hadoop framing, this page is a bare LZ4 %s "
                     "(that is what codec LZ4_RAW (7) is for)" % (pw, info["lz4_framing"]))
        return out
    except UnsupportedCodec:
        ctx.problem("U-CODEC %s: codec %s not supported by this reader" % (pw, codec))
    except FormatError as e:
        ctx.problem("E-CODEC %s: cannot decompress as %s: %s" % (pw, codec, e))
    return None


def _decode_dict_page(ctx, pg, codec, leaf, pw):
    P = ctx.problem
    if pg.encoding not in ("PLAIN", "PLAIN_DICTIONARY"):
        P("E-DICT %s: dictionary page encoding %s" % (pw, pg.encoding))
        return False
    payload = _decompress(ctx, codec, pg.raw, pg.uncompressed_size, pw)
    if payload is None:
        return False
    pg.payload = payload
    pg.actual_uncompressed = len(payload)
    if len(payload) != pg.uncompressed_size:
        P("E-SIZE %s: uncompressed_page_size = %d, payload decompresses to %d bytes" % (
            pw, pg.uncompressed_size, len(payload)))
    try:
        pg.values, used = enc.plain_decode(leaf.physical_type, payload, pg.num_values, leaf.type_length)
    except FormatError as e:
        P("E-VALUES %s: dictionary: %s" % (pw, e))
        return False
    pg.trailing = len(payload) - used
    if pg.trailing:
        ctx.warn("W-TRAILING %s: %d unused bytes after the dictionary values" % (pw, pg.trailing))
    return True


def _decode_data_page(ctx, pg, sh, codec, leaf, cv, pw, used_level_enc):
    P = ctx.problem
    W = ctx.warn
    idl = ctx.idl
    n = pg.num_values
    v2 = pg.kind == "DATA_PAGE_V2"
    raw = pg.raw
    if v2:
        rl = sh.get("repetition_levels_byte_length")
        dl = sh.get("definition_levels_byte_length")
        if not isinstance(rl, int) or not isinstance(dl, int) or rl < 0 or dl < 0 or rl + dl > len(raw):
            P("E-LEVELS %s: level byte lengths %r + %r exceed the page of %d bytes" % (pw, rl, dl, len(raw)))
            return False
        if rl + dl > pg.uncompressed_size:
            P("E-SIZE %s: level byte lengths %d + %d exceed uncompressed_page_size %d" % (pw, rl, dl, pg.uncompressed_size))
            return False
        rep_b, def_b, val_b = raw[:rl], raw[rl:rl + dl], raw[rl + dl:]
        is_c = sh.get("is_compressed")
        if is_c is None:
            is_c = True
        if is_c and codec != "UNCOMPRESSED":
            if len(val_b) == 0 and pg.uncompressed_size - rl - dl == 0:
                W("W-CODEC %s: empty value section stored as zero bytes although is_compressed" % pw)
            else:
                val_b = _decompress(ctx, codec, val_b, pg.uncompressed_size - rl - dl, pw)
                if val_b is None:
                    return False
        pg.actual_uncompressed = rl + dl + len(val_b)
        pg.payload = rep_b + def_b + val_b
        pg.rep_len, pg.def_len = rl, dl
        if leaf.max_rep == 0 and rl:
            P("E-LEVELS %s: %d bytes of repetition levels for a column with max repetition level 0" % (pw, rl))
        if leaf.max_def == 0 and dl:
            P("E-LEVELS %s: %d bytes of definition levels for a column with max definition level 0" % (pw, dl))
        try:
            info = {}
            pg.rep_levels, _u = enc.levels_v2_decode(rep_b, leaf.max_rep, n, lenient=True, info=info)
            pg.level_info["rep"] = info
            info = {}
            pg.def_levels, _u = enc.levels_v2_decode(def_b, leaf.max_def, n, lenient=True, info=info)
            pg.level_info["def"] = info
        except FormatError as e:
            P("E-LEVELS %s: %s" % (pw, e))
            return False
        if leaf.max_rep or leaf.max_def:
            used_level_enc.add("RLE")
    else:
        payload = _decompress(ctx, codec, raw, pg.uncompressed_size, pw)
        if payload is None:
            return False
        pg.actual_uncompressed = len(payload)
        pg.payload = payload
        pos = 0
        levels = []
        for which, mx, key in (("rep", leaf.max_rep, "repetition_level_encoding"),
                               ("def", leaf.max_def, "definition_level_encoding")):
            ename = idl.enum_name("Encoding", sh.get(key))
            info = {}
            try:
                if mx == 0:
                    lv, used = [0] * n, 0
                elif ename == "RLE":
                    lv, used = enc.levels_v1_decode(payload[pos:], mx, n, lenient=True, info=info)
                    used_level_enc.add("RLE")
                elif ename == "BIT_PACKED":
                    lv, used = enc.bitpack_msb_decode(payload[pos:], enc.level_width(mx), n)
                    used_level_enc.add("BIT_PACKED")
                else:
                    P("E-LEVELS %s: %s levels with encoding %s" % (pw, which, ename))
                    return False
            except FormatError as e:
                P("E-LEVELS %s: %s levels: %s" % (pw, which, e))
                return False
            pg.level_info[which] = info
            levels.append(lv)
            if which == "rep":
                pg.rep_len = used
            else:
                pg.def_len = used
            pos += used
        pg.rep_levels, pg.def_levels = levels
        val_b = payload[pos:]
    if pg.actual_uncompressed != pg.uncompressed_size:
        P("E-SIZE %s: uncompressed_page_size = %d, page decompresses to %d bytes" % (
            pw, pg.uncompressed_size, pg.actual_uncompressed))
    for which in ("rep", "def"):
        info = pg.level_info.get(which) or {}
        if info.get("truncated"):
            W("W-LEVELS %s: last bit-packed run of the %s levels is cut short (not padded to 8 values)" % (pw, which))
        if info.get("unused"):
            W("W-LEVELS %s: %d unused bytes after the %s levels" % (pw, info["unused"], which))
    bad = [d for d in pg.def_levels if d > leaf.max_def]
    if bad:
        P("E-LEVELS %s: definition level %d exceeds the maximum %d" % (pw, max(bad), leaf.max_def))
        return False
    bad = [r for r in pg.rep_levels if r > leaf.max_rep]
    if bad:
        P("E-LEVELS %s: repetition level %d exceeds the maximum %d" % (pw, max(bad), leaf.max_rep))
        return False
    nonnull = sum(1 for d in pg.def_levels if d == leaf.max_def)
    pg.num_nulls = n - nonnull
    rows = sum(1 for r in pg.rep_levels if r == 0)
    if v2:
        pg.num_rows = sh.get("num_rows")
        if sh.get("num_nulls") != pg.num_nulls:
            P("E-NULLCOUNT %s: v2 header num_nulls = %r, definition levels give %d" % (pw, sh.get("num_nulls"), pg.num_nulls))
        if n and pg.rep_levels[0] != 0:
            P("E-ROWS %s: v2 page does not start on a row boundary (first repetition level %d)" % (pw, pg.rep_levels[0]))
        if pg.num_rows != rows:
            P("E-ROWS %s: v2 header num_rows = %r, repetition levels give %d" % (pw, pg.num_rows, rows))
    else:
        pg.num_rows = rows

    # values
    t = leaf.physical_type
    e = pg.encoding
    vals = None
    used = 0
    try:
        if e == "PLAIN":
            vals, used = enc.plain_decode(t, val_b, nonnull, leaf.type_length)
        elif e in ("PLAIN_DICTIONARY", "RLE_DICTIONARY"):
            if cv.dictionary is None:
                P("E-DICT %s: %s page but the chunk has no (decodable) dictionary page before it" % (pw, e))
                return False
            if len(val_b) == 0 and nonnull == 0:
                W("W-DICT %s: dictionary encoded page with no values omits the bit width byte" % pw)
                vals, used = [], 0
            else:
                if len(val_b) < 1:
                    raise FormatError("missing bit width byte")
                width = val_b[0]
                pg.index_width = width
                if width > 32:
                    raise FormatError("dictionary index bit width %d > 32" % width)
                info = {}
                idx, used = enc.hybrid_decode(val_b[1:], width, nonnull, lenient=True, info=info)
                pg.value_info = info
                if info.get("truncated"):
                    W("W-VALUES %s: last bit-packed run of the dictionary indices is cut short" % pw)
                used += 1
                pg.indices = idx
                nd = len(cv.dictionary)
                bad = [i for i in idx if i >= nd]
                if bad:
                    P("E-DICT %s: dictionary index %d, dictionary has %d entries" % (pw, max(bad), nd))
                    return False
                vals = [cv.dictionary[i] for i in idx]
        elif e == "RLE" and t == "BOOLEAN":
            if len(val_b) < 4:
                if nonnull == 0 and len(val_b) == 0:
                    vals, used = [], 0
                else:
                    raise FormatError("RLE boolean data without length prefix")
            else:
                ln = int.from_bytes(val_b[:4], "little")
                if 4 + ln > len(val_b):
                    raise FormatError("RLE boolean data: declared length %d exceeds the %d bytes left" % (ln, len(val_b) - 4))
                info = {}
                bits, u = enc.hybrid_decode(val_b[4:4 + ln], 1, nonnull, lenient=True, info=info)
                pg.value_info = info
                vals = [bool(b) for b in bits]
                used = 4 + ln
                if u != ln:
                    W("W-VALUES %s: %d unused bytes inside the RLE boolean data" % (pw, ln - u))
        elif e == "DELTA_BINARY_PACKED" and t in ("INT32", "INT64"):
            info = {}
            vals, used = enc.delta_decode(val_b, 32 if t == "INT32" else 64, info=info)
            pg.value_info = info
            if len(vals) != nonnull:
                P("E-NUMVALUES %s: DELTA_BINARY_PACKED block holds %d values, levels call for %d" % (pw, len(vals), nonnull))
                return False
        elif e == "DELTA_LENGTH_BYTE_ARRAY" and t == "BYTE_ARRAY":
            vals, used = enc.delta_length_decode(val_b)
        elif e == "DELTA_BYTE_ARRAY" and t in ("BYTE_ARRAY", "FIXED_LEN_BYTE_ARRAY"):
            vals, used = enc.delta_bytearray_decode(val_b)
        elif e == "BYTE_STREAM_SPLIT" and t in ("FLOAT", "DOUBLE", "INT32", "INT64", "FIXED_LEN_BYTE_ARRAY"):
            vals, used = enc.byte_stream_split_decode(t, val_b, nonnull, leaf.type_length)
        else:
            P("U-ENCODING %s: unsupported encoding %s for %s" % (pw, e, t))
            return False
    except FormatError as ex:
        P("E-VALUES %s: %s values: %s" % (pw, e, ex))
        return False
    if len(vals) != nonnull:
        P("E-NUMVALUES %s: %d values decoded, definition levels call for %d" % (pw, len(vals), nonnull))
        return False
    pg.values = vals
    pg.trailing = len(val_b) - used
    if pg.trailing:
        W("W-TRAILING %s: %d unused bytes after the %s values" % (pw, pg.trailing, e))
    st = sh.get("statistics")
    if isinstance(st, dict):
        _check_stats(ctx, st, leaf, pg.num_nulls, vals, pw + " statistics")
    return True


def _check_stats(ctx, st, leaf, nulls, values, where):
    P = ctx.problem
    W = ctx.warn
    nc = st.get("null_count")
    if nc is not None and nc != nulls:
        if leaf.max_rep:
            W("W-NULLCOUNT %s: null_count = %d, %d level entries are below the maximum definition level" % (where, nc, nulls))
        else:
            P("E-NULLCOUNT %s: null_count = %d, counted %d nulls" % (where, nc, nulls))
    dc = st.get("distinct_count")
    if dc is not None and values is not None:
        try:
            actual = len(set(values))
            if dc != actual and not any(isinstance(v, float) and v != v for v in values):
                W("W-STATS %s: distinct_count = %d, counted %d" % (where, dc, actual))
        except TypeError:
            pass
    for deprecated, kmin, kmax in ((False, "min_value", "max_value"), (True, "min", "max")):
        rmin, rmax = st.get(kmin), st.get(kmax)
        if rmin is None and rmax is None:
            continue
        keys = _stat_keys(leaf, deprecated)
        if not keys:
            W("W-STATS %s: %s/%s given for a column whose order is undefined" % (where, kmin, kmax))
            continue
        t = leaf.physical_type
        vals = [v for v in values if not (isinstance(v, float) and v != v)]
        if not vals:
            if values:
                continue        # all NaN
            W("W-STATS %s: %s/%s given although there are no non-null values" % (where, kmin, kmax))
            continue
        okany = False
        tight = False
        msgs = []
        for key in keys:
            unsigned = False
            if t in ("INT32", "INT64") and leaf.is_unsigned():
                unsigned = key(-1) > 0
            try:
                smin = _stat_decode(leaf, rmin, unsigned) if rmin is not None else None
                smax = _stat_decode(leaf, rmax, unsigned) if rmax is not None else None
            except FormatError as e:
                msgs.append(str(e))
                continue
            if any(isinstance(s, float) and s != s for s in (smin, smax)):
                W("W-STATS %s: NaN in %s/%s" % (where, kmin, kmax))
                okany = True
                tight = True
                continue
            kv = [key(v) for v in vals]
            amin, amax = min(kv), max(kv)
            good = True
            if smin is not None and key(smin) > amin:
                good = False
                msgs.append("%s = %r is above the smallest value %r" % (kmin, smin, vals[kv.index(amin)]))
            if smax is not None and key(smax) < amax:
                good = False
                msgs.append("%s = %r is below the largest value %r" % (kmax, smax, vals[kv.index(amax)]))
            if good:
                okany = True
                if (smin is None or key(smin) == amin) and (smax is None or key(smax) == amax):
                    tight = True
        if not okany:
            P("E-STATS %s: %s" % (where, "; ".join(msgs)))
        elif not tight:
            W("W-STATS %s: %s/%s are bounds but not the exact extremes" % (where, kmin, kmax))
