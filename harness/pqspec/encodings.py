"""Parquet value and level encodings, written from Encodings.md. Encoders AND decoders.

Everything works on Python ints and bytes, so all bit widths are exact.
"""
import struct as _struct

from . import FormatError
from .compact import varint_encode, varint_decode, zigzag, unzigzag

PHYSICAL_TYPES = ("BOOLEAN", "INT32", "INT64", "INT96", "FLOAT", "DOUBLE", "BYTE_ARRAY",
                  "FIXED_LEN_BYTE_ARRAY")


def _wrap_signed(v, bits):
    v &= (1 << bits) - 1
    return v - (1 << bits) if v >> (bits - 1) else v


# ---------------------------------------------------------------------------------------------
# PLAIN


def plain_encode(ptype, values, type_length=None):
    out = bytearray()
    if ptype == "BOOLEAN":
        acc = 0
        for i, v in enumerate(values):
            if v:
                acc |= 1 << i
        n = len(values)
        return acc.to_bytes((n + 7) // 8, "little")
    if ptype == "INT32":
        for v in values:
            if not -(1 << 31) <= v < (1 << 31):
                raise ValueError("INT32 out of range: %r" % (v,))
            out += int(v).to_bytes(4, "little", signed=True)
    elif ptype == "INT64":
        for v in values:
            if not -(1 << 63) <= v < (1 << 63):
                raise ValueError("INT64 out of range: %r" % (v,))
            out += int(v).to_bytes(8, "little", signed=True)
    elif ptype == "INT96":
        for v in values:
            if isinstance(v, int):
                v = v.to_bytes(12, "little", signed=True)
            if len(v) != 12:
                raise ValueError("INT96 value must be 12 bytes")
            out += v
    elif ptype == "FLOAT":
        for v in values:
            out += _struct.pack("<f", v)
    elif ptype == "DOUBLE":
        for v in values:
            out += _struct.pack("<d", v)
    elif ptype == "BYTE_ARRAY":
        for v in values:
            if isinstance(v, str):
                v = v.encode("utf-8")
            out += len(v).to_bytes(4, "little")
            out += v
    elif ptype == "FIXED_LEN_BYTE_ARRAY":
        if type_length is None:
            raise ValueError("FIXED_LEN_BYTE_ARRAY needs type_length")
        for v in values:
            if len(v) != type_length:
                raise ValueError("FIXED_LEN_BYTE_ARRAY value of length %d, expected %d" % (len(v), type_length))
            out += v
    else:
        raise ValueError("unknown physical type %r" % (ptype,))
    return bytes(out)


def plain_decode(ptype, buf, n, type_length=None):
    """-> (list of n values, bytes consumed)"""
    buf = bytes(buf)
    if n < 0:
        raise FormatError("negative value count")
    if ptype == "BOOLEAN":
        nb = (n + 7) // 8
        if len(buf) < nb:
            raise FormatError("PLAIN BOOLEAN: need %d bytes for %d values, have %d" % (nb, n, len(buf)))
        acc = int.from_bytes(buf[:nb], "little")
        return [bool((acc >> i) & 1) for i in range(n)], nb
    fixed = {"INT32": 4, "INT64": 8, "INT96": 12, "FLOAT": 4, "DOUBLE": 8}.get(ptype)
    if ptype == "FIXED_LEN_BYTE_ARRAY":
        if type_length is None or type_length < 0:
            raise FormatError("FIXED_LEN_BYTE_ARRAY without type_length")
        fixed = type_length
    if fixed is not None:
        nb = n * fixed
        if len(buf) < nb:
            raise FormatError("PLAIN %s: need %d bytes for %d values, have %d" % (ptype, nb, n, len(buf)))
        if ptype == "INT32":
            return list(_struct.unpack_from("<%di" % n, buf, 0)), nb
        if ptype == "INT64":
            return list(_struct.unpack_from("<%dq" % n, buf, 0)), nb
        if ptype == "FLOAT":
            return list(_struct.unpack_from("<%df" % n, buf, 0)), nb
        if ptype == "DOUBLE":
            return list(_struct.unpack_from("<%dd" % n, buf, 0)), nb
        return [buf[i * fixed:(i + 1) * fixed] for i in range(n)], nb
    if ptype == "BYTE_ARRAY":
        pos = 0
        out = []
        for i in range(n):
            if pos + 4 > len(buf):
                raise FormatError("PLAIN BYTE_ARRAY: truncated length of value %d" % i)
            ln = int.from_bytes(buf[pos:pos + 4], "little")
            pos += 4
            if ln >= 1 << 31 or pos + ln > len(buf):
                raise FormatError("PLAIN BYTE_ARRAY: value %d of length %d exceeds page" % (i, ln))
            out.append(buf[pos:pos + ln])
            pos += ln
        return out, pos
    raise FormatError("unknown physical type %r" % (ptype,))


# ---------------------------------------------------------------------------------------------
# bit packing, LSB first (the packing used by the RLE hybrid and by DELTA_BINARY_PACKED)


def bitpack_encode(values, width):
    """Pack values at `width` bits each, least significant bit first; the value list is padded with
    zeros to a multiple of 8 so the result is a whole number of bytes (= groups * width)."""
    values = list(values)
    pad = (-len(values)) % 8
    values += [0] * pad
    acc = 0
    mask = (1 << width) - 1
    for i, v in enumerate(values):
        if v < 0 or v > mask:
            raise ValueError("value %r does not fit in %d bits" % (v, width))
        acc |= v << (i * width)
    return acc.to_bytes(len(values) * width // 8, "little")


def bitpack_decode(buf, width, count):
    """Unpack `count` values of `width` bits, LSB first, from the start of buf."""
    need = (count * width + 7) // 8
    if len(buf) < need:
        raise FormatError("bit-packed data: need %d bytes for %d values of width %d, have %d" % (
            need, count, width, len(buf)))
    acc = int.from_bytes(bytes(buf[:need]), "little")
    mask = (1 << width) - 1
    return [(acc >> (i * width)) & mask for i in range(count)]


def bitpack_msb_encode(values, width):
    """Deprecated BIT_PACKED level encoding: values packed back to back, most significant bit first."""
    acc = 0
    for v in values:
        if v < 0 or v >> width:
            raise ValueError("value %r does not fit in %d bits" % (v, width))
        acc = (acc << width) | v
    nbits = len(values) * width
    nb = (nbits + 7) // 8
    acc <<= nb * 8 - nbits
    return acc.to_bytes(nb, "big")


def bitpack_msb_decode(buf, width, count):
    nb = (count * width + 7) // 8
    if len(buf) < nb:
        raise FormatError("BIT_PACKED: need %d bytes, have %d" % (nb, len(buf)))
    acc = int.from_bytes(bytes(buf[:nb]), "big")
    total = nb * 8
    mask = (1 << width) - 1
    return [(acc >> (total - (i + 1) * width)) & mask for i in range(count)], nb


# ---------------------------------------------------------------------------------------------
# RLE / bit-packed hybrid
#
#   run             := bit-packed-run | rle-run
#   bit-packed-run  := varint((groups << 1) | 1)  groups*width bytes      (groups of 8 values)
#   rle-run         := varint(count << 1)  value in ceil(width/8) bytes, little endian


def hybrid_encode(runs, width):
    """runs: list of ("rle", value, count) and ("bp", [values...]). No length prefix."""
    out = bytearray()
    vbytes = (width + 7) // 8
    for run in runs:
        if run[0] == "rle":
            _k, value, count = run
            if count < 0:
                raise ValueError("negative run length")
            if value < 0 or value >> width:
                raise ValueError("value %r does not fit in %d bits" % (value, width))
            out += varint_encode(count << 1)
            out += int(value).to_bytes(vbytes, "little")
        elif run[0] == "bp":
            vals = list(run[1])
            vals += [0] * ((-len(vals)) % 8)
            groups = len(vals) // 8
            out += varint_encode((groups << 1) | 1)
            out += bitpack_encode(vals, width)
        else:
            raise ValueError("unknown run kind %r" % (run[0],))
    return bytes(out)


def hybrid_decode(buf, width, count, lenient=False, info=None):
    """Decode `count` values -> (values, bytes consumed). Stops inside the run that supplies the
    last value (that run is consumed entirely, its surplus values dropped).

    lenient: accept a final bit-packed run whose bytes are cut short at the end of the buffer as
    long as the bits for the wanted values are present (some writers do not pad the last group).
    info: optional dict, receives 'runs' (list of (kind, count)) and 'truncated' (bool).
    """
    if width < 0 or width > 64:
        raise FormatError("hybrid: bit width %d" % width)
    buf = bytes(buf)
    pos = 0
    out = []
    runs = []
    vbytes = (width + 7) // 8
    truncated = False
    while len(out) < count:
        if pos >= len(buf):
            raise FormatError("hybrid: data exhausted after %d of %d values" % (len(out), count))
        header, pos = varint_decode(buf, pos)
        if header & 1:
            groups = header >> 1
            nvals = groups * 8
            nbytes = groups * width
            want = min(nvals, count - len(out))
            if pos + nbytes > len(buf):
                need = (want * width + 7) // 8
                if lenient and pos + need <= len(buf):
                    truncated = True
                    nbytes = len(buf) - pos
                else:
                    raise FormatError("hybrid: bit-packed run of %d groups needs %d bytes, %d left" % (
                        groups, nbytes, len(buf) - pos))
            out += bitpack_decode(buf[pos:pos + nbytes], width, want)
            pos += nbytes
            runs.append(("bp", nvals))
        else:
            n = header >> 1
            if pos + vbytes > len(buf):
                raise FormatError("hybrid: truncated RLE value")
            value = int.from_bytes(buf[pos:pos + vbytes], "little")
            pos += vbytes
            if value >> width:
                raise FormatError("hybrid: RLE value %d does not fit in %d bits" % (value, width))
            want = min(n, count - len(out))
            out += [value] * want
            runs.append(("rle", n))
    if info is not None:
        info["runs"] = runs
        info["truncated"] = truncated
    return out, pos


def hybrid_auto(values, width, min_repeat=8):
    """A reasonable run structure: repeats of >= min_repeat become RLE runs, the rest is bit packed."""
    values = list(values)
    runs = []
    pend = []            # pending bit-packed values
    i = 0
    n = len(values)
    while i < n:
        j = i
        while j < n and values[j] == values[i]:
            j += 1
        r = j - i
        if r >= min_repeat:
            fill = (-len(pend)) % 8
            if pend and r - fill >= min_repeat:
                pend += [values[i]] * fill
                r -= fill
            elif pend:
                pend += [values[i]] * r
                r = 0
            if r:
                if pend:
                    runs.append(("bp", pend))
                    pend = []
                runs.append(("rle", values[i], r))
        else:
            pend += values[i:j]
        i = j
    if pend:
        runs.append(("bp", pend))
    return runs


def apply_runs(values, run_structure):
    """Turn a run structure -- list of ("rle", count) / ("bp", groups_of_8), consumed left to right
    over `values` -- into hybrid_encode runs. A bit-packed run reaching past the end is zero padded;
    an RLE run must cover equal values (its count may overshoot the end). Whatever the structure leaves uncovered is an error."""
    values = list(values)
    pos = 0
    out = []
    for kind, k in run_structure:
        if kind == "rle":
            seg = values[pos:pos + k]
            if not seg:
                raise ValueError("RLE run starts past the end of the values")
            if any(v != seg[0] for v in seg):
                raise ValueError("RLE run over unequal values at %d" % pos)
            out.append(("rle", seg[0], k))      # k may overshoot: readers stop at the value count
            pos += k
        elif kind == "bp":
            seg = values[pos:pos + 8 * k]
            seg += [0] * (8 * k - len(seg))
            out.append(("bp", seg))
            pos += 8 * k
        else:
            raise ValueError("unknown run kind %r" % (kind,))
    if pos < len(values):
        raise ValueError("run structure covers %d of %d values" % (pos, len(values)))
    return out


# ---------------------------------------------------------------------------------------------
# levels


def level_width(max_level):
    return int(max_level).bit_length()


def _level_runs(levels, max_level, runs):
    for lv in levels:
        if lv < 0 or lv > max_level:
            raise ValueError("level %r outside 0..%d" % (lv, max_level))
    w = level_width(max_level)
    return apply_runs(levels, runs) if runs is not None else hybrid_auto(levels, w)


def levels_v2_encode(levels, max_level, runs=None):
    """Data page v2: plain hybrid, no length prefix (the length is in the page header)."""
    if max_level == 0:
        return b""
    return hybrid_encode(_level_runs(levels, max_level, runs), level_width(max_level))


def levels_v1_encode(levels, max_level, runs=None):
    """Data page v1, RLE level encoding: 4 byte little endian length, then the hybrid runs.
    Nothing at all is written when max_level is 0."""
    if max_level == 0:
        return b""
    body = levels_v2_encode(levels, max_level, runs)
    return len(body).to_bytes(4, "little") + body


def levels_v1_decode(buf, max_level, count, lenient=False, info=None):
    """-> (levels, bytes consumed including the 4 byte prefix)"""
    if max_level == 0:
        return [0] * count, 0
    if len(buf) < 4:
        raise FormatError("levels: truncated length prefix")
    ln = int.from_bytes(bytes(buf[:4]), "little")
    if 4 + ln > len(buf):
        raise FormatError("levels: declared length %d exceeds the %d bytes available" % (ln, len(buf) - 4))
    vals, used = hybrid_decode(bytes(buf[4:4 + ln]), level_width(max_level), count, lenient=lenient, info=info)
    if info is not None:
        info["unused"] = ln - used
    return vals, 4 + ln


def levels_v2_decode(buf, max_level, count, lenient=False, info=None):
    if max_level == 0:
        return [0] * count, 0
    vals, used = hybrid_decode(bytes(buf), level_width(max_level), count, lenient=lenient, info=info)
    if info is not None:
        info["unused"] = len(buf) - used
    return vals, used


# ---------------------------------------------------------------------------------------------
# DELTA_BINARY_PACKED
#
#   header := varint(block size) varint(miniblocks per block) varint(total count) zigzag-varint(first value)
#   block  := zigzag-varint(min delta) byte[miniblocks] widths, then the miniblocks
#   All arithmetic wraps modulo 2^bits (bits = 32 for INT32, 64 for INT64).


def delta_encode(values, block_size=128, miniblocks=4, bits=64, force_widths=None, pad_widths=0,
                 write_unused=False):
    """force_widths: minimum bit width used for every (needed) miniblock.
    pad_widths: width byte written for miniblocks that are not needed (the spec says 0, readers must
    accept anything). write_unused: also emit (zero) data for those unneeded miniblocks -- NOT valid,
    for negative tests only."""
    values = [int(v) for v in values]
    if miniblocks <= 0 or block_size <= 0 or block_size % miniblocks:
        raise ValueError("block size must be a positive multiple of the miniblock count")
    per = block_size // miniblocks
    if per % 8:
        raise ValueError("values per miniblock must be a multiple of 8")
    mod = 1 << bits
    for v in values:
        if not -(mod >> 1) <= v < (mod >> 1):
            raise ValueError("value %r outside %d bit range" % (v, bits))
    out = bytearray()
    out += varint_encode(block_size)
    out += varint_encode(miniblocks)
    out += varint_encode(len(values))
    out += varint_encode(zigzag(values[0] if values else 0))
    deltas = [_wrap_signed(values[i] - values[i - 1], bits) for i in range(1, len(values))]
    for b in range(0, len(deltas), block_size):
        blk = deltas[b:b + block_size]
        mind = min(blk)
        rel = [(d - mind) & (mod - 1) for d in blk]
        out += varint_encode(zigzag(mind))
        widths = []
        datas = []
        for m in range(miniblocks):
            mb = rel[m * per:(m + 1) * per]
            if not mb:
                widths.append(pad_widths)
                if write_unused:
                    datas.append(bytes(per * pad_widths // 8))
                continue
            w = max(v.bit_length() for v in mb)
            if force_widths is not None:
                w = max(w, force_widths)
            mb = mb + [0] * (per - len(mb))
            widths.append(w)
            datas.append(bitpack_encode(mb, w))
        out += bytes(widths)
        for d in datas:
            out += d
    return bytes(out)


def delta_decode(buf, bits=64, info=None):
    """-> (values as signed ints of `bits` bits, bytes consumed)"""
    buf = bytes(buf)
    pos = 0
    block_size, pos = varint_decode(buf, pos)
    miniblocks, pos = varint_decode(buf, pos)
    total, pos = varint_decode(buf, pos)
    first, pos = varint_decode(buf, pos)
    first = unzigzag(first)
    per = 0
    if total > 1:
        if miniblocks == 0 or block_size == 0 or block_size % miniblocks:
            raise FormatError("delta: block size %d, %d miniblocks" % (block_size, miniblocks))
        per = block_size // miniblocks
        if per % 8:
            raise FormatError("delta: %d values per miniblock, not a multiple of 8" % per)
    mask = (1 << bits) - 1
    if info is not None:
        info.update(block_size=block_size, miniblocks=miniblocks, total=total, first=first, widths=[])
    out = []
    if total == 0:
        return out, pos
    cur = first
    out.append(_wrap_signed(cur, bits))
    while len(out) < total:
        mind, pos = varint_decode(buf, pos)
        mind = unzigzag(mind)
        if pos + miniblocks > len(buf):
            raise FormatError("delta: truncated miniblock widths")
        widths = buf[pos:pos + miniblocks]
        pos += miniblocks
        if info is not None:
            info["widths"].append(list(widths))
        for w in widths:
            if len(out) >= total:
                break          # unneeded miniblocks: width bytes present, no data
            if w > 64:
                raise FormatError("delta: miniblock bit width %d" % w)
            nb = per * w // 8
            if pos + nb > len(buf):
                raise FormatError("delta: truncated miniblock (width %d, need %d bytes, have %d)" % (
                    w, nb, len(buf) - pos))
            want = min(per, total - len(out))
            rel = bitpack_decode(buf[pos:pos + nb], w, want)
            pos += nb
            for r in rel:
                cur = (cur + mind + r) & mask
                out.append(_wrap_signed(cur, bits))
    return out, pos


# ---------------------------------------------------------------------------------------------
# DELTA_LENGTH_BYTE_ARRAY, DELTA_BYTE_ARRAY, BYTE_STREAM_SPLIT (decode + encode, simple forms)


def delta_length_encode(values, **kw):
    values = [v.encode("utf-8") if isinstance(v, str) else bytes(v) for v in values]
    return delta_encode([len(v) for v in values], bits=32, **kw) + b"".join(values)


def delta_length_decode(buf, n=None):
    lens, pos = delta_decode(buf, bits=32)
    out = []
    for ln in lens:
        if ln < 0 or pos + ln > len(buf):
            raise FormatError("DELTA_LENGTH_BYTE_ARRAY: length %d exceeds data" % ln)
        out.append(bytes(buf[pos:pos + ln]))
        pos += ln
    return out, pos


def delta_bytearray_encode(values, **kw):
    values = [v.encode("utf-8") if isinstance(v, str) else bytes(v) for v in values]
    prefixes = []
    suffixes = []
    prev = b""
    for v in values:
        k = 0
        while k < len(prev) and k < len(v) and prev[k] == v[k]:
            k += 1
        prefixes.append(k)
        suffixes.append(v[k:])
        prev = v
    return delta_encode(prefixes, bits=32, **kw) + delta_length_encode(suffixes, **kw)


def delta_bytearray_decode(buf, n=None):
    prefixes, pos = delta_decode(buf, bits=32)
    suffixes, used = delta_length_decode(buf[pos:])
    pos += used
    if len(prefixes) != len(suffixes):
        raise FormatError("DELTA_BYTE_ARRAY: %d prefixes, %d suffixes" % (len(prefixes), len(suffixes)))
    out = []
    prev = b""
    for p, s in zip(prefixes, suffixes):
        if p < 0 or p > len(prev):
            raise FormatError("DELTA_BYTE_ARRAY: prefix length %d of previous value of length %d" % (p, len(prev)))
        prev = prev[:p] + s
        out.append(prev)
    return out, pos


def byte_stream_split_encode(ptype, values, type_length=None):
    raw = plain_encode(ptype, values, type_length)
    n = len(values)
    if n == 0:
        return b""
    k = len(raw) // n
    return b"".join(raw[j::k] for j in range(k))


def byte_stream_split_decode(ptype, buf, n, type_length=None):
    k = {"FLOAT": 4, "DOUBLE": 8, "INT32": 4, "INT64": 8, "FIXED_LEN_BYTE_ARRAY": type_length}.get(ptype)
    if k is None:
        raise FormatError("BYTE_STREAM_SPLIT not defined for %s" % ptype)
    if len(buf) < n * k:
        raise FormatError("BYTE_STREAM_SPLIT: need %d bytes, have %d" % (n * k, len(buf)))
    raw = bytearray(n * k)
    for j in range(k):
        raw[j::k] = buf[j * n:(j + 1) * n]
    return plain_decode(ptype, bytes(raw), n, type_length)[0], n * k
