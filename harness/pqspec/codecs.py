"""Page compression codecs (Compression.md), on top of cramjam and zlib."""
import zlib

import cramjam

from . import FormatError

CODECS = ("UNCOMPRESSED", "SNAPPY", "GZIP", "LZO", "BROTLI", "LZ4", "ZSTD", "LZ4_RAW")


class UnsupportedCodec(Exception):
    pass


def compress(codec, data):
    data = bytes(data)
    if codec == "UNCOMPRESSED":
        return data
    if codec == "SNAPPY":
        return bytes(cramjam.snappy.compress_raw(data))
    if codec == "GZIP":
        c = zlib.compressobj(6, zlib.DEFLATED, 31)
        return c.compress(data) + c.flush()
    if codec == "ZSTD":
        return bytes(cramjam.zstd.compress(data))
    if codec == "LZ4_RAW":
        return bytes(cramjam.lz4.compress_block(data, store_size=False))
    if codec == "LZ4":
        # deprecated Hadoop framing: BE32 uncompressed size, BE32 compressed size, raw block
        blk = bytes(cramjam.lz4.compress_block(data, store_size=False))
        return len(data).to_bytes(4, "big") + len(blk).to_bytes(4, "big") + blk
    if codec == "BROTLI":
        return bytes(cramjam.brotli.compress(data))
    raise UnsupportedCodec(codec)


def _hadoop_lz4(data, size):
    out = bytearray()
    pos = 0
    while pos < len(data):
        if pos + 8 > len(data):
            raise FormatError("LZ4 hadoop frame: truncated header")
        total = int.from_bytes(data[pos:pos + 4], "big")
        pos += 4
        got = 0
        while got < total:
            if pos + 4 > len(data):
                raise FormatError("LZ4 hadoop frame: truncated block header")
            clen = int.from_bytes(data[pos:pos + 4], "big")
            pos += 4
            if pos + clen > len(data):
                raise FormatError("LZ4 hadoop frame: truncated block")
            blk = bytes(cramjam.lz4.decompress_block(data[pos:pos + clen], output_len=total - got))
            pos += clen
            got += len(blk)
            out += blk
            if not blk:
                break
    if size is not None and len(out) != size:
        raise FormatError("LZ4 hadoop frame: %d bytes, expected %d" % (len(out), size))
    return bytes(out)


def decompress(codec, data, size=None, info=None):
    """size: the expected uncompressed size (needed by LZ4_RAW). Raises FormatError when the data
    cannot be decompressed with that codec. info: optional dict; for the deprecated LZ4 codec it
    receives 'lz4_framing': 'hadoop' (what Compression.md defines), 'block' or 'frame'."""
    data = bytes(data)
    if codec == "UNCOMPRESSED":
        return data
    if codec == "LZO":
        raise UnsupportedCodec(codec)
    try:
        if codec == "SNAPPY":
            return bytes(cramjam.snappy.decompress_raw(data))
        if codec == "GZIP":
            out = bytearray()
            rest = data
            while rest:
                d = zlib.decompressobj(47)
                out += d.decompress(rest)
                out += d.flush()
                if not d.eof:
                    raise FormatError("GZIP: truncated stream")
                rest = d.unused_data
            return bytes(out)
        if codec == "ZSTD":
            return bytes(cramjam.zstd.decompress(data))
        if codec == "BROTLI":
            return bytes(cramjam.brotli.decompress(data))
        if codec == "LZ4_RAW":
            if size is None:
                raise FormatError("LZ4_RAW needs the uncompressed size")
            if size == 0 and not data:
                return b""
            return bytes(cramjam.lz4.decompress_block(data, output_len=size))
        if codec == "LZ4":
            errs = []
            for attempt in ("hadoop", "block", "frame"):
                try:
                    if attempt == "hadoop":
                        out = _hadoop_lz4(data, size)
                    elif attempt == "block":
                        out = bytes(cramjam.lz4.decompress_block(data, output_len=size))
                        if size is not None and len(out) != size:
                            raise FormatError("size mismatch")
                    else:
                        out = bytes(cramjam.lz4.decompress(data))
                    if info is not None:
                        info["lz4_framing"] = attempt
                    return out
                except Exception as e:      # noqa: BLE001 - try the next framing
                    errs.append("%s: %s" % (attempt, e))
            raise FormatError("LZ4: " + "; ".join(errs))
    except FormatError:
        raise
    except Exception as e:                  # noqa: BLE001 - cramjam/zlib error types vary
        raise FormatError("%s: %s" % (codec, e))
    raise UnsupportedCodec(codec)
