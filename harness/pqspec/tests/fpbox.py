"""fastparquet as a black box, in a subprocess: a segfault in the library must not take the tests down.

read_many(paths) -> {path: result}, result one of
    {"columns": {name: [values, None for NA/NaN]}}    read worked
    {"error": "ExcType: message"}                      fastparquet raised
    {"crash": returncode}                              the interpreter died (e.g. -11 = SIGSEGV)
One worker process handles the whole list; if it dies, the file it was on is marked crashed and a new
worker takes the rest.
"""
import math
import os
import pickle
import subprocess
import sys


def _norm(x):
    import numpy as np
    import pandas as pd
    if x is None or x is pd.NA or x is pd.NaT:
        return None
    if isinstance(x, float) and math.isnan(x):
        return None
    if isinstance(x, np.generic):
        x = x.item()
        return _norm(x)
    if isinstance(x, (list, tuple, np.ndarray)):
        return [_norm(y) for y in x]
    if isinstance(x, dict):
        return {k: _norm(v) for k, v in x.items()}
    return x


def _read_one(path):
    import fastparquet
    pf = fastparquet.ParquetFile(path)
    df = pf.to_pandas()
    cols = {}
    for c in df.columns:
        cols[str(c)] = [_norm(x) for x in df[c].tolist()]
    return {"columns": cols, "index": [_norm(x) for x in df.index.tolist()], "dtypes": {str(c): str(df[c].dtype) for c in df.columns}}


def _worker(listfile):
    import warnings
    warnings.simplefilter("ignore")
    with open(listfile) as f:
        paths = [ln.rstrip("\n") for ln in f if ln.strip()]
    for p in paths:
        out = p + ".pkl"
        with open(p + ".started", "w"):
            pass
        try:
            res = _read_one(p)
        except BaseException as e:      # noqa: BLE001 - report whatever fastparquet raised
            res = {"error": "%s: %s" % (type(e).__name__, e)}
        with open(out + ".tmp", "wb") as f:
            pickle.dump(res, f)
        os.replace(out + ".tmp", out)


def read_many(paths, timeout=300):
    paths = list(paths)
    results = {}
    todo = list(paths)
    while todo:
        listfile = todo[0] + ".list"
        with open(listfile, "w") as f:
            f.write("\n".join(todo) + "\n")
        env = dict(os.environ)
        env["PYTHONPATH"] = os.pathsep.join(p for p in sys.path if p)
        try:
            proc = subprocess.run([sys.executable, "-m", "harness.pqspec.tests.fpbox", listfile],
                                  env=env, timeout=timeout, capture_output=True)
            rc = proc.returncode
        except subprocess.TimeoutExpired:
            rc = "timeout"
        rest = []
        crashed = False
        for p in todo:
            if os.path.exists(p + ".pkl"):
                with open(p + ".pkl", "rb") as f:
                    results[p] = pickle.load(f)
            elif not crashed and (rc != 0):
                results[p] = {"crash": rc}
                crashed = True
            else:
                rest.append(p)
        if rest and not crashed and len(rest) == len(todo):
            for p in rest:
                results[p] = {"error": "worker made no progress (rc=%r): %s" % (rc, proc.stderr[-500:] if rc != "timeout" else "")}
            break
        todo = rest
    return results


def read_bytes_many(named, scratch, timeout=300):
    """named: {name: bytes}; files are written under `scratch`. -> {name: result}"""
    paths = {}
    for i, (name, data) in enumerate(named.items()):
        p = os.path.join(scratch, "f%04d.parquet" % i)
        with open(p, "wb") as f:
            f.write(data)
        paths[p] = name
    res = read_many(list(paths), timeout=timeout)
    return {paths[p]: r for p, r in res.items()}


if __name__ == "__main__":
    _worker(sys.argv[1])
