"""Section 5: read_file() on the sample files of /repo/test-data (written by many other writers)."""
import os
from collections import Counter

import pytest

from harness.pqspec.reader import read_file

ROOT = "/repo/test-data"

# Problem codes each file is known to show (everything else must be clean). These are old files of
# other writers; the deviations are real, see the final report of the pqspec build.
EXPECTED = {
    # parquet-mr <= 1.10: dictionary_page_offset not set, data_page_offset points at the dictionary page
    "datapage_v2.snappy.parquet": {"E-OFFSET": 3},
    "map-test.snappy.parquet": {"E-OFFSET": 2},
    "map_array.parq": {"E-OFFSET": 12},
    "mr_times.parq": {"E-OFFSET": 1},
    "nested.parq": {"E-OFFSET": 1},
    "nested1.parquet": {"E-OFFSET": 3},
    "test-map-last-row-split.parquet": {"E-OFFSET": 2},
    "test-null-dictionary.parquet": {"E-OFFSET": 1},
    # parquet-cpp 1.3.2: converted_type 24 (the short lived NA) is not in the IDL
    "empty.parquet": {"E-THRIFT": 4},
    "dir_metadata/empty.parquet": {"E-THRIFT": 4},
    # ancient parquet-mr: empty encodings list; dictionary page not counted in total_*_size
    "nation.dict.parquet": {"E-ENCODINGS": 4, "E-OFFSET": 2, "E-SIZE": 4, "E-TILING": 2},
    "nation.plain.parquet": {"E-ENCODINGS": 4},
    # fastparquet: empty lists with element type 0
    "no_columns_new.parquet": {"E-THRIFT": 1},
    "non-std-kvm.fp-0.8.2.parquet": {"E-THRIFT": 3},
    # parquet-rs 0.3.0: FileMetaData.num_rows = 0 with 6 rows in the row group
    "repeated_no_annotation.parquet": {"E-ROWS": 1},
}


def all_files():
    out = []
    for root, _dirs, files in os.walk(ROOT):
        for f in sorted(files):
            p = os.path.join(root, f)
            with open(p, "rb") as fh:
                head = fh.read(4)
            if head == b"PAR1":
                out.append(os.path.relpath(p, ROOT))
    return sorted(out)


FILES = all_files()


def test_there_are_files():
    assert len(FILES) > 60


@pytest.mark.parametrize("rel", FILES)
def test_testdata_file(rel):
    data = open(os.path.join(ROOT, rel), "rb").read()
    view = read_file(data)                       # must not raise
    codes = dict(Counter(p.split()[0] for p in view.problems))
    assert codes == EXPECTED.get(rel, {}), view.problems
    assert view.meta is not None and view.footer_parsed_len == view.footer_len
    if os.path.basename(rel) in ("_metadata", "_common_metadata"):
        return
    # every chunk that lives in the file was walked and decoded (no U- codes above)
    for rg in view.row_groups:
        for ch in rg.chunks:
            assert ch.triples is not None and ch.complete, (rel, ch)
            assert len(ch.triples) == ch.meta["num_values"]
            if ch.leaf.max_rep == 0:
                assert len(ch.values) == rg.num_rows


def nation_csv():
    rows = []
    for ln in open(os.path.join(ROOT, "nation.csv"), "rb").read().split(b"\n"):
        if ln:
            k, name, r, comment = ln.split(b"|", 3)
            rows.append((int(k), name, int(r), comment))
    return rows


@pytest.mark.parametrize("rel", ["nation.impala.parquet", "snappy-nation.impala.parquet", "gzip-nation.impala.parquet",
                                 "nation.plain.parquet", "nation.dict.parquet"])
def test_nation_values(rel):
    view = read_file(open(os.path.join(ROOT, rel), "rb").read())
    cols = [view.column(lf.path) for lf in view.schema_leaves]
    assert len(cols) == 4
    got = list(zip(*cols))
    want = nation_csv()
    assert len(got) == 25
    assert [(g[0], g[1], g[2], g[3].rstrip()) for g in got] == [(w[0], w[1], w[2], w[3].rstrip()) for w in want]


def test_split_dataset_metadata():
    base = os.path.join(ROOT, "split")
    files = {}
    for root, _d, fs in os.walk(base):
        for f in fs:
            p = os.path.join(root, f)
            files[os.path.relpath(p, base)] = open(p, "rb").read()
    alone = read_file(files["_metadata"])
    assert alone.problems == [] and all(c.skipped for rg in alone.row_groups for c in rg.chunks)
    view = read_file(files["_metadata"], other_files=files)
    assert view.problems == []
    assert len(view.row_groups) == 48 and all(c.complete for rg in view.row_groups for c in rg.chunks)
    assert sorted(view.column("num")) == sorted(
        x for k, d in files.items() if k.endswith(".parquet") for x in read_file(d).column("num"))


def test_nested_samples_levels():
    view = read_file(open(os.path.join(ROOT, "nested.parq"), "rb").read())
    lf = view.schema_leaves[0]
    assert (lf.max_def, lf.max_rep) == (4, 1) or lf.max_rep == 1
    ch = view.row_groups[0].chunks[0]
    assert ch.values is None and ch.triples and ch.triples[0][0] == 0
    assert sum(1 for t in ch.triples if t[0] == 0) == view.row_groups[0].num_rows
    # a row split over two v1 pages
    view = read_file(open(os.path.join(ROOT, "test-map-last-row-split.parquet"), "rb").read())
    ch = view.row_groups[0].chunks[0]
    assert len([p for p in ch.pages if p.kind == "DATA_PAGE"]) >= 2
    assert any(p.rep_levels and p.rep_levels[0] != 0 for p in ch.pages if p.kind == "DATA_PAGE")
    # data page v2 sample
    view = read_file(open(os.path.join(ROOT, "datapage_v2.snappy.parquet"), "rb").read())
    assert all(p.kind in ("DATA_PAGE_V2", "DICTIONARY_PAGE") for rg in view.row_groups for c in rg.chunks for p in c.pages)
    assert view.column("a") == [b"abc", b"abc", b"abc", None, b"abc"]
    assert view.column("b") == [1, 2, 3, 4, 5]
