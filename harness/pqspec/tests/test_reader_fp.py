"""Section 4: read_file() on files written by fastparquet (used as a black box)."""
import glob
import math
import os

import numpy as np
import pandas as pd
import pytest

import fastparquet
import fastparquet.writer

from harness.pqspec.reader import read_file

# The one deviation from the format that every fastparquet written footer shows (see the xfail test
# below): empty thrift lists are written with the header byte 0x00, i.e. element type 0.
KNOWN = "list element wire type 0"
# Second one, data page v2 only: ColumnMetaData.encoding_stats count the v2 pages under page_type DATA_PAGE.
KNOWN_V2 = "encoding_stats [('DATA_PAGE', "
KNOWN_WARNINGS = {"W-ENCODINGS", "W-TRAILING", "W-VALUES", "W-CODEC"}


def unexpected(view, v2=False):
    return [p for p in view.problems if KNOWN not in p and not (v2 and KNOWN_V2 in p and "('DATA_PAGE_V2', " in p)]


def frame(n=7):
    rng = np.random.RandomState(0)
    f = rng.randn(n)
    f[1] = np.nan
    f[n - 1] = -0.0
    s = ["a", None, "ccc", "dd", "", "héllo 世", "g"] * (n // 7 + 1)
    cats = ["x", "y", "x", None, "z", "x", "y"] * (n // 7 + 1)
    return pd.DataFrame({
        "i": np.arange(n, dtype="int64") * 1000003 - 5,
        "f": f,
        "s": pd.Series(s[:n], dtype=object),
        "b": (np.arange(n) % 3 == 0),
        "t": pd.to_datetime(["2020-01-01", "2021-06-01 12:00:00.123456", "1970-01-01", "2200-01-01",
                             "1900-01-01", "1999-12-31 23:59:59", "2024-02-29"] * (n // 7 + 1), format="mixed")[:n],
        "c": pd.Categorical(cats[:n]),
    })


def time_scale(leaf):
    """nanoseconds per unit of the stored integers"""
    lt = leaf.logical_type or {}
    unit = None
    for k in ("TIMESTAMP", "TIME"):
        if k in lt:
            unit = list(lt[k]["unit"])[0]
    if unit is None:
        unit = {"TIMESTAMP_MILLIS": "MILLIS", "TIMESTAMP_MICROS": "MICROS", "TIME_MILLIS": "MILLIS",
                "TIME_MICROS": "MICROS"}[leaf.converted_type]
    return {"MILLIS": 10 ** 6, "MICROS": 10 ** 3, "NANOS": 1}[unit]


def expected_physical(df, view, col):
    leaf = view.leaf(col)
    ser = df[col]
    out = []
    if isinstance(ser.dtype, pd.CategoricalDtype):
        ser = ser.astype(object)
    kind = ser.dtype.kind if hasattr(ser.dtype, "kind") else "O"
    for x in ser.tolist():
        if x is None or x is pd.NaT or x is pd.NA or (isinstance(x, float) and math.isnan(x)):
            out.append(None)
        elif isinstance(x, pd.Timestamp):
            ns = x.as_unit("ns").value
            sc = time_scale(leaf)
            assert ns % sc == 0
            out.append(ns // sc)
        elif isinstance(x, str):
            out.append(x.encode("utf-8"))
        elif isinstance(x, (bool, np.bool_)):
            out.append(bool(x))
        elif kind == "f":
            out.append(float(x))
        else:
            out.append(int(x))
    return out


def same(a, b):
    if len(a) != len(b):
        return False
    for x, y in zip(a, b):
        if isinstance(x, float) and isinstance(y, float):
            if math.isnan(x) and math.isnan(y):
                continue
            if x != y or math.copysign(1, x) != math.copysign(1, y):
                return False
        elif x != y or type(x) is not type(y):
            return False
    return True


def check_values(df, view):
    for col in df.columns:
        got = view.column(col)
        want = expected_physical(df, view, col)
        # fastparquet stores NaN of float columns as NULL; accept a stored NaN as well
        got = [None if isinstance(g, float) and math.isnan(g) else g for g in got]
        assert same(got, want), (col, got, want)


@pytest.fixture
def datapage_version():
    old = fastparquet.writer.DATAPAGE_VERSION
    yield lambda v: setattr(fastparquet.writer, "DATAPAGE_VERSION", v)
    fastparquet.writer.DATAPAGE_VERSION = old


@pytest.mark.parametrize("version", [1, 2])
@pytest.mark.parametrize("compression", [None, "SNAPPY", "GZIP", "ZSTD", "LZ4"])
@pytest.mark.parametrize("offsets", [None, [0, 2]])
def test_fastparquet_simple_file(scratch, datapage_version, version, compression, offsets):
    datapage_version(version)
    df = frame()
    fn = os.path.join(scratch, "t.parquet")
    kw = {} if offsets is None else {"row_group_offsets": offsets}
    fastparquet.write(fn, df, compression=compression, **kw)
    data = open(fn, "rb").read()
    view = read_file(data)
    assert unexpected(view, v2=version == 2) == []
    assert {w.split()[0] for w in view.warnings} <= KNOWN_WARNINGS, view.warnings
    assert len(view.row_groups) == (1 if offsets is None else 2)
    assert [rg.num_rows for rg in view.row_groups] == ([7] if offsets is None else [2, 5])
    assert view.footer_parsed_len == view.footer_len
    assert [lf.name for lf in view.schema_leaves] == list(df.columns)
    assert [lf.physical_type for lf in view.schema_leaves] == ["INT64", "DOUBLE", "BYTE_ARRAY", "BOOLEAN", "INT64", "BYTE_ARRAY"]
    assert view.leaf("s").converted_type == "UTF8" and view.leaf("t").converted_type == "TIMESTAMP_MICROS"
    check_values(df, view)
    want_codec = {None: "UNCOMPRESSED"}.get(compression, compression)
    for rg in view.row_groups:
        for ch in rg.chunks:
            assert view.idl.enum_name("CompressionCodec", ch.meta["codec"]) == want_codec
            kinds = [p.kind for p in ch.pages]
            assert all(k == ("DATA_PAGE" if version == 1 else "DATA_PAGE_V2") for k in kinds if k != "DICTIONARY_PAGE")
            assert ch.complete and ch.triples is not None
        cat = rg.chunks[5]
        assert cat.pages[0].kind == "DICTIONARY_PAGE" and cat.dictionary is not None
        assert all(p.encoding in ("PLAIN_DICTIONARY", "RLE_DICTIONARY") for p in cat.pages[1:])
    assert b"pandas" in view.kv
    if compression == "LZ4":
        # fastparquet declares the deprecated LZ4 codec (5) but stores bare LZ4 blocks
        assert any(w.startswith("W-CODEC") for w in view.warnings)


def test_fastparquet_more_types(scratch):
    df = pd.DataFrame({
        "u8": np.array([1, 200, 3], dtype="uint8"), "i32": np.array([-1, 2, 3], dtype="int32"),
        "f32": np.array([1.5, 2, 3], dtype="float32"), "by": [b"a", b"\xff\x00", b""],
        "ni": pd.array([1, None, 3], dtype="Int64"), "u64": np.array([1, 2 ** 64 - 1, 3], dtype="uint64"),
        "tz": pd.to_datetime(["2020-01-01", "2020-01-02", "2020-01-03"]).tz_localize("Europe/Paris"),
    })
    fn = os.path.join(scratch, "t.parquet")
    fastparquet.write(fn, df, stats=True)
    view = read_file(open(fn, "rb").read())
    assert unexpected(view) == []
    assert view.column("u8") == [1, 200, 3] and view.leaf("u8").converted_type == "UINT_8"
    assert view.column("i32") == [-1, 2, 3] and view.leaf("i32").physical_type == "INT32"
    assert view.column("f32") == [1.5, 2.0, 3.0] and view.leaf("f32").physical_type == "FLOAT"
    assert view.column("by") == [b"a", b"\xff\x00", b""] and view.leaf("by").converted_type is None
    assert view.column("ni") == [1, None, 3]
    assert view.column("u64") == [1, -1, 3] and view.leaf("u64").converted_type == "UINT_64"
    assert view.column("tz") == [1577833200000000, 1577919600000000, 1578006000000000]
    assert view.leaf("tz").logical_type["TIMESTAMP"]["isAdjustedToUTC"] is True


def test_fastparquet_empty_and_int96(scratch):
    df = frame()
    fn = os.path.join(scratch, "e.parquet")
    fastparquet.write(fn, df.iloc[:0])
    view = read_file(open(fn, "rb").read())
    assert unexpected(view) == [] and view.row_groups == [] and view.meta["num_rows"] == 0
    df["t"] = df["t"].astype("datetime64[ns]")
    fastparquet.write(fn, df[["t", "i"]], times="int96")
    view = read_file(open(fn, "rb").read())
    assert unexpected(view) == []
    assert view.leaf("t").physical_type == "INT96"
    assert [int96_ns(raw) for raw in view.column("t")] == [ts.as_unit("ns").value for ts in df["t"]]


def int96_ns(raw):
    """INT96 timestamp: 8 bytes nanoseconds within the day, 4 bytes Julian day -> ns since the epoch"""
    return (int.from_bytes(raw[8:], "little") - 2440588) * 86400 * 10 ** 9 + int.from_bytes(raw[:8], "little")


@pytest.mark.xfail(strict=True, reason="fastparquet times='int96' treats the integers of a datetime64[us] (or s, ms) "
                                       "column as nanoseconds: 2020-01-01 is written (and read back) as 1970-01-19")
def test_fastparquet_int96_unit(scratch):
    fn = os.path.join(scratch, "e.parquet")
    df = pd.DataFrame({"t": pd.to_datetime(["2020-01-01 00:00:01"]).as_unit("us")})
    fastparquet.write(fn, df, times="int96")
    view = read_file(open(fn, "rb").read())
    assert [int96_ns(raw) for raw in view.column("t")] == [1577836801 * 10 ** 9]


@pytest.mark.parametrize("version", [1, 2])
def test_fastparquet_many_rows_many_pages(scratch, datapage_version, version):
    datapage_version(version)
    n = 5000
    rng = np.random.RandomState(1)
    df = pd.DataFrame({"i": rng.randint(-10 ** 12, 10 ** 12, n), "f": rng.randn(n),
                       "s": pd.Series([None if k % 7 == 0 else "v%d" % (k % 300) for k in range(n)], dtype=object),
                       "c": pd.Categorical(["k%d" % (k * k % 700) for k in range(n)]),
                       "b": rng.rand(n) > 0.5})
    fn = os.path.join(scratch, "m.parquet")
    fastparquet.write(fn, df, compression="SNAPPY", row_group_offsets=[0, 1000, 1001, 4000], stats=True)
    view = read_file(open(fn, "rb").read())
    assert unexpected(view, v2=version == 2) == []
    assert [rg.num_rows for rg in view.row_groups] == [1000, 1, 2999, 1000]
    check_values(df, view)


def test_fastparquet_hive_dataset(scratch):
    df = frame(14)
    df["p"] = ["u", "u", "v", "v", "u", "v", "u"] * 2
    d = os.path.join(scratch, "ds")
    fastparquet.write(d, df, file_scheme="hive", row_group_offsets=[0, 4, 9], partition_on=["p"])
    files = {os.path.relpath(f, d): open(f, "rb").read()
             for f in glob.glob(d + "/**", recursive=True) if os.path.isfile(f)}
    assert "_metadata" in files and "_common_metadata" in files
    parts = sorted(k for k in files if k.endswith(".parquet"))
    assert len(parts) >= 3
    # _metadata alone: no data pages in it, every chunk points elsewhere: structurally fine
    alone = read_file(files["_metadata"])
    assert unexpected(alone) == []
    assert all(c.file_path is not None and c.skipped and c.pages == [] for rg in alone.row_groups for c in rg.chunks)
    assert alone.footer_start == 4
    # with the part files: everything is walked
    view = read_file(files["_metadata"], other_files=files)
    assert unexpected(view) == []
    assert view.meta["num_rows"] == 14
    assert all(c.complete for rg in view.row_groups for c in rg.chunks)
    seen_rows = 0
    for rg in view.row_groups:
        path = rg.chunks[0].file_path.decode()
        assert path in files
        part = read_file(files[path])
        assert unexpected(part) == []
        seen_rows += rg.num_rows
    assert seen_rows == 14
    # values: rows are grouped by partition, compare as multisets per column, and exactly per part file
    for col in ("i", "s", "c"):
        got = view.column(col)
        want = expected_physical(df.drop(columns="p"), view, col)
        assert sorted(got, key=repr) == sorted(want, key=repr)
    for path in parts:
        part = read_file(files[path])
        pval = path.split("/")[0].split("=")[1]
        sub = df[df["p"] == pval]
        ints = part.column("i")
        assert set(ints) <= set(int(x) for x in sub["i"])


# ---------------------------------------------------------------------------------------------
# deviations of fastparquet's output from the format, kept visible


@pytest.mark.xfail(strict=True, reason="fastparquet writes empty thrift lists (e.g. ColumnMetaData.key_value_metadata) "
                                       "with list header 0x00: size 0, element type 0; 0 is not an element type of "
                                       "the compact protocol (struct lists must announce type 12)")
def test_fastparquet_footer_is_idl_conformant(scratch):
    fn = os.path.join(scratch, "t.parquet")
    fastparquet.write(fn, pd.DataFrame({"a": [1, 2, 3]}))
    view = read_file(open(fn, "rb").read())
    assert [p for p in view.problems if p.startswith("E-THRIFT")] == []


# (was a strict xfail until /repo commit 041247b named the page type DATA_PAGE_V2 in encoding_stats)
def test_fastparquet_v2_encoding_stats(scratch, datapage_version):
    datapage_version(2)
    fn = os.path.join(scratch, "t.parquet")
    fastparquet.write(fn, pd.DataFrame({"a": [1, 2, 3]}))
    view = read_file(open(fn, "rb").read())
    assert unexpected(view) == []


# (was a strict xfail until /repo commit 8137a73 made _common_metadata state zero rows)
def test_fastparquet_common_metadata_rows(scratch):
    d = os.path.join(scratch, "ds")
    fastparquet.write(d, pd.DataFrame({"a": [1, 2, 3]}), file_scheme="hive")
    view = read_file(open(os.path.join(d, "_common_metadata"), "rb").read())
    assert unexpected(view) == []


def test_fastparquet_known_warnings_documented(scratch, datapage_version):
    """Not format violations in the strict sense, but worth knowing (all are W- warnings):
    encodings list omits RLE although levels are RLE encoded; v1 PLAIN pages carry 8 slack bytes;
    v2 dictionary index runs are not padded to a multiple of 8 values."""
    fn = os.path.join(scratch, "t.parquet")
    df = pd.DataFrame({"a": [1, 2, 3], "c": pd.Categorical(["x", "y", "x"])})
    fastparquet.write(fn, df)
    v1 = read_file(open(fn, "rb").read())
    assert any(w.startswith("W-ENCODINGS") and "level encodings ['RLE']" in w for w in v1.warnings)
    assert any(w.startswith("W-TRAILING") and "8 unused bytes after the PLAIN values" in w for w in v1.warnings)
    datapage_version(2)
    fastparquet.write(fn, df)
    v2 = read_file(open(fn, "rb").read())
    assert any(w.startswith("W-VALUES") and "cut short" in w for w in v2.warnings)
