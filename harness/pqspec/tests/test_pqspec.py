"""Tests of pqspec itself: IDL, compact protocol, encodings (sections 1-3).

Sections 4-6 (reader on fastparquet output, reader on /repo/test-data, writer) are in
test_reader_fp.py, test_testdata.py and test_writer.py.
"""
import math
import os
import random
import struct
import subprocess

import pytest

from harness.pqspec import FormatError, default_idl
from harness.pqspec import idl as idlmod
from harness.pqspec import compact
from harness.pqspec import encodings as enc

IDL_PATH = "/repo/fastparquet/parquet.thrift"


@pytest.fixture(scope="module")
def idl():
    return default_idl(IDL_PATH)


# ---------------------------------------------------------------------------------------------
# 1. IDL


def test_idl_filemetadata(idl):
    f = idl.structs["FileMetaData"]
    assert sorted(f) == list(range(1, 10))
    want = {1: ("version", "i32", True), 2: ("schema", "list", True), 3: ("num_rows", "i64", True),
            4: ("row_groups", "list", True), 5: ("key_value_metadata", "list", False),
            6: ("created_by", "string", False), 7: ("column_orders", "list", False),
            8: ("encryption_algorithm", "struct", False), 9: ("footer_signing_key_metadata", "binary", False)}
    for fid, (name, typ, req) in want.items():
        assert (f[fid].name, f[fid].type, f[fid].required) == (name, typ, req)
    assert f[2].elem.type == "struct" and f[2].elem.target == "SchemaElement"
    assert f[4].elem.target == "RowGroup"
    assert f[8].target == "EncryptionAlgorithm"
    assert [idlmod.wire_type(f[i]) for i in range(1, 10)] == [5, 9, 6, 9, 9, 8, 9, 12, 8]


def test_idl_details(idl):
    cmd = idl.structs["ColumnMetaData"]
    assert cmd[14].name == "bloom_filter_offset" and cmd[14].type == "i64" and not cmd[14].required
    assert cmd[2].type == "list" and cmd[2].elem.type == "enum" and cmd[2].elem.target == "Encoding"
    assert idlmod.wire_type(cmd[2].elem) == 5
    assert cmd[3].elem.type == "string" and idlmod.wire_type(cmd[3].elem) == 8
    assert "LogicalType" in idl.unions and "TimeUnit" in idl.unions and "ColumnOrder" in idl.unions
    lt = idl.structs["LogicalType"]
    assert 9 not in lt and lt[10].name == "INTEGER" and lt[10].target == "IntType" and lt[14].name == "UUID"
    assert all(not f.required for f in lt.values())
    it = idl.structs["IntType"]
    assert it[1].type == "i8" and idlmod.wire_type(it[1]) == 3 and it[2].type == "bool" and idlmod.wire_type(it[2]) == 1
    assert idl.structs["StringType"] == {}
    v2 = idl.structs["DataPageHeaderV2"]
    assert v2[7].name == "is_compressed" and v2[7].default == 1 and not v2[7].required
    assert idl.structs["RowGroup"][7].type == "i16" and idlmod.wire_type(idl.structs["RowGroup"][7]) == 4
    assert idl.structs["ColumnIndex"][1].elem.type == "bool"
    assert idl.enums["Type"] == {0: "BOOLEAN", 1: "INT32", 2: "INT64", 3: "INT96", 4: "FLOAT", 5: "DOUBLE",
                                 6: "BYTE_ARRAY", 7: "FIXED_LEN_BYTE_ARRAY"}
    assert 1 not in idl.enums["Encoding"] and idl.enums["Encoding"][8] == "RLE_DICTIONARY"
    assert idl.enums["CompressionCodec"][7] == "LZ4_RAW"
    assert idl.enums["ConvertedType"][21] == "INTERVAL" and len(idl.enums["ConvertedType"]) == 22
    assert idl.enum_value("PageType", "DATA_PAGE_V2") == 3
    assert len(idl.structs) == 51


def test_generate_tla_parses(scratch):
    out = os.path.join(scratch, "ParquetIDL.tla")
    idlmod.generate_tla(IDL_PATH, out)
    text = open(out).read()
    assert text.startswith("---- MODULE ParquetIDL ----") and text.rstrip().endswith("====")
    assert '[id |-> 14, name |-> "bloom_filter_offset", wt |-> 6, req |-> FALSE, elemwt |-> 0, target |-> ""]' in text
    assert '[id |-> 2, name |-> "schema", wt |-> 9, req |-> TRUE, elemwt |-> 12, target |-> "SchemaElement"]' in text
    assert '[id |-> 2, name |-> "isSigned", wt |-> 1, req |-> TRUE, elemwt |-> 0, target |-> ""]' in text
    r = subprocess.run(["tla-sany", "ParquetIDL.tla"], cwd=scratch, capture_output=True, text=True, timeout=120)
    log = r.stdout + r.stderr
    assert r.returncode == 0, log
    assert "Semantic processing of module ParquetIDL" in log
    assert "error" not in log.lower().replace("errors: 0", ""), log


# ---------------------------------------------------------------------------------------------
# 2. compact protocol


def test_varint_zigzag_vectors():
    assert compact.varint_encode(300) == bytes([0xAC, 0x02])
    assert compact.varint_decode(bytes([0xAC, 0x02])) == (300, 2)
    assert compact.varint_encode(0) == b"\x00" and compact.varint_encode(127) == b"\x7f" and compact.varint_encode(128) == b"\x80\x01"
    assert [compact.zigzag(n) for n in (0, -1, 1, -2, 2, 2147483647, -2147483648)] == [0, 1, 2, 3, 4, 4294967294, 4294967295]
    for n in (0, 1, -1, 63, -64, 64, 2 ** 31 - 1, -2 ** 31, 2 ** 63 - 1, -2 ** 63):
        assert compact.unzigzag(compact.zigzag(n)) == n
        u = compact.zigzag(n)
        assert compact.varint_decode(compact.varint_encode(u)) == (u, len(compact.varint_encode(u)))
    assert len(compact.varint_encode(compact.zigzag(-2 ** 63))) == 10
    with pytest.raises(FormatError):
        compact.varint_decode(b"\x80" * 10 + b"\x01")       # 11 bytes
    with pytest.raises(FormatError):
        compact.varint_decode(b"\x80\x80")                  # truncated


def _sample(ts, idl, full, depth=0, salt=0):
    t = ts.type
    if t == "bool":
        return bool((salt + depth) % 2)
    if t == "i8":
        return [-128, 127, 8, 64][salt % 4]
    if t == "i16":
        return [-32768, 32767, 3][salt % 3]
    if t == "i32":
        return [-2 ** 31, 2 ** 31 - 1, 0, 77][salt % 4]
    if t == "i64":
        return [-2 ** 63, 2 ** 63 - 1, 0, 1 << 40][salt % 4]
    if t == "double":
        return [1.5, -0.0, float("inf")][salt % 3]
    if t in ("string", "binary"):
        return [b"", b"x", b"\xff\x00\x80" * 50][salt % 3]
    if t == "enum":
        vals = sorted(idl.enums[ts.target])
        return vals[salt % len(vals)]
    if t in ("list", "set"):
        n = [0, 1, 14, 15, 16, 40][salt % 6] if depth < 2 else [0, 2][salt % 2]
        return [_sample(ts.elem, idl, full, depth + 1, salt + i) for i in range(n)]
    if t == "struct":
        return _sample_struct(ts.target, idl, full, depth + 1, salt)
    raise AssertionError(t)


def _sample_struct(name, idl, full, depth=0, salt=0):
    fields = idl.structs[name]
    out = {}
    if name in idl.unions:
        ids = sorted(fields)
        f = fields[ids[salt % len(ids)]]
        out[f.name] = _sample(f, idl, full, depth, salt)
        return out
    for k, fid in enumerate(sorted(fields)):
        f = fields[fid]
        if f.required or (full and depth < 5):
            out[f.name] = _sample(f, idl, full, depth, salt + k)
    return out


@pytest.mark.parametrize("full", [False, True])
def test_compact_roundtrip_every_struct(idl, full):
    for name in idl.order:
        for salt in range(6):
            val = _sample_struct(name, idl, full, salt=salt)
            buf = compact.encode(name, val, idl)
            got, end = compact.decode(buf + b"TRAILER", 0, name, idl, strict=True)
            assert end == len(buf), name
            assert got == val, name
            toks, tend = compact.tokenize(buf)
            assert tend == len(buf) and toks[-1]["tok"] == "stop"
            # canonical: ascending ids, short form whenever the delta allows
            assert compact.encode(name, got, idl) == buf


def test_compact_handmade(idl):
    val = {"version": 1, "schema": [{"name": b"root", "num_children": 1},
                                    {"name": b"a", "type": 1, "repetition_type": 1, "converted_type": 16,
                                     "logicalType": {"INTEGER": {"bitWidth": 16, "isSigned": True}}}],
           "num_rows": 3, "row_groups": [], "created_by": b"pqspec 1.0",
           "key_value_metadata": [{"key": b"k", "value": b"v"}, {"key": b"only"}],
           "column_orders": [{"TYPE_ORDER": {}}]}
    buf = compact.encode("FileMetaData", val, idl)
    # by hand: field 1 i32 (0x15) zigzag(1)=2; field 2 list (0x19) of 2 structs (0x2c) ...
    assert buf[:4] == bytes([0x15, 0x02, 0x19, 0x2C])
    assert buf[4:10] == bytes([0x48, 0x04]) + b"root"        # delta 4, binary, len 4
    assert buf[10:13] == bytes([0x15, 0x02, 0x00])            # num_children = 1, stop
    assert compact.decode(buf, 0, "FileMetaData", idl)[0] == val
    assert compact.as_text(val["created_by"]) == "pqspec 1.0"
    # the small example from the smoke test, fixed bytes
    b = compact.encode("FileMetaData", {"version": 1, "schema": [{"name": "root", "num_children": 0}], "num_rows": 0,
                                        "row_groups": [], "created_by": "x"}, idl)
    assert b.hex() == "1502191c4804726f6f741500001600190c28017800"
    # bool fields live in the header nibble; bool list elements are bytes 1 / 2
    s = compact.encode("SortingColumn", {"column_idx": 0, "descending": True, "nulls_first": False}, idl)
    assert s == bytes([0x15, 0x00, 0x11, 0x12, 0x00])
    ci = compact.encode("ColumnIndex", {"null_pages": [True, False], "min_values": [b""], "max_values": [b"z"],
                                        "boundary_order": 0}, idl)
    assert ci[:4] == bytes([0x19, 0x21, 0x01, 0x02])
    toks, _ = compact.tokenize(ci)
    assert [t["val"] for t in toks if t["tok"] == "bool"] == [True, False]
    # long form field header (delta > 15) and long list header
    toks, _ = compact.tokenize(bytes([0x05, 0x40, 0x02, 0x00]))      # id zigzag(0x40)=32, i32 1
    assert toks[0] == {"tok": "field", "id": 32, "delta": 0, "wt": 5, "pos": 0} and toks[1]["val"] == 1
    lst = compact.encode("ColumnMetaData", {"type": 1, "encodings": list(range(20)), "path_in_schema": [], "codec": 0,
                                            "num_values": 0, "total_uncompressed_size": 0, "total_compressed_size": 0,
                                            "data_page_offset": 4}, idl)
    toks, _ = compact.tokenize(lst)
    lt = [t for t in toks if t["tok"] == "list"]
    assert lt[0]["n"] == 20 and lt[0]["long"] and lt[0]["et"] == 5 and lt[1]["n"] == 0 and not lt[1]["long"]


def test_compact_strict_rejections(idl):
    ok = bytes([0x15, 0x02, 0x19, 0x0C, 0x16, 0x00, 0x19, 0x0C, 0x00])
    assert compact.decode(ok, 0, "FileMetaData", idl)[0] == {"version": 1, "schema": [], "num_rows": 0, "row_groups": []}
    cases = {
        "i64 where i32 declared": bytes([0x16, 0x02, 0x19, 0x0C, 0x16, 0x00, 0x19, 0x0C, 0x00]),
        "i32 where i64 declared": bytes([0x15, 0x02, 0x19, 0x0C, 0x15, 0x00, 0x19, 0x0C, 0x00]),
        "unknown id 10": bytes([0x15, 0x02, 0x19, 0x0C, 0x16, 0x00, 0x19, 0x0C, 0x65, 0x00, 0x00]),
        "required missing": bytes([0x15, 0x02, 0x19, 0x0C, 0x16, 0x00, 0x00]),
        "repeated id": bytes([0x15, 0x02, 0x19, 0x0C, 0x16, 0x00, 0x19, 0x0C, 0x05, 0x02, 0x02, 0x00]),
        "list of i32 where structs declared": bytes([0x15, 0x02, 0x19, 0x05, 0x16, 0x00, 0x19, 0x0C, 0x00]),
        "i32 out of range": bytes([0x15]) + compact.varint_encode(compact.zigzag(2 ** 31)) + bytes([0x19, 0x0C, 0x16, 0x00, 0x19, 0x0C, 0x00]),
    }
    for what, buf in cases.items():
        compact.tokenize(buf)                       # well formed at the token level
        with pytest.raises(FormatError):
            compact.decode(buf, 0, "FileMetaData", idl, strict=True)
        probs = []
        compact.decode(buf, 0, "FileMetaData", idl, strict=False, problems=probs)
        assert probs, what
    # enum out of range, union with two members
    with pytest.raises(FormatError):
        compact.decode(bytes([0x15, 0x0E, 0x15, 0x00, 0x15, 0x00, 0x00]), 0, "PageHeader", idl)     # PageType 7
    with pytest.raises(FormatError):
        compact.decode(bytes([0x1C, 0x00, 0x1C, 0x00, 0x00]), 0, "TimeUnit", idl)
    with pytest.raises(FormatError):
        compact.decode(bytes([0x00]), 0, "TimeUnit", idl)
    # empty list announced with element type 0: tokenizes, the IDL layer objects
    odd = bytes([0x15, 0x02, 0x19, 0x00, 0x16, 0x00, 0x19, 0x0C, 0x00])
    assert compact.tokenize(odd)[1] == len(odd)
    with pytest.raises(FormatError):
        compact.decode(odd, 0, "FileMetaData", idl)


def test_compact_malformed(idl):
    for buf in (b"", bytes([0x15]), bytes([0x15, 0x80]), bytes([0x18, 0x05, 0x41]), bytes([0x1D, 0x00]),
                bytes([0x1F, 0x00]), bytes([0x19, 0x1D, 0x00]), bytes([0x19, 0x10, 0x00]),
                bytes([0x15]) + b"\x80" * 10 + b"\x01\x00", bytes([0x17, 1, 2, 3]), bytes([0x19, 0xFC, 0xFF, 0xFF, 0x0F]),
                bytes([0x15, 0x02])):
        with pytest.raises(FormatError):
            compact.tokenize(buf)
    deep = bytes([0x1C]) * 100 + bytes([0x00]) * 101
    with pytest.raises(FormatError):
        compact.tokenize(deep)


# ---------------------------------------------------------------------------------------------
# 3. encodings

COUNTS = (0, 1, 2, 7, 8, 9, 31, 32, 33, 127, 128, 129, 300)


def test_known_vectors():
    assert enc.bitpack_encode(range(8), 3) == bytes([0x88, 0xC6, 0xFA])
    assert enc.bitpack_decode(bytes([0x88, 0xC6, 0xFA]), 3, 8) == list(range(8))
    assert enc.bitpack_msb_encode(range(8), 3) == bytes([0x05, 0x39, 0x77])       # deprecated BIT_PACKED example
    assert enc.bitpack_msb_decode(bytes([0x05, 0x39, 0x77]), 3, 8) == (list(range(8)), 3)
    # hybrid: RLE run of 100 x value 4 at width 3: header 200 = C8 01, value one byte
    assert enc.hybrid_encode([("rle", 4, 100)], 3) == bytes([0xC8, 0x01, 0x04])
    # bit packed run of one group: header (1 << 1) | 1 = 3
    assert enc.hybrid_encode([("bp", list(range(8)))], 3) == bytes([0x03, 0x88, 0xC6, 0xFA])
    assert enc.hybrid_encode([("rle", 0x1234, 3)], 13) == bytes([0x06, 0x34, 0x12])
    assert enc.hybrid_encode([("rle", 0, 5)], 0) == bytes([0x0A])
    # Encodings.md delta examples
    assert enc.delta_encode([1, 2, 3, 4, 5], 8, 1) == bytes([8, 1, 5, 2, 2, 0])
    assert enc.delta_encode([7, 5, 3, 1, 2, 3, 4, 5], 8, 1) == bytes([8, 1, 8, 14, 3, 2, 0xC0, 0x3F])
    assert enc.delta_decode(bytes([8, 1, 8, 14, 3, 2, 0xC0, 0x3F])) == ([7, 5, 3, 1, 2, 3, 4, 5], 8)
    # levels v1: max level 1, 10 ones: length prefix 2, RLE header 20, value 1
    assert enc.levels_v1_encode([1] * 10, 1) == bytes([2, 0, 0, 0, 0x14, 0x01])
    assert enc.levels_v1_encode([0, 1], 0) == b""
    assert enc.level_width(0) == 0 and enc.level_width(1) == 1 and enc.level_width(2) == 2 and enc.level_width(3) == 2 and enc.level_width(4) == 3


def test_plain_roundtrip():
    rnd = random.Random(5)
    for n in (0, 1, 7, 8, 9, 100):
        cases = {
            "BOOLEAN": [rnd.random() < 0.5 for _ in range(n)],
            "INT32": [rnd.choice([-2 ** 31, 2 ** 31 - 1, 0, -1, rnd.randrange(-2 ** 31, 2 ** 31)]) for _ in range(n)],
            "INT64": [rnd.choice([-2 ** 63, 2 ** 63 - 1, 0, -1, rnd.randrange(-2 ** 63, 2 ** 63)]) for _ in range(n)],
            "INT96": [bytes(rnd.randrange(256) for _ in range(12)) for _ in range(n)],
            "DOUBLE": [rnd.choice([0.0, -0.0, float("inf"), 1e300, rnd.random()]) for _ in range(n)],
            "FLOAT": [struct.unpack("<f", struct.pack("<f", rnd.random()))[0] for _ in range(n)],
            "BYTE_ARRAY": [bytes(rnd.randrange(256) for _ in range(rnd.randrange(0, 9))) for _ in range(n)],
            "FIXED_LEN_BYTE_ARRAY": [bytes(rnd.randrange(256) for _ in range(5)) for _ in range(n)],
        }
        for t, vals in cases.items():
            tl = 5 if t == "FIXED_LEN_BYTE_ARRAY" else None
            buf = enc.plain_encode(t, vals, tl)
            got, used = enc.plain_decode(t, buf + b"slack", n, tl)
            assert used == len(buf) and got == vals, (t, n)
            if n and t != "BOOLEAN":
                with pytest.raises(FormatError):
                    enc.plain_decode(t, buf[:-1], n, tl)
    assert enc.plain_encode("BOOLEAN", [True, False, True, True, False, False, False, False, True]) == bytes([0x0D, 0x01])
    assert enc.plain_encode("INT32", [-2]) == b"\xfe\xff\xff\xff"
    assert enc.plain_encode("BYTE_ARRAY", [b"ab"]) == b"\x02\x00\x00\x00ab"
    v, _ = enc.plain_decode("DOUBLE", enc.plain_encode("DOUBLE", [float("nan")]), 1)
    assert math.isnan(v[0])
    with pytest.raises(ValueError):
        enc.plain_encode("INT32", [2 ** 31])


def test_bitpack_all_widths():
    rnd = random.Random(6)
    for width in range(0, 65):
        for n in (0, 1, 7, 8, 9, 33):
            vals = [rnd.getrandbits(width) if width else 0 for _ in range(n)]
            if n and width:
                vals[0] = (1 << width) - 1
            buf = enc.bitpack_encode(vals, width)
            assert len(buf) == ((n + 7) // 8) * width
            assert enc.bitpack_decode(buf, width, n) == vals
            m = enc.bitpack_msb_encode(vals, width)
            assert enc.bitpack_msb_decode(m, width, n) == (vals, (n * width + 7) // 8)
    with pytest.raises(ValueError):
        enc.bitpack_encode([8], 3)


def test_hybrid_all_widths_and_counts():
    rnd = random.Random(7)
    for width in range(0, 33):
        top = (1 << width) - 1
        for n in COUNTS:
            vals = []
            while len(vals) < n:
                if rnd.random() < 0.4:
                    vals += [rnd.choice([0, top, rnd.getrandbits(width) if width else 0])] * rnd.randrange(1, 40)
                else:
                    vals += [rnd.getrandbits(width) if width else 0 for _ in range(rnd.randrange(1, 20))]
            vals = vals[:n]
            # automatic run structure
            runs = enc.hybrid_auto(vals, width)
            buf = enc.hybrid_encode(runs, width)
            info = {}
            got, used = enc.hybrid_decode(buf + b"\xff\xff", width, n, info=info)
            assert got == vals and used == len(buf), (width, n)
            assert sum(c for _k, c in info["runs"]) >= n
            # everything bit packed, everything RLE (runs of one), and a forced mixture
            for structure in ([("bp", (n + 7) // 8)] if n else [],
                              None,
                              [("bp", 1)] * (n // 16) + [("bp", (n - 8 * (n // 16) + 7) // 8)] if n else []):
                if structure is None:
                    rr = []
                    i = 0
                    while i < n:
                        j = i
                        while j < n and vals[j] == vals[i]:
                            j += 1
                        rr.append(("rle", vals[i], j - i))
                        i = j
                else:
                    rr = enc.apply_runs(vals, [s for s in structure if s[1]])
                b2 = enc.hybrid_encode(rr, width)
                assert enc.hybrid_decode(b2, width, n) == (vals, len(b2)), (width, n)
    # stops after count values, truncating the last run, but consuming it
    buf = enc.hybrid_encode([("rle", 5, 100), ("bp", [1, 2, 3, 4, 5, 6, 7, 0])], 3)
    assert enc.hybrid_decode(buf, 3, 10) == ([5] * 10, 3)
    assert enc.hybrid_decode(buf, 3, 103) == ([5] * 100 + [1, 2, 3], len(buf))
    with pytest.raises(FormatError):
        enc.hybrid_decode(buf, 3, 109)
    with pytest.raises(FormatError):
        enc.hybrid_decode(buf[:-1], 3, 108)
    assert enc.hybrid_decode(buf[:-1], 3, 105, lenient=True)[0] == [5] * 100 + [1, 2, 3, 4, 5]
    with pytest.raises(FormatError):
        enc.hybrid_decode(bytes([0x02, 0x08]), 3, 1)           # RLE value 8 does not fit 3 bits
    # huge counts stay exact
    big = enc.hybrid_encode([("rle", 1, 10 ** 6)], 1)
    vals, used = enc.hybrid_decode(big, 1, 10 ** 6)
    assert len(vals) == 10 ** 6 and used == len(big) == 4
    # run overrides
    with pytest.raises(ValueError):
        enc.apply_runs([1, 2], [("rle", 2)])
    with pytest.raises(ValueError):
        enc.apply_runs([1, 2, 3], [("rle", 1)])
    assert enc.apply_runs([1, 1, 2], [("rle", 2), ("bp", 1)]) == [("rle", 1, 2), ("bp", [2, 0, 0, 0, 0, 0, 0, 0])]


def test_levels_roundtrip():
    rnd = random.Random(8)
    for max_level in (1, 2, 3, 4, 7, 8, 255):
        for n in COUNTS:
            lv = [rnd.choice([0, max_level, rnd.randrange(max_level + 1)]) for _ in range(n)]
            b1 = enc.levels_v1_encode(lv, max_level)
            assert int.from_bytes(b1[:4], "little") == len(b1) - 4
            assert enc.levels_v1_decode(b1 + b"values", max_level, n) == (lv, len(b1))
            b2 = enc.levels_v2_encode(lv, max_level)
            assert b2 == b1[4:]
            assert enc.levels_v2_decode(b2, max_level, n)[0] == lv
            if n >= 8:
                b3 = enc.levels_v1_encode(lv, max_level, runs=[("bp", (n + 7) // 8)])
                assert enc.levels_v1_decode(b3, max_level, n)[0] == lv
    with pytest.raises(ValueError):
        enc.levels_v1_encode([2], 1)
    with pytest.raises(FormatError):
        enc.levels_v1_decode(bytes([9, 0, 0, 0, 1]), 1, 3)


def _delta_data(rnd, bits, width, n):
    """n values whose block-relative deltas need exactly `width` bits (when n > 2)."""
    lo = -(1 << (bits - 1))
    mod = 1 << bits
    vals = [rnd.randrange(lo, -lo)] if n else []
    for i in range(1, n):
        if width == 0:
            d = 12345
        else:
            d = rnd.randrange(0, 1 << width)
            if i % 32 == 1:
                d = 0
            elif i % 32 == 2:
                d = (1 << width) - 1
            d -= 1 << (width - 1)
        vals.append((vals[-1] + d - lo) % mod + lo)
    return vals


@pytest.mark.parametrize("bits", [32, 64])
def test_delta_all_widths_and_counts(bits):
    rnd = random.Random(9 + bits)
    for width in range(0, bits + 1):
        for n in COUNTS:
            vals = _delta_data(rnd, bits, width, n)
            for kw in ({}, {"block_size": 256, "miniblocks": 8}, {"block_size": 128, "miniblocks": 1}):
                buf = enc.delta_encode(vals, bits=bits, **kw)
                info = {}
                got, used = enc.delta_decode(buf + b"\x99", bits=bits, info=info)
                assert got == vals and used == len(buf), (bits, width, n, kw)
                if n >= 40 and not kw:
                    assert info["widths"][0][0] == width, (bits, width, n, info["widths"])
    # forced widths 0..64, also for 32 bit values (bits above 32 are ignored modulo 2^32)
    for fw in range(0, 65):
        for n in (1, 2, 9, 129):
            vals = _delta_data(rnd, bits, 3, n)
            buf = enc.delta_encode(vals, bits=bits, force_widths=fw)
            info = {}
            got, used = enc.delta_decode(buf, bits=bits, info=info)
            assert got == vals and used == len(buf)
            if n > 1:
                assert info["widths"][0][0] >= fw
                if fw >= 3:
                    assert info["widths"][0][0] == fw


def test_delta_details():
    # wrap around: extremes alternate, every delta overflows
    for bits in (32, 64):
        lo, hi = -(1 << (bits - 1)), (1 << (bits - 1)) - 1
        vals = [lo, hi, lo, hi, 0, hi, lo, -1, 0, 1] * 30
        buf = enc.delta_encode(vals, bits=bits)
        assert enc.delta_decode(buf, bits=bits) == (vals, len(buf))
    # a 64 bit width miniblock really occurs
    info = {}
    vals = [0, -2 ** 63, -1, -2 ** 63, -1] * 8
    enc.delta_decode(enc.delta_encode(vals), info=info)
    assert info["widths"][0][0] == 64
    # unneeded miniblocks: width bytes present (any value), no data
    vals = list(range(0, 40, 3))                              # 13 deltas: one miniblock of 32
    buf = enc.delta_encode(vals, pad_widths=0)
    assert len(buf) == 5 + 1 + 4                              # header, min delta, 4 widths; width 0 -> no data
    junk = enc.delta_encode(vals, pad_widths=17)
    assert enc.delta_decode(junk) == (vals, len(junk))
    vals2 = [0, 1, 3, 6, 10]
    buf = enc.delta_encode(vals2)
    # header 128,4,5,0 | min delta 1 -> zigzag 2 | widths 2,0,0,0 | one miniblock: 32 values * 2 bits = 8 bytes
    # relative deltas 0,1,2,3 -> 0b11100100
    assert buf == bytes([0x80, 0x01, 4, 5, 0, 2, 2, 0, 0, 0, 0b11100100, 0, 0, 0, 0, 0, 0, 0])
    assert len(buf) == 18
    assert enc.delta_decode(enc.delta_encode([])) == ([], 5)
    assert enc.delta_decode(enc.delta_encode([-7])) == ([-7], 5)
    with pytest.raises(FormatError):
        enc.delta_decode(buf[:-1])
    with pytest.raises(FormatError):
        enc.delta_decode(bytes([0x80, 0x01, 0, 5, 0, 2]))     # 0 miniblocks
    with pytest.raises(FormatError):
        enc.delta_decode(bytes([12, 1, 5, 0, 2, 1, 0, 0]))    # 12 values per miniblock
    with pytest.raises(ValueError):
        enc.delta_encode([2 ** 31], bits=32)
    with pytest.raises(ValueError):
        enc.delta_encode([1, 2], block_size=100, miniblocks=3)


def test_other_encodings_roundtrip():
    vals = [b"", b"abc", b"abd", b"abd", b"b", b"\xff" * 40]
    b = enc.delta_length_encode(vals)
    assert enc.delta_length_decode(b) == (vals, len(b))
    b = enc.delta_bytearray_encode(vals)
    assert enc.delta_bytearray_decode(b) == (vals, len(b))
    d = [1.5, -2.25, 1e300]
    b = enc.byte_stream_split_encode("DOUBLE", d)
    assert len(b) == 24 and enc.byte_stream_split_decode("DOUBLE", b, 3) == (d, 24)
    assert enc.byte_stream_split_encode("FLOAT", [1.0, 2.0]) == bytes([0, 0, 0, 0, 0x80, 0, 0x3F, 0x40])
