"""Tests of pqspec (the oracle itself) and its cross-checks against fastparquet as a black box."""
