"""Section 6: build_file() output read back by read_file(), and cross-checked with fastparquet.

fastparquet runs in a subprocess (fpbox): some valid files make it segfault.
Cases carry `fp_bad`: the reason why fastparquet is known to fail on this valid file; such a case
is reported as xfail when fastparquet indeed fails, and simply passes should fastparquet get fixed.
"""
import math
import random
import struct

import pytest

from harness.pqspec.reader import read_file
from harness.pqspec.writer import build_file, flat_levels, list_levels, map_levels
from harness.pqspec.tests import fpbox

CODECS = ["UNCOMPRESSED", "SNAPPY", "GZIP", "ZSTD", "LZ4_RAW", "BROTLI", "LZ4"]

BAD_V2_NULLS = ("fastparquet: IndexError/ValueError reading a column chunk of several DATA_PAGE_V2 pages when an "
                "OPTIONAL column has nulls (int, bool and nested columns)")
BAD_LZ4 = "fastparquet cannot read the Hadoop framed LZ4 codec (5) that Compression.md defines; it expects a bare block"
BAD_WIDE_BP = "fastparquet misdecodes bit-packed runs of dictionary indices with bit width 25..32 (valid up to 32)"
BAD_DELTA = ("fastparquet misdecodes DELTA_BINARY_PACKED miniblocks of bit width >= 31 (wrong values) and "
             "segfaults for widths 63/64")


BAD_DELTA_V2 = ("fastparquet reads DELTA_BINARY_PACKED INT64 values of a DATA_PAGE_V2 as 32 bit integers: two values land "
                "in each 64 bit slot, the rest is zero")
BAD_RLE_BOOL_V1 = ("fastparquet ignores the 4 byte length prefix of RLE encoded BOOLEAN values in a v1 data page "
                   "(Encodings.md: boolean values are length prefixed in v1 and v2 pages)")
BAD_FLBA_NUL = "fastparquet returns FIXED_LEN_BYTE_ARRAY values without their trailing zero bytes (numpy S dtype)"


class Case:
    def __init__(self, name, spec, expected, fp_expected=None, fp_bad=None, fp=True, triples=None):
        self.name = name
        self.spec = spec
        self.expected = expected          # {column: list of physical values}
        self.fp_expected = fp_expected if fp_expected is not None else expected
        self.fp_bad = fp_bad
        self.fp = fp                      # cross-check with fastparquet at all
        self.triples = triples            # {path: triples} for repeated columns


def _values(rnd, t, n, null_p):
    out = []
    for _ in range(n):
        if rnd.random() < null_p:
            out.append(None)
        elif t == "INT32":
            out.append(rnd.choice([-2 ** 31, 2 ** 31 - 1, 0, rnd.randrange(-2 ** 31, 2 ** 31)]))
        elif t == "INT64":
            out.append(rnd.choice([-2 ** 63, 2 ** 63 - 1, 0, rnd.randrange(-2 ** 63, 2 ** 63)]))
        elif t == "DOUBLE":
            out.append(rnd.choice([0.0, -1.5, 1e300, float("inf"), rnd.random() * 1e6]))
        elif t == "FLOAT":
            out.append(struct.unpack("<f", struct.pack("<f", rnd.random() * 100 - 50))[0])
        elif t == "BYTE_ARRAY":
            out.append(bytes(rnd.randrange(256) for _ in range(rnd.randrange(0, 7))))
        elif t == "FIXED_LEN_BYTE_ARRAY":
            out.append(bytes(rnd.randrange(256) for _ in range(3)))
        elif t == "BOOLEAN":
            out.append(rnd.random() < 0.5)
        else:
            raise AssertionError(t)
    return out


def _pages(rows, npages, version, optional, encoding="PLAIN", **kw):
    cuts = [len(rows) * k // npages for k in range(npages + 1)]
    pages = []
    for a, b in zip(cuts, cuts[1:]):
        seg = rows[a:b]
        p = {"version": version, "encoding": encoding, "values": [x for x in seg if x is not None]}
        if optional:
            p["def_levels"] = [0 if x is None else 1 for x in seg]
        p.update(kw)
        pages.append(p)
    return pages


def make_cases():
    rnd = random.Random(11)
    cases = []
    k = 0
    # A. flat columns: type x repetition x page version, codecs and page counts rotating
    for t in ("INT32", "INT64", "DOUBLE", "FLOAT", "BYTE_ARRAY", "BOOLEAN", "FIXED_LEN_BYTE_ARRAY"):
        for rep in ("OPTIONAL", "REQUIRED"):
            for ver in (1, 2):
                for rot in range(2):
                    codec = CODECS[k % 6]
                    npages = 1 + k % 3
                    k += 1
                    rows = _values(rnd, t, 40 + k, 0.3 if rep == "OPTIONAL" else 0)
                    node = {"name": "a", "type": t, "repetition": rep}
                    if t == "FIXED_LEN_BYTE_ARRAY":
                        node["type_length"] = 3
                    spec = {"schema": [node], "kv": {"who": "pqspec"},
                            "row_groups": [{"num_rows": len(rows), "columns": [
                                {"path": ["a"], "codec": codec, "statistics": "auto",
                                 "pages": _pages(rows, npages, ver, rep == "OPTIONAL", page_stats=True, crc=bool(k % 2))}]}]}
                    bad = None
                    if ver == 2 and rep == "OPTIONAL" and npages > 1 and t in ("INT32", "INT64", "BOOLEAN"):
                        bad = BAD_V2_NULLS
                    if t == "FIXED_LEN_BYTE_ARRAY" and any(x and x.endswith(b"\0") for x in rows):
                        bad = BAD_FLBA_NUL
                    cases.append(Case("flat-%s-%s-v%d-%s-%dp" % (t, rep, ver, codec, npages), spec, {"a": rows}, fp_bad=bad))
    # every codec, both page versions, nulls, two columns, two row groups
    for codec in CODECS:
        for ver in (1, 2):
            r1 = _values(rnd, "INT64", 30, 0.2)
            s1 = _values(rnd, "BYTE_ARRAY", 30, 0.2)
            r2 = _values(rnd, "INT64", 11, 0.2)
            s2 = _values(rnd, "BYTE_ARRAY", 11, 0.2)
            s1 = [None if x is None else x.hex().encode() for x in s1]
            s2 = [None if x is None else x.hex().encode() for x in s2]
            schema = [{"name": "n", "type": "INT64", "repetition": "OPTIONAL"},
                      {"name": "s", "type": "BYTE_ARRAY", "repetition": "OPTIONAL", "converted_type": "UTF8",
                       "logical_type": {"STRING": {}}}]
            rgs = []
            for rn, rs in ((r1, s1), (r2, s2)):
                rgs.append({"num_rows": len(rn), "columns": [
                    {"path": ["n"], "codec": codec, "pages": _pages(rn, 1, ver, True)},
                    {"path": ["s"], "codec": codec, "pages": _pages(rs, 1, ver, True, is_compressed=(False if ver == 2 and codec == "GZIP" else None))}]})
            spec = {"schema": schema, "row_groups": rgs, "file_offset_mode": ["metadata", "chunk_start", "zero"][len(cases) % 3]}
            exp = {"n": r1 + r2, "s": s1 + s2}
            fpe = {"n": r1 + r2, "s": [None if x is None else x.decode() for x in s1 + s2]}
            cases.append(Case("codec-%s-v%d" % (codec, ver), spec, exp, fpe, fp_bad=BAD_LZ4 if codec == "LZ4" else None))
    # B. dictionary: index widths, mixed RLE / bit-packed runs
    for width in (1, 2, 5, 8, 9, 17, 24, 25, 31, 32):
        for ver in (1, 2):
            nd = min(1 << width, 300)
            dic = [i * 3 - 5 for i in range(nd)]
            idx = [rnd.randrange(nd) for _ in range(20)] + [1] * 30 + [rnd.randrange(nd) for _ in range(27)] + [0] * 23
            spec = {"schema": [{"name": "a", "type": "INT64", "repetition": "REQUIRED"}],
                    "row_groups": [{"num_rows": 100, "columns": [
                        {"path": ["a"], "dictionary": dic, "codec": "SNAPPY" if ver == 2 else "UNCOMPRESSED",
                         "dict_encoding": "PLAIN_DICTIONARY" if ver == 1 else "RLE_DICTIONARY",
                         "pages": [{"version": ver, "encoding": "DICT", "values": idx, "index_width": width,
                                    "index_runs": [("bp", 3), ("rle", 26), ("bp", 4), ("rle", 18)]}]}]}]}
            cases.append(Case("dict-w%d-v%d" % (width, ver), spec, {"a": [dic[i] for i in idx]},
                              fp_bad=BAD_WIDE_BP if width > 24 else None))
    # dictionary of strings with nulls, automatic runs, three pages, page 3 falls back to PLAIN; 2 row groups
    dic = [b"aa", b"b", b"cccc", b""]
    for ver in (1, 2):
        def rg(rows_idx, plain_rows):
            rows = [None if i is None else dic[i] for i in rows_idx]
            half = len(rows_idx) // 2
            pages = []
            for seg in (rows_idx[:half], rows_idx[half:]):
                pages.append({"version": ver, "encoding": "DICT", "values": [i for i in seg if i is not None],
                              "def_levels": [0 if i is None else 1 for i in seg]})
            pages += _pages(plain_rows, 1, ver, True)
            return rows + plain_rows, {"num_rows": len(rows) + len(plain_rows), "columns": [
                {"path": ["a"], "codec": "SNAPPY", "dictionary": dic,
                 "dict_encoding": "PLAIN_DICTIONARY" if ver == 1 else "RLE_DICTIONARY", "pages": pages}]}
        e1, g1 = rg([0, 1, 2, 2, None, 1, 3, 3] + [2] * 20 + [None] * 9, [b"zz", None, b"y"])
        e2, g2 = rg([2, 2], [b"q"])
        spec = {"schema": [{"name": "a", "type": "BYTE_ARRAY", "repetition": "OPTIONAL", "converted_type": "UTF8"}],
                "row_groups": [g1, g2]}
        exp = e1 + e2
        cases.append(Case("dict-fallback-v%d" % ver, spec, {"a": exp}, {"a": [None if x is None else x.decode() for x in exp]}))
    # one entry dictionary: bit width 0
    spec = {"schema": [{"name": "a", "type": "DOUBLE", "repetition": "REQUIRED"}],
            "row_groups": [{"num_rows": 9, "columns": [{"path": ["a"], "dictionary": [2.5],
                                                       "pages": [{"version": 1, "encoding": "DICT", "values": [0] * 9}]}]}]}
    cases.append(Case("dict-width0", spec, {"a": [2.5] * 9}))
    # C. DELTA_BINARY_PACKED
    for t, bits in (("INT32", 32), ("INT64", 64)):
        for ver in (1, 2):
            for n, wide in ((1, False), (2, False), (33, False), (129, False), (300, False), (33, True), (300, True)):
                if wide:
                    vals = [rnd.randrange(-2 ** (bits - 1), 2 ** (bits - 1)) for _ in range(n)]
                else:
                    vals = [rnd.randrange(-1000, 1000)]
                    for _ in range(n - 1):
                        vals.append(vals[-1] + rnd.randrange(-500, 7000))
                spec = {"schema": [{"name": "a", "type": t, "repetition": "REQUIRED"}],
                        "row_groups": [{"num_rows": n, "columns": [{"path": ["a"], "codec": "ZSTD" if ver == 2 else "UNCOMPRESSED", "pages": [
                            {"version": ver, "encoding": "DELTA_BINARY_PACKED", "values": vals,
                             "delta": {"block_size": 128, "miniblocks": 4} if n != 129 else {"block_size": 256, "miniblocks": 8}}]}]}]}
                cases.append(Case("delta-%s-v%d-n%d%s" % (t, ver, n, "-wide" if wide else ""), spec, {"a": vals},
                                  fp_bad=BAD_DELTA if wide else (BAD_DELTA_V2 if ver == 2 and t == "INT64" else None)))
    # optional delta column with nulls, two pages, forced width
    rows = [None if i % 5 == 0 else i * i for i in range(90)]
    spec = {"schema": [{"name": "a", "type": "INT64", "repetition": "OPTIONAL"}],
            "row_groups": [{"num_rows": 90, "columns": [{"path": ["a"], "pages": _pages(
                rows, 2, 1, True, encoding="DELTA_BINARY_PACKED", delta={"force_widths": 20})}]}]}
    cases.append(Case("delta-optional-forced20", spec, {"a": rows}))
    # D. RLE booleans
    for ver in (1, 2):
        vals = [True] * 20 + [False, True, False] + [False] * 30
        spec = {"schema": [{"name": "a", "type": "BOOLEAN", "repetition": "REQUIRED"}],
                "row_groups": [{"num_rows": len(vals), "columns": [{"path": ["a"], "pages": [
                    {"version": ver, "encoding": "RLE", "values": vals}]}]}]}
        cases.append(Case("rle-bool-v%d" % ver, spec, {"a": vals}, fp_bad=BAD_RLE_BOOL_V1 if ver == 1 else None))
    # E. explicit level run structures, all-null page, empty strings
    rows = [None] * 16 + [5, None, 6, 7, None, None, 8, 9] + [None] * 10 + [1] * 14
    spec = {"schema": [{"name": "a", "type": "INT32", "repetition": "OPTIONAL", "converted_type": "INT_16",
                        "logical_type": {"INTEGER": {"bitWidth": 16, "isSigned": True}}}],
            "row_groups": [{"num_rows": len(rows), "columns": [{"path": ["a"], "pages": [
                {"version": 1, "encoding": "PLAIN", "values": [], "def_levels": [0] * 16, "def_runs": [("rle", 16)]},
                {"version": 1, "encoding": "PLAIN", "values": [x for x in rows[16:] if x is not None],
                 "def_levels": [0 if x is None else 1 for x in rows[16:]],
                 "def_runs": [("bp", 1), ("rle", 10), ("bp", 2)]}]}]}]}
    cases.append(Case("levels-explicit-runs", spec, {"a": rows}))
    # F. LIST<int64> and MAP<string,int64>, a row split over two v1 pages / v2 pages cut on a row boundary
    lrows = [[1, 2, 3], None, [], [4, None, 5], [6], [7, 8, 9, 10], [11]]
    vals, defs, reps = list_levels(lrows)
    lschema = [{"name": "l", "repetition": "OPTIONAL", "converted_type": "LIST", "logical_type": {"LIST": {}},
                "children": [{"name": "list", "repetition": "REPEATED",
                              "children": [{"name": "element", "type": "INT64", "repetition": "OPTIONAL"}]}]}]

    def cut(v, d, r, at, maxd):
        nv = sum(1 for x in d[:at] if x == maxd)
        return [{"values": v[:nv], "def_levels": d[:at], "rep_levels": r[:at]},
                {"values": v[nv:], "def_levels": d[at:], "rep_levels": r[at:]}]

    def triples(v, d, r, maxd):
        it = iter(v)
        return [(rr, dd, next(it) if dd == maxd else None) for rr, dd in zip(r, d)]

    for ver, at in ((1, 6), (1, 5), (2, 5)):
        pages = [dict(p, version=ver, encoding="PLAIN") for p in cut(vals, defs, reps, at, 3)]
        spec = {"schema": lschema, "row_groups": [{"num_rows": len(lrows), "columns": [
            {"path": ["l", "list", "element"], "codec": "SNAPPY", "pages": pages}]}]}
        cases.append(Case("list-v%d-cut%d" % (ver, at), spec, {}, {"l": lrows},
                          fp_bad=BAD_V2_NULLS if ver == 2 else None,
                          triples={("l", "list", "element"): triples(vals, defs, reps, 3)}))
    mrows = [[("a", 1), ("b", None)], None, [], [("c", 3)], [("d", 4), ("e", 5), ("f", 6)]]
    m = map_levels(mrows)
    mschema = [{"name": "m", "repetition": "OPTIONAL", "converted_type": "MAP", "logical_type": {"MAP": {}},
                "children": [{"name": "key_value", "repetition": "REPEATED", "children": [
                    {"name": "key", "type": "BYTE_ARRAY", "repetition": "REQUIRED", "converted_type": "UTF8"},
                    {"name": "value", "type": "INT64", "repetition": "OPTIONAL"}]}]}]
    for ver, at in ((1, 6), (1, 5), (2, 5)):
        cols = []
        tr = {}
        for nm, maxd in (("key", 2), ("value", 3)):
            v, d, r = m[nm]
            v = [x.encode() if isinstance(x, str) else x for x in v]
            cols.append({"path": ["m", "key_value", nm],
                         "pages": [dict(p, version=ver, encoding="PLAIN") for p in cut(v, d, r, at, maxd)]})
            tr[("m", "key_value", nm)] = triples(v, d, r, maxd)
        spec = {"schema": mschema, "row_groups": [{"num_rows": len(mrows), "columns": cols}]}
        fpe = {"m": [None if row is None else dict(row) for row in mrows]}
        cases.append(Case("map-v%d-cut%d" % (ver, at), spec, {}, fpe, fp_bad=BAD_V2_NULLS if ver == 2 else None, triples=tr))
    # struct (non repeated nesting): optional group with a required and an optional leaf
    spec = {"schema": [{"name": "g", "repetition": "OPTIONAL", "children": [
        {"name": "x", "type": "INT32", "repetition": "REQUIRED"}, {"name": "y", "type": "DOUBLE", "repetition": "OPTIONAL"}]}],
        "row_groups": [{"num_rows": 4, "columns": [
            {"path": ["g", "x"], "pages": [{"version": 1, "encoding": "PLAIN", "values": [1, 2, 3], "def_levels": [1, 0, 1, 1]}]},
            {"path": ["g", "y"], "pages": [{"version": 1, "encoding": "PLAIN", "values": [0.5, 1.5], "def_levels": [2, 0, 1, 2]}]}]}]}
    cases.append(Case("struct", spec, {"g.x": [1, None, 2, 3], "g.y": [0.5, None, None, 1.5]}, fp=False))
    # NaN and INT96 are only read back by pqspec
    spec = {"schema": [{"name": "d", "type": "DOUBLE", "repetition": "REQUIRED"}, {"name": "t", "type": "INT96", "repetition": "REQUIRED"}],
            "row_groups": [{"num_rows": 2, "columns": [
                {"path": ["d"], "statistics": "auto", "pages": [{"version": 1, "encoding": "PLAIN", "values": [float("nan"), 1.0], "page_stats": True}]},
                {"path": ["t"], "pages": [{"version": 2, "encoding": "PLAIN", "values": [bytes(range(12)), bytes(12)]}]}]}]}
    cases.append(Case("nan-int96", spec, {"d": [float("nan"), 1.0], "t": [bytes(range(12)), bytes(12)]}, fp=False))
    # BYTE_STREAM_SPLIT / DELTA_LENGTH_BYTE_ARRAY / DELTA_BYTE_ARRAY, pqspec only
    spec = {"schema": [{"name": "d", "type": "DOUBLE", "repetition": "REQUIRED"}, {"name": "s", "type": "BYTE_ARRAY", "repetition": "REQUIRED"},
                       {"name": "p", "type": "BYTE_ARRAY", "repetition": "OPTIONAL"}],
            "row_groups": [{"num_rows": 3, "columns": [
                {"path": ["d"], "pages": [{"version": 2, "encoding": "BYTE_STREAM_SPLIT", "values": [1.0, 2.5, -3.0]}]},
                {"path": ["s"], "pages": [{"version": 1, "encoding": "DELTA_LENGTH_BYTE_ARRAY", "values": [b"x", b"", b"yyy"]}]},
                {"path": ["p"], "pages": [{"version": 1, "encoding": "DELTA_BYTE_ARRAY", "values": [b"abc", b"abd"], "def_levels": [1, 0, 1]}]}]}]}
    cases.append(Case("other-encodings", spec, {"d": [1.0, 2.5, -3.0], "s": [b"x", b"", b"yyy"], "p": [b"abc", None, b"abd"]}, fp=False))
    # no row groups; no columns
    cases.append(Case("empty-file", {"schema": [{"name": "a", "type": "INT32", "repetition": "OPTIONAL"}], "row_groups": []}, {"a": []}))
    return cases


CASES = make_cases()
IDS = [c.name for c in CASES]
assert len(set(IDS)) == len(IDS)


def same(a, b):
    if len(a) != len(b):
        return False
    for x, y in zip(a, b):
        if isinstance(x, float) and isinstance(y, float) and math.isnan(x) and math.isnan(y):
            continue
        if x != y or (isinstance(x, bool) != isinstance(y, bool)):
            return False
    return True


@pytest.fixture(scope="module")
def built():
    return {c.name: build_file(c.spec) for c in CASES}


@pytest.fixture(scope="module")
def fp_results(built, module_scratch):
    return fpbox.read_bytes_many({c.name: built[c.name] for c in CASES if c.fp}, module_scratch)


@pytest.mark.parametrize("case", CASES, ids=IDS)
def test_writer_readback(case, built):
    data = built[case.name]
    assert data[:4] == b"PAR1" and data[-4:] == b"PAR1"
    view = read_file(data)
    assert view.problems == [], view.problems
    assert [w for w in view.warnings] == [], view.warnings
    for col, want in case.expected.items():
        assert same(view.column(col), want), col
    for path, want in (case.triples or {}).items():
        assert view.triples(path) == want
        assert view.chunks(path)[0].values is None
    assert view.meta["num_rows"] == sum(rg.get("num_rows", 0) for rg in case.spec["row_groups"])
    # determinism
    assert build_file(case.spec) == data


@pytest.mark.parametrize("case", [c for c in CASES if c.fp], ids=[c.name for c in CASES if c.fp])
def test_writer_fastparquet_reads(case, fp_results):
    res = fp_results[case.name]
    problem = None
    if "crash" in res:
        problem = "fastparquet crashed the interpreter (returncode %r)" % (res["crash"],)
    elif "error" in res:
        problem = "fastparquet raised " + res["error"]
    else:
        for col, want in case.fp_expected.items():
            got = res["columns"].get(col)
            want = [None if isinstance(x, float) and math.isnan(x) else x for x in want]
            if got is None or not same(got, want):
                problem = "fastparquet returned wrong values for %r: %r, expected %r" % (col, (got or [])[:8], want[:8])
                break
    if problem and case.fp_bad:
        pytest.xfail(case.fp_bad + " -- " + problem)
    assert problem is None, problem


def test_layout_and_options():
    lay = {}
    spec = {"schema": [{"name": "a", "type": "INT32", "repetition": "REQUIRED"}], "created_by": "pqspec 1.0", "version": 2,
            "kv": {"k": "v"}, "file_offset_mode": "metadata",
            "row_groups": [{"num_rows": 3, "columns": [{"path": ["a"], "dictionary": [7, 8], "dictionary_sorted": True,
                                                       "pages": [{"version": 1, "encoding": "DICT", "values": [0, 1, 0]}]}]}]}
    data = build_file(spec, layout=lay)
    view = read_file(data)
    assert view.problems == [] and view.warnings == []
    assert view.meta["created_by"] == b"pqspec 1.0" and view.meta["version"] == 2 and view.kv == {b"k": b"v"}
    ch = view.row_groups[0].chunks[0]
    assert ch.start == 4 == ch.meta["dictionary_page_offset"] and ch.meta["data_page_offset"] == ch.pages[1].offset
    assert ch.pages[0].header["dictionary_page_header"]["is_sorted"] is True
    assert ch.column["file_offset"] == ch.end                     # the ColumnMetaData copy sits behind the chunk
    assert lay["footer_start"] == view.footer_start and lay["row_groups"][0][0]["pages"][1]["offset"] == ch.pages[1].offset
    assert view.idl.enum_name("Encoding", ch.meta["encodings"][0]) == "PLAIN"
    assert {view.idl.enum_name("Encoding", e) for e in ch.meta["encodings"]} == {"PLAIN", "RLE_DICTIONARY"}


def test_reader_detects_corruptions():
    """The checks of read_file fire: flip things in a valid file."""
    rows = [1, None, 3, 4, None, 6, 7, 8]
    spec = {"schema": [{"name": "a", "type": "INT64", "repetition": "OPTIONAL"}],
            "row_groups": [{"num_rows": 8, "columns": [{"path": ["a"], "statistics": "auto", "codec": "SNAPPY",
                                                       "pages": _pages(rows, 2, 2, True, page_stats=True)}]}]}
    lay = {}
    good = build_file(spec, layout=lay)
    assert read_file(good).problems == []

    def codes(data, **kw):
        return read_file(bytes(data), **kw).codes()

    assert "E-MAGIC" in codes(b"PAR2" + good[4:])
    assert "E-MAGIC" in codes(good[:-1] + b"X")
    bad = bytearray(good)
    bad[-8:-4] = (int.from_bytes(good[-8:-4], "little") + 1).to_bytes(4, "little")
    assert codes(bad) and codes(bad)[0] in ("E-FOOTERLEN", "E-THRIFT")
    assert codes(good[:-8] + (10 ** 6).to_bytes(4, "little") + b"PAR1") == ["E-FOOTERLEN"]
    assert codes(b"PAR1") == ["E-MAGIC"]
    # rewrite the footer with altered metadata
    from harness.pqspec import compact, default_idl
    idl = default_idl()
    view = read_file(good)

    def with_meta(mut):
        meta, _ = compact.decode(good, view.footer_start, "FileMetaData", idl)
        mut(meta)
        foot = compact.encode("FileMetaData", meta, idl)
        return good[:view.footer_start] + foot + len(foot).to_bytes(4, "little") + b"PAR1"

    def cm(meta):
        return meta["row_groups"][0]["columns"][0]["meta_data"]

    assert codes(with_meta(lambda m: m.update(num_rows=9))) == ["E-ROWS"]
    assert "E-ROWS" in codes(with_meta(lambda m: m["row_groups"][0].update(num_rows=7)))
    assert codes(with_meta(lambda m: cm(m).update(num_values=9))) == ["E-NUMVALUES"]
    assert "E-SIZE" in codes(with_meta(lambda m: cm(m).update(total_compressed_size=cm(m)["total_compressed_size"] - 1)))
    assert codes(with_meta(lambda m: cm(m).update(total_uncompressed_size=5))) == ["E-SIZE"]
    assert codes(with_meta(lambda m: cm(m).update(data_page_offset=5))) != []
    assert codes(with_meta(lambda m: cm(m).update(encodings=[3]))) == ["E-ENCODINGS"]
    assert "E-CODEC" in codes(with_meta(lambda m: cm(m).update(codec=2)))
    assert codes(with_meta(lambda m: cm(m)["statistics"].update(null_count=3))) == ["E-NULLCOUNT"]
    assert codes(with_meta(lambda m: cm(m)["statistics"].update(max_value=(7).to_bytes(8, "little")))) == ["E-STATS"]
    assert codes(with_meta(lambda m: m["schema"][0].update(num_children=2))) [0] == "E-SCHEMA"
    assert "E-SCHEMA" in codes(with_meta(lambda m: m["schema"][1].update(type=1)))
    assert codes(with_meta(lambda m: cm(m).update(encoding_stats=[]))) == ["E-ENCODINGS"]
    # max definition level exceeded: make the column REQUIRED in the schema -> levels are read as values
    assert codes(with_meta(lambda m: m["schema"][1].update(repetition_type=0))) != []
    # flip a byte in the first page header's num_nulls (v2): header is at offset 4
    p0 = lay["row_groups"][0][0]["pages"][0]
    hdr, _ = compact.decode(good, p0["offset"], "PageHeader", idl)
    hdr["data_page_header_v2"]["num_nulls"] += 1
    hb = compact.encode("PageHeader", hdr, idl)
    assert len(hb) == p0["header_len"]
    assert "E-NULLCOUNT" in codes(good[:p0["offset"]] + hb + good[p0["offset"] + len(hb):])
    hdr["data_page_header_v2"]["num_nulls"] -= 1
    hdr["data_page_header_v2"]["num_rows"] += 1
    hb = compact.encode("PageHeader", hdr, idl)
    assert "E-ROWS" in codes(good[:p0["offset"]] + hb + good[p0["offset"] + len(hb):])
    # dictionary index out of range
    spec = {"schema": [{"name": "a", "type": "INT32", "repetition": "REQUIRED"}],
            "row_groups": [{"num_rows": 3, "columns": [{"path": ["a"], "dictionary": [7, 8, 9, 10],
                                                       "pages": [{"version": 1, "encoding": "DICT", "values": [0, 3, 0]}]}]}]}
    lay = {}
    good = build_file(spec, layout=lay)
    view = read_file(good)
    assert view.problems == []
    second = lay["row_groups"][0][0]["pages"][1]["offset"]
    assert codes(with_meta(lambda m: cm(m).update(data_page_offset=second + 1))) == ["E-OFFSET"]
    assert "E-DICT" in codes(with_meta(lambda m: cm(m).update(dictionary_page_offset=None)))
    d = bytearray(good)
    dp = lay["row_groups"][0][0]["pages"][0]
    hdr, _ = compact.decode(bytes(d), dp["offset"], "PageHeader", idl)
    hdr["dictionary_page_header"]["num_values"] = 3
    hdr["uncompressed_page_size"] = hdr["compressed_page_size"] = 12
    # same header length? num_values 4->3 and sizes 16->12 keep the varint lengths
    hb = compact.encode("PageHeader", hdr, idl)
    assert len(hb) == dp["header_len"]
    d[dp["offset"]:dp["offset"] + len(hb)] = hb
    got = codes(d)
    assert "E-DICT" in got or "E-TILING" in got or "E-THRIFT" in got
