import shutil
import tempfile
import warnings

import pytest

warnings.filterwarnings("ignore")


@pytest.fixture
def scratch():
    """Scratch directory /tmp/pqspec-*, removed afterwards."""
    d = tempfile.mkdtemp(prefix="pqspec-", dir="/tmp")
    try:
        yield d
    finally:
        shutil.rmtree(d, ignore_errors=True)


@pytest.fixture(scope="module")
def module_scratch():
    d = tempfile.mkdtemp(prefix="pqspec-", dir="/tmp")
    try:
        yield d
    finally:
        shutil.rmtree(d, ignore_errors=True)
