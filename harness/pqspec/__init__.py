"""pqspec: a small independent implementation of the Apache Parquet file format.

Written from the format specification (parquet-format: README, Encodings.md, LogicalTypes.md,
Compression.md), the Thrift compact protocol specification, and the IDL file parquet.thrift.
It deliberately shares no code with fastparquet and never imports it: it is the oracle against
which fastparquet is checked.

Modules
    idl        parser of parquet.thrift, wire types, TLA+ generator
    compact    Thrift compact protocol: tokenizer, IDL-aware strict decoder, canonical encoder
    encodings  PLAIN, bit packing, RLE/bit-packed hybrid, DELTA_BINARY_PACKED, levels, ...
    reader     read_file(): full structural walk of a file with consistency checks
    writer     build_file(): low level generator of valid files with full layout control
"""
import os

DEFAULT_IDL_PATH = os.environ.get("PQSPEC_IDL", "/repo/fastparquet/parquet.thrift")


class FormatError(Exception):
    """The bytes do not conform to the format."""


_idl_cache = {}


def default_idl(path=None):
    from .idl import parse_idl
    path = path or DEFAULT_IDL_PATH
    if path not in _idl_cache:
        _idl_cache[path] = parse_idl(path)
    return _idl_cache[path]
