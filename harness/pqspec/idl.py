"""Parser for the Thrift IDL file parquet.thrift, plus a TLA+ rendering of it.

Only the subset of the Thrift IDL grammar that parquet.thrift uses is supported:
namespace, typedef, enum, struct, union; base types; list<T>, set<T>, map<K,V>; field
requiredness; default values; C and C++ style comments.
"""
import os
import re
from dataclasses import dataclass, field as _dcfield

BASE_TYPES = ("bool", "i8", "byte", "i16", "i32", "i64", "double", "string", "binary")

# compact protocol type nibbles
CT_STOP = 0
CT_TRUE = 1
CT_FALSE = 2
CT_I8 = 3
CT_I16 = 4
CT_I32 = 5
CT_I64 = 6
CT_DOUBLE = 7
CT_BINARY = 8
CT_LIST = 9
CT_SET = 10
CT_MAP = 11
CT_STRUCT = 12

_WIRE = {"bool": CT_TRUE, "i8": CT_I8, "i16": CT_I16, "i32": CT_I32, "i64": CT_I64,
         "double": CT_DOUBLE, "string": CT_BINARY, "binary": CT_BINARY, "list": CT_LIST,
         "set": CT_SET, "map": CT_MAP, "struct": CT_STRUCT, "enum": CT_I32}


class IDLError(Exception):
    pass


@dataclass
class Field:
    """A struct field, or (with id 0 and name '') a bare type specification such as a list element."""
    name: str
    type: str                      # bool i8 i16 i32 i64 double string binary list set map struct enum
    required: bool = False
    elem: "Field" = None           # list/set element (or map value) type spec
    target: str = ""               # struct/union/enum name for struct and enum types
    id: int = 0
    default: object = None
    key: "Field" = None            # map key type spec

    def spec(self):
        if self.type in ("list", "set"):
            return "%s<%s>" % (self.type, self.elem.spec())
        if self.type == "map":
            return "map<%s,%s>" % (self.key.spec(), self.elem.spec())
        if self.type in ("struct", "enum"):
            return self.target
        return self.type


@dataclass
class IDL:
    path: str = ""
    structs: dict = _dcfield(default_factory=dict)     # name -> {id: Field}
    unions: set = _dcfield(default_factory=set)
    enums: dict = _dcfield(default_factory=dict)       # name -> {value: NAME}
    typedefs: dict = _dcfield(default_factory=dict)    # name -> Field (type spec)
    namespaces: dict = _dcfield(default_factory=dict)
    order: list = _dcfield(default_factory=list)       # struct names in declaration order

    def enum_value(self, enum, name):
        for v, n in self.enums[enum].items():
            if n == name:
                return v
        raise KeyError("%s.%s" % (enum, name))

    def enum_name(self, enum, value):
        return self.enums[enum].get(value)

    def field_by_name(self, struct, name):
        for f in self.structs[struct].values():
            if f.name == name:
                return f
        raise KeyError("%s.%s" % (struct, name))


_TOKEN = re.compile(r"""
    (?P<ws>\s+)
  | (?P<lc>//[^\n]*|\#[^\n]*)
  | (?P<bc>/\*.*?\*/)
  | (?P<str>"[^"]*"|'[^']*')
  | (?P<num>[-+]?(?:0x[0-9a-fA-F]+|\d+(?:\.\d+)?))
  | (?P<id>[A-Za-z_][A-Za-z0-9_.]*)
  | (?P<p>[{}<>():;,=\[\]])
""", re.X | re.S)


def _lex(text):
    out = []
    pos = 0
    while pos < len(text):
        m = _TOKEN.match(text, pos)
        if not m:
            raise IDLError("cannot tokenize IDL at offset %d: %r" % (pos, text[pos:pos + 20]))
        pos = m.end()
        k = m.lastgroup
        if k in ("ws", "lc", "bc"):
            continue
        out.append((k, m.group(k)))
    return out


class _Parser:
    def __init__(self, toks):
        self.t = toks
        self.i = 0

    def peek(self):
        return self.t[self.i] if self.i < len(self.t) else (None, None)

    def next(self):
        tok = self.peek()
        if tok[0] is None:
            raise IDLError("unexpected end of IDL")
        self.i += 1
        return tok

    def expect(self, val):
        k, v = self.next()
        if v != val:
            raise IDLError("expected %r, got %r" % (val, v))

    def accept(self, val):
        if self.peek()[1] == val:
            self.i += 1
            return True
        return False

    def ident(self):
        k, v = self.next()
        if k != "id":
            raise IDLError("expected identifier, got %r" % (v,))
        return v

    def sep(self):
        while self.accept(";") or self.accept(","):
            pass

    def type_spec(self):
        name = self.ident()
        if name in ("list", "set"):
            self.expect("<")
            e = self.type_spec()
            self.expect(">")
            return Field("", name, True, e)
        if name == "map":
            self.expect("<")
            k = self.type_spec()
            self.expect(",")
            v = self.type_spec()
            self.expect(">")
            return Field("", "map", True, v, key=k)
        if name == "byte":
            name = "i8"
        if name in BASE_TYPES:
            return Field("", name, True)
        return Field("", "?", True, target=name)       # resolved later

    def const_value(self):
        k, v = self.next()
        if k == "num":
            return float(v) if "." in v else int(v, 0)
        if k == "str":
            return v[1:-1]
        if k == "id":
            return {"true": True, "false": False}.get(v, v)
        raise IDLError("unsupported constant %r" % (v,))


def parse_idl(path):
    with open(path, "r", encoding="utf-8") as f:
        text = f.read()
    p = _Parser(_lex(text))
    idl = IDL(path=os.path.abspath(path))
    while p.peek()[0] is not None:
        kw = p.ident()
        if kw == "namespace":
            lang = p.ident()
            idl.namespaces[lang] = p.ident()
        elif kw == "include":
            p.next()
        elif kw == "typedef":
            ts = p.type_spec()
            idl.typedefs[p.ident()] = ts
        elif kw == "enum":
            name = p.ident()
            p.expect("{")
            vals = {}
            nxt = 0
            while not p.accept("}"):
                n = p.ident()
                if p.accept("="):
                    nxt = p.const_value()
                if nxt in vals:
                    raise IDLError("duplicate enum value %s.%s" % (name, n))
                vals[nxt] = n
                nxt += 1
                p.sep()
            idl.enums[name] = vals
        elif kw in ("struct", "union", "exception"):
            name = p.ident()
            p.expect("{")
            fields = {}
            while not p.accept("}"):
                k, v = p.next()
                if k != "num":
                    raise IDLError("struct %s: expected field id, got %r" % (name, v))
                fid = int(v, 0)
                p.expect(":")
                req = False
                if p.peek()[1] in ("required", "optional"):
                    req = p.next()[1] == "required"
                ts = p.type_spec()
                fname = p.ident()
                default = None
                if p.accept("="):
                    default = p.const_value()
                p.sep()
                if fid in fields:
                    raise IDLError("struct %s: duplicate field id %d" % (name, fid))
                if any(f.name == fname for f in fields.values()):
                    raise IDLError("struct %s: duplicate field name %s" % (name, fname))
                if kw == "union" and req:
                    raise IDLError("union %s: required field %s" % (name, fname))
                ts.name, ts.id, ts.required, ts.default = fname, fid, req, default
                fields[fid] = ts
            if name in idl.structs:
                raise IDLError("duplicate struct %s" % name)
            idl.structs[name] = fields
            idl.order.append(name)
            if kw == "union":
                idl.unions.add(name)
        else:
            raise IDLError("unsupported IDL construct %r" % kw)
        p.sep()
    # resolve named types
    def resolve(ts, where):
        if ts is None:
            return
        if ts.type == "?":
            n = ts.target
            seen = set()
            while n in idl.typedefs and n not in seen:
                seen.add(n)
                td = idl.typedefs[n]
                if td.type != "?":
                    ts.type, ts.elem, ts.key, ts.target = td.type, td.elem, td.key, td.target
                    break
                n = td.target
            if ts.type == "?":
                if n in idl.structs:
                    ts.type, ts.target = "struct", n
                elif n in idl.enums:
                    ts.type, ts.target = "enum", n
                else:
                    raise IDLError("%s: unknown type %s" % (where, n))
        resolve(ts.elem, where)
        resolve(ts.key, where)
    for td in idl.typedefs.values():
        resolve(td, "typedef")
    for sname, fields in idl.structs.items():
        for f in fields.values():
            resolve(f, "%s.%s" % (sname, f.name))
    return idl


def wire_type(field):
    """Compact protocol type nibble declared for this field (bool: 1, the 'true' nibble; 2 is equally bool)."""
    return _WIRE[field.type]


def wire_types(field):
    """All nibbles acceptable for the field."""
    w = wire_type(field)
    return (CT_TRUE, CT_FALSE) if w == CT_TRUE else (w,)


# ---------------------------------------------------------------------------------------------
# TLA+ generation


def _tla_str(s):
    return '"' + s.replace("\\", "\\\\").replace('"', '\\"') + '"'


def render_tla(idl, module="ParquetIDL"):
    lines = []
    lines.append("---- MODULE %s ----" % module)
    lines.append("(* Generated by harness.pqspec.idl.generate_tla from %s. Do not edit. *)" %
                 os.path.basename(idl.path))
    lines.append("(* wt: compact protocol wire type nibble (bool = 1; 2 is also bool). *)")
    lines.append("(* elemwt: wire type of list elements, 0 if not a list. target: struct name, or \"\". *)")
    lines.append("EXTENDS Naturals")
    lines.append("")
    recs = []
    for sname in idl.order:
        fields = idl.structs[sname]
        frs = []
        for fid in sorted(fields):
            f = fields[fid]
            elemwt = 0
            target = ""
            if f.type in ("list", "set"):
                elemwt = wire_type(f.elem)
                if f.elem.type == "struct":
                    target = f.elem.target
            elif f.type == "struct":
                target = f.target
            frs.append("[id |-> %d, name |-> %s, wt |-> %d, req |-> %s, elemwt |-> %d, target |-> %s]" % (
                fid, _tla_str(f.name), wire_type(f), "TRUE" if f.required else "FALSE", elemwt,
                _tla_str(target)))
        if frs:
            body = "{\n        " + ",\n        ".join(frs) + " }"
        else:
            body = "{}"
        recs.append("    %s |-> [ fields |-> %s ]" % (sname, body))
    lines.append("IDL == [")
    lines.append(",\n".join(recs))
    lines.append("]")
    lines.append("")
    lines.append("IDLUnions == {%s}" % ", ".join(_tla_str(u) for u in idl.order if u in idl.unions))
    lines.append("")
    lines.append("IDLStructNames == {%s}" % ", ".join(_tla_str(u) for u in idl.order))
    lines.append("")
    lines.append("====")
    return "\n".join(lines) + "\n"


def generate_tla(idl_path, out_path):
    idl = parse_idl(idl_path)
    module = os.path.splitext(os.path.basename(out_path))[0]
    text = render_tla(idl, module)
    d = os.path.dirname(os.path.abspath(out_path))
    os.makedirs(d, exist_ok=True)
    with open(out_path, "w", encoding="utf-8") as f:
        f.write(text)
    return out_path
