"""Thrift compact protocol (THRIFT-110), struct level: tokenizer, IDL-aware decoder, canonical encoder.

Wire format, from the protocol specification:

    struct        := field* 0x00
    field         := short | long
    short         := byte(dddd tttt)            dddd = field id delta 1..15, tttt = type nibble
    long          := byte(0000 tttt) zigzag-varint(field id, i16)
    bool field    := nibble 1 (true) / 2 (false); no value bytes
    i8            := one byte (two's complement)
    i16/i32/i64   := zigzag, then ULEB128 varint
    double        := 8 bytes IEEE 754, little endian
    binary/string := varint(length) bytes
    list/set      := byte(ssss tttt) [varint size if ssss = 15] elements
                     bool elements are one byte each: 1 true, 2 (or 0) false
    map           := varint(size) [byte(kkkk vvvv) if size > 0] (key value)*
"""
import struct as _struct

from . import FormatError
from .idl import (CT_STOP, CT_TRUE, CT_FALSE, CT_I8, CT_I16, CT_I32, CT_I64, CT_DOUBLE, CT_BINARY,
                  CT_LIST, CT_SET, CT_MAP, CT_STRUCT, wire_type, wire_types)

MAX_VARINT_BYTES = 10
MAX_DEPTH = 64

_INT_BITS = {CT_I8: 8, CT_I16: 16, CT_I32: 32, CT_I64: 64}


# ---------------------------------------------------------------------------------------------
# integers


def zigzag(n, bits=64):
    """Signed -> unsigned zigzag mapping: 0,-1,1,-2,... -> 0,1,2,3,..."""
    return (n << 1) if n >= 0 else ((-n << 1) - 1)


def unzigzag(u):
    return (u >> 1) if not (u & 1) else -((u + 1) >> 1)


def varint_encode(u):
    if u < 0:
        raise ValueError("varint of negative number")
    out = bytearray()
    while True:
        b = u & 0x7F
        u >>= 7
        if u:
            out.append(b | 0x80)
        else:
            out.append(b)
            return bytes(out)


def varint_decode(buf, pos=0, max_bytes=MAX_VARINT_BYTES):
    """-> (unsigned value, new position). FormatError if truncated or longer than max_bytes."""
    val = 0
    shift = 0
    n = 0
    while True:
        if pos >= len(buf):
            raise FormatError("truncated varint at %d" % pos)
        b = buf[pos]
        pos += 1
        n += 1
        val |= (b & 0x7F) << shift
        if not (b & 0x80):
            return val, pos
        shift += 7
        if n >= max_bytes:
            raise FormatError("varint longer than %d bytes at %d" % (max_bytes, pos - n))


# ---------------------------------------------------------------------------------------------
# generic reader: produces tokens and a generic tree in one pass


class _Reader:
    def __init__(self, buf, pos):
        self.buf = buf
        self.pos = pos
        self.tokens = []

    def byte(self):
        if self.pos >= len(self.buf):
            raise FormatError("truncated at %d" % self.pos)
        b = self.buf[self.pos]
        self.pos += 1
        return b

    def varint(self):
        start = self.pos
        v, self.pos = varint_decode(self.buf, self.pos)
        return v, self.pos - start

    def value(self, wt, depth, in_list):
        """Read a value of type wt; returns the generic tree value."""
        at = self.pos
        if wt in (CT_TRUE, CT_FALSE):
            if not in_list:
                return wt == CT_TRUE
            b = self.byte()
            if b not in (0, 1, 2):
                raise FormatError("bad bool list element %d at %d" % (b, at))
            v = b == 1
            self.tokens.append({"tok": "bool", "val": v, "raw": b, "pos": at})
            return v
        if wt == CT_I8:
            b = self.byte()
            v = b - 256 if b >= 128 else b
            self.tokens.append({"tok": "int", "wt": wt, "val": v, "nbytes": 1, "pos": at})
            return v
        if wt in (CT_I16, CT_I32, CT_I64):
            u, nb = self.varint()
            v = unzigzag(u)
            self.tokens.append({"tok": "int", "wt": wt, "val": v, "nbytes": nb, "pos": at})
            return v
        if wt == CT_DOUBLE:
            if self.pos + 8 > len(self.buf):
                raise FormatError("truncated double at %d" % at)
            v = _struct.unpack_from("<d", self.buf, self.pos)[0]
            self.pos += 8
            self.tokens.append({"tok": "double", "val": v, "pos": at})
            return v
        if wt == CT_BINARY:
            n, _nb = self.varint()
            if self.pos + n > len(self.buf):
                raise FormatError("truncated binary of length %d at %d" % (n, at))
            v = bytes(self.buf[self.pos:self.pos + n])
            self.pos += n
            self.tokens.append({"tok": "bin", "len": n, "val": v, "pos": at})
            return v
        if wt in (CT_LIST, CT_SET):
            h = self.byte()
            et = h & 0x0F
            n = h >> 4
            long = n == 15
            if long:
                n, _nb = self.varint()
            if et > CT_STRUCT or (et == CT_STOP and n):
                raise FormatError("bad list element type %d at %d" % (et, at))
            # element type 0 with zero elements is not a valid header either, but the reference
            # libraries read it without complaint; it is tokenized and left to the IDL layer to flag
            self.tokens.append({"tok": "list", "et": et, "n": n, "long": long, "set": wt == CT_SET,
                                "pos": at})
            if n > len(self.buf) - self.pos:
                # every element takes at least one byte
                raise FormatError("list of %d elements exceeds buffer at %d" % (n, at))
            items = [self.value(et, depth + 1, True) for _ in range(n)]
            return _List(et, items, long, wt == CT_SET)
        if wt == CT_MAP:
            n, _nb = self.varint()
            kt = vt = 0
            if n:
                h = self.byte()
                kt, vt = h >> 4, h & 0x0F
                for t in (kt, vt):
                    if t == CT_STOP or t > CT_STRUCT:
                        raise FormatError("bad map type %d at %d" % (t, at))
            self.tokens.append({"tok": "map", "kt": kt, "vt": vt, "n": n, "pos": at})
            if n > len(self.buf) - self.pos:
                raise FormatError("map of %d entries exceeds buffer at %d" % (n, at))
            items = []
            for _ in range(n):
                k = self.value(kt, depth + 1, True)
                v = self.value(vt, depth + 1, True)
                items.append((k, v))
            return _Map(kt, vt, items)
        if wt == CT_STRUCT:
            self.tokens.append({"tok": "struct_begin", "pos": at})
            return self.struct(depth + 1)
        raise FormatError("bad type nibble %d at %d" % (wt, at))

    def struct(self, depth=0):
        if depth > MAX_DEPTH:
            raise FormatError("nesting deeper than %d" % MAX_DEPTH)
        fields = []
        last = 0
        while True:
            at = self.pos
            b = self.byte()
            if b == 0:
                self.tokens.append({"tok": "stop", "pos": at})
                return _Struct(fields)
            delta = b >> 4
            wt = b & 0x0F
            if wt == CT_STOP or wt > CT_STRUCT:
                raise FormatError("bad type nibble %d in field header at %d" % (wt, at))
            if delta == 0:
                u, _nb = self.varint()
                fid = unzigzag(u)
            else:
                fid = last + delta
            self.tokens.append({"tok": "field", "id": fid, "delta": delta, "wt": wt, "pos": at})
            val = self.value(wt, depth, False)
            fields.append((fid, wt, val))
            last = fid


class _Struct:
    __slots__ = ("fields",)

    def __init__(self, fields):
        self.fields = fields       # list of (id, wt, value) in wire order


class _List:
    __slots__ = ("et", "items", "long", "is_set")

    def __init__(self, et, items, long, is_set):
        self.et, self.items, self.long, self.is_set = et, items, long, is_set


class _Map:
    __slots__ = ("kt", "vt", "items")

    def __init__(self, kt, vt, items):
        self.kt, self.vt, self.items = kt, vt, items


def tokenize(buf, pos=0):
    """Tokenize ONE struct starting at pos (without any IDL) up to and including its stop byte."""
    r = _Reader(buf, pos)
    r.struct()
    return r.tokens, r.pos


def parse_generic(buf, pos=0):
    """-> (generic tree, tokens, end)"""
    r = _Reader(buf, pos)
    tree = r.struct()
    return tree, r.tokens, r.pos


# ---------------------------------------------------------------------------------------------
# IDL-aware decode


def as_text(b, errors="strict"):
    return b.decode("utf-8", errors) if isinstance(b, (bytes, bytearray)) else b


def _conv(val, wt, ts, idl, where, problems):
    """Convert generic value (sent with wire type wt) to the declared type spec ts."""
    accept = wire_types(ts)
    if wt not in accept:
        problems.append("%s: wire type %d, IDL declares %s (wire type %d)" % (where, wt, ts.spec(), wire_type(ts)))
        return _plain(val)
    t = ts.type
    if t in ("i8", "i16", "i32", "i64", "enum"):
        bits = 32 if t == "enum" else int(t[1:])
        if not (-(1 << (bits - 1)) <= val < (1 << (bits - 1))):
            problems.append("%s: value %d out of range for %s" % (where, val, t))
        if t == "enum" and val not in idl.enums[ts.target]:
            problems.append("%s: %d is not a value of enum %s" % (where, val, ts.target))
        return val
    if t in ("list", "set"):
        if (t == "set") != val.is_set:
            problems.append("%s: list/set mismatch" % where)
        eaccept = wire_types(ts.elem)
        if val.et not in eaccept:
            problems.append("%s: list element wire type %d, IDL declares %s (wire type %d)" % (
                where, val.et, ts.elem.spec(), wire_type(ts.elem)))
            return [_plain(x) for x in val.items]
        return [_conv(x, val.et, ts.elem, idl, "%s[%d]" % (where, i), problems)
                for i, x in enumerate(val.items)]
    if t == "map":
        out = []
        for i, (k, v) in enumerate(val.items):
            out.append((_conv(k, val.kt, ts.key, idl, "%s{%d}key" % (where, i), problems),
                        _conv(v, val.vt, ts.elem, idl, "%s{%d}value" % (where, i), problems)))
        return out
    if t == "struct":
        return _conv_struct(val, ts.target, idl, where, problems)
    return val         # bool, double, string, binary


def _plain(val):
    if isinstance(val, _Struct):
        return {"#%d" % fid: _plain(v) for fid, _wt, v in val.fields}
    if isinstance(val, _List):
        return [_plain(x) for x in val.items]
    if isinstance(val, _Map):
        return [(_plain(k), _plain(v)) for k, v in val.items]
    return val


def _conv_struct(tree, struct_name, idl, where, problems):
    decl = idl.structs[struct_name]
    out = {}
    seen = set()
    for fid, wt, val in tree.fields:
        if fid in seen:
            problems.append("%s: field id %d of %s repeats" % (where, fid, struct_name))
        seen.add(fid)
        f = decl.get(fid)
        if f is None:
            problems.append("%s: field id %d (wire type %d) not declared in %s" % (where, fid, wt, struct_name))
            out["#%d" % fid] = _plain(val)
            continue
        out[f.name] = _conv(val, wt, f, idl, "%s.%s" % (where, f.name), problems)
    for fid, f in decl.items():
        if f.required and fid not in seen:
            problems.append("%s: required field %d %s of %s missing" % (where, fid, f.name, struct_name))
    if struct_name in idl.unions and len(seen) != 1:
        problems.append("%s: union %s has %d fields set" % (where, struct_name, len(seen)))
    return out


def decode(buf, pos, struct_name, idl, strict=True, problems=None, want_tokens=False):
    """Decode one struct of IDL type struct_name at pos -> (value dict, end).

    strict: raise FormatError on the first deviation from the IDL (undeclared field id, wire type
    other than declared, missing required field, repeated field id, out of range
    integer, unknown enum value, union without exactly one member).
    Non strict: deviations are appended to `problems` (a list) and decoding carries on; the
    offending values appear under '#<id>' keys (undeclared) or in generic form (mistyped).
    Malformed bytes (truncation, bad nibble, overlong varint) always raise FormatError.
    With want_tokens=True returns (value, end, tokens).
    """
    tree, tokens, end = parse_generic(buf, pos)
    probs = [] if problems is None else problems
    n0 = len(probs)
    val = _conv_struct(tree, struct_name, idl, struct_name, probs)
    if strict and len(probs) > n0:
        raise FormatError("; ".join(probs[n0:]))
    if want_tokens:
        return val, end, tokens
    return val, end


# ---------------------------------------------------------------------------------------------
# canonical encode


def _enc_value(ts, v, idl, where, in_list):
    t = ts.type
    if t == "bool":
        if in_list:
            return b"\x01" if v else b"\x02"
        return b""
    if t == "i8":
        if not -128 <= v < 128:
            raise ValueError("%s: %r out of range for i8" % (where, v))
        return bytes([v & 0xFF])
    if t in ("i16", "i32", "i64", "enum"):
        bits = 32 if t == "enum" else int(t[1:])
        if isinstance(v, str) and t == "enum":
            v = idl.enum_value(ts.target, v)
        if not (-(1 << (bits - 1)) <= v < (1 << (bits - 1))):
            raise ValueError("%s: %r out of range for %s" % (where, v, t))
        return varint_encode(zigzag(v))
    if t == "double":
        return _struct.pack("<d", v)
    if t in ("string", "binary"):
        if isinstance(v, str):
            v = v.encode("utf-8")
        return varint_encode(len(v)) + bytes(v)
    if t in ("list", "set"):
        v = list(v)
        et = wire_type(ts.elem)
        n = len(v)
        if n < 15:
            out = bytearray([(n << 4) | et])
        else:
            out = bytearray([0xF0 | et]) + varint_encode(n)
        for i, x in enumerate(v):
            out += _enc_value(ts.elem, x, idl, "%s[%d]" % (where, i), True)
        return bytes(out)
    if t == "map":
        items = list(v.items()) if isinstance(v, dict) else list(v)
        out = bytearray(varint_encode(len(items)))
        if items:
            out.append((wire_type(ts.key) << 4) | wire_type(ts.elem))
        for k, x in items:
            out += _enc_value(ts.key, k, idl, where + "{key}", True)
            out += _enc_value(ts.elem, x, idl, where + "{value}", True)
        return bytes(out)
    if t == "struct":
        return encode(ts.target, v, idl, _where=where)
    raise ValueError("%s: cannot encode type %s" % (where, t))


def encode(struct_name, value, idl, _where=None):
    """Canonical compact encoding: ascending field ids, short form headers whenever possible.

    `value` maps field names to values; None or absent means unset. Unknown names, and missing
    required fields, are ValueErrors. Enums may be given as ints or names.
    """
    where = _where or struct_name
    decl = idl.structs[struct_name]
    names = {f.name: f for f in decl.values()}
    for k in value:
        if k not in names:
            raise ValueError("%s: no field %r in %s" % (where, k, struct_name))
    out = bytearray()
    last = 0
    nset = 0
    for fid in sorted(decl):
        f = decl[fid]
        v = value.get(f.name)
        if v is None:
            if f.required:
                raise ValueError("%s: required field %s of %s missing" % (where, f.name, struct_name))
            continue
        nset += 1
        wt = wire_type(f)
        if f.type == "bool":
            wt = CT_TRUE if v else CT_FALSE
        delta = fid - last
        if 1 <= delta <= 15:
            out.append((delta << 4) | wt)
        else:
            out.append(wt)
            out += varint_encode(zigzag(fid))
        out += _enc_value(f, v, idl, "%s.%s" % (where, f.name), False)
        last = fid
    if struct_name in idl.unions and nset != 1:
        raise ValueError("%s: union %s needs exactly one member, got %d" % (where, struct_name, nset))
    out.append(0)
    return bytes(out)
