"""Hook-free I/O observation: recording (and fault-injecting) file objects and openers.

Every file-handle call becomes one event with a sequence number; events are appended to a shared list
in call order (the library is sequential, so call order is the linearisation order)."""
import builtins
import io
import os


class Fault(OSError):
    """Injected I/O failure."""


class Recorder:
    def __init__(self, root=None, fault_at=None, referenced=()):
        self.events = []
        self.root = root
        self.fault_at = fault_at          # fail the k-th *countable* filesystem call (1-based), None = never
        self.calls = 0                    # countable calls so far (open-for-write, write, close, mkdir, ...)
        self.referenced = set(referenced)

    def rel(self, path):
        path = os.fspath(path)
        if self.root and os.path.abspath(path).startswith(os.path.abspath(self.root) + os.sep):
            return os.path.relpath(path, self.root)
        if self.root and os.path.abspath(path) == os.path.abspath(self.root):
            return "."
        return path

    def emit(self, ev, **kw):
        d = {"seq": len(self.events) + 1, "ev": ev}
        d.update(kw)
        self.events.append(d)
        return d

    def countable(self, what, **kw):
        """A filesystem call at which a fault may be injected.  Raises Fault *instead of* performing it."""
        self.calls += 1
        if self.fault_at is not None and self.calls == self.fault_at:
            self.emit("fault", k=self.calls, what=what, **kw)
            raise Fault("injected fault at call %d (%s)" % (self.calls, what))
        return self.calls

    # ---- callables to hand to fastparquet ----
    def open_with(self, path, mode="rb"):
        return RecFile(self, path, mode)

    def mkdirs(self, path, exist_ok=True, **kw):
        self.countable("mkdir", path=self.rel(path))
        existed = os.path.isdir(path)
        os.makedirs(path, exist_ok=True)
        self.emit("mkdir", path=self.rel(path), existed=existed, k=self.calls)

    def remove_with(self, paths):
        if isinstance(paths, (str, os.PathLike)):
            paths = [paths]
        paths = list(paths)
        self.countable("remove", paths=[self.rel(p) for p in paths])
        for p in paths:
            os.remove(p)
        self.emit("remove", paths=[self.rel(p) for p in paths], k=self.calls)


def classify(data):
    n = len(data)
    if n == 4 and bytes(data) == b"PAR1":
        return "magic"
    return "other"


class RecFile:
    """A real file with every call recorded.  Opened lazily like builtins.open."""

    def __init__(self, rec, path, mode="rb"):
        self.rec = rec
        self.path = os.fspath(path)
        self.mode = mode
        self.writing = any(c in mode for c in "wa+x")
        rp = rec.rel(self.path)
        existed = os.path.exists(self.path)
        size0 = os.path.getsize(self.path) if existed else 0
        if self.writing:
            rec.countable("open", path=rp, mode=mode)
        self.f = builtins.open(self.path, mode)
        rec.emit("open", path=rp, mode=mode, existed=existed, size0=size0,
                 referenced=rp in rec.referenced, **({"k": rec.calls} if self.writing else {}))
        self.closed = False

    # context manager
    def __enter__(self):
        return self

    def __exit__(self, *a):
        self.close()
        return False

    def write(self, data):
        rp = self.rec.rel(self.path)
        at = self.f.tell()
        self.rec.countable("write", path=rp, at=at, n=len(data))
        n = self.f.write(data)
        self.rec.emit("write", path=rp, at=at, n=len(data), kind=classify(data), k=self.rec.calls,
                      u32=(int.from_bytes(bytes(data), "little") if len(data) == 4 else None))
        return n

    def read(self, n=-1):
        at = self.f.tell()
        d = self.f.read(n)
        self.rec.emit("read", path=self.rec.rel(self.path), at=at, n=len(d),
                      u32=(int.from_bytes(d, "little") if len(d) == 4 else None))
        return d

    def readinto(self, b):
        at = self.f.tell()
        n = self.f.readinto(b)
        self.rec.emit("read", path=self.rec.rel(self.path), at=at, n=n, u32=None)
        return n

    def seek(self, off, whence=0):
        r = self.f.seek(off, whence)
        self.rec.emit("seek", path=self.rec.rel(self.path), off=off, wh=whence, pos=r)
        return r

    def tell(self):
        return self.f.tell()

    def truncate(self, size=None):
        at = self.f.tell() if size is None else size
        r = self.f.truncate(size)
        self.rec.emit("truncate", path=self.rec.rel(self.path), size=at)
        return r

    def flush(self):
        return self.f.flush()

    def close(self):
        if self.closed:
            return
        rp = self.rec.rel(self.path)
        if self.writing:
            try:
                self.rec.countable("close", path=rp)
            except Fault:
                # the handle is still released so that the sandbox does not leak descriptors,
                # but the caller sees the failure
                self.closed = True
                self.f.close()
                raise
        self.closed = True
        self.f.close()
        self.rec.emit("close", path=rp, size=os.path.getsize(self.path) if os.path.exists(self.path) else -1,
                      **({"k": self.rec.calls} if self.writing else {}))

    def __getattr__(self, item):
        return getattr(self.f, item)


def make_fs(rec):
    """An fsspec local filesystem whose calls are recorded by `rec` (and can be faulted).

    Handing `fs.open` (a bound method of a real AbstractFileSystem) to fastparquet keeps the library on the same
    code paths as the default opener: ParquetFile finds the filesystem through open_with.__self__ and sets .fs,
    which _sort_part_names and remove_row_groups rely on."""
    from fsspec.implementations.local import LocalFileSystem

    class RecFS(LocalFileSystem):
        cachable = False

        def __init__(self):
            super().__init__()
            self.rec = rec

        def open(self, path, mode="rb", **kw):
            return RecFile(self.rec, self._strip_protocol(path), mode)

        def mv(self, path1, path2, **kw):
            p1, p2 = self._strip_protocol(path1), self._strip_protocol(path2)
            existed = os.path.exists(p2)
            self.rec.countable("rename", src=self.rec.rel(p1), dst=self.rec.rel(p2))
            os.rename(p1, p2)
            self.rec.emit("rename", src=self.rec.rel(p1), dst=self.rec.rel(p2), dst_existed=existed, k=self.rec.calls)

        rename = mv

        def rm(self, path, recursive=False, maxdepth=None):
            paths = [path] if isinstance(path, (str, os.PathLike)) else list(path)
            self.rec.remove_with([self._strip_protocol(p) for p in paths])

        def rm_file(self, path):
            self.rec.remove_with([self._strip_protocol(path)])

        def makedirs(self, path, exist_ok=False):
            self.rec.mkdirs(self._strip_protocol(path))

        def mkdirs(self, path, exist_ok=False):
            self.rec.mkdirs(self._strip_protocol(path))

    return RecFS()
