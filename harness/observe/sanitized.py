"""ASan + UBSan build of the extension modules from /repo's generated C files, and a runner for harness jobs
against that build (C12).  Everything lives in a scratch directory outside /repo and /verif."""
import glob
import os
import pickle
import re
import shutil
import subprocess
import sys
import sysconfig

from ..common import REPO, HOME

ASAN_RT = "/usr/lib/llvm-14/lib/clang/14.0.6/lib/linux/libclang_rt.asan-x86_64.so"
CHECKS = "address,undefined"


def build(workdir):
    """-> root directory containing a copy of the fastparquet package with sanitised extension modules"""
    import numpy
    root = os.path.join(workdir, "sanrepo")
    pkg = os.path.join(root, "fastparquet")
    shutil.copytree(os.path.join(REPO, "fastparquet"), pkg,
                    ignore=shutil.ignore_patterns("*.so", "test", "__pycache__", "*.pyc"))
    inc = ["-I" + sysconfig.get_paths()["include"], "-I" + numpy.get_include()]
    suffix = sysconfig.get_config_var("EXT_SUFFIX")
    stale = []
    procs = []
    for mod in ("cencoding", "speedups"):
        c = os.path.join(REPO, "fastparquet", mod + ".c")
        pyx = os.path.join(REPO, "fastparquet", mod + ".pyx")
        if not os.path.exists(c):
            raise RuntimeError("generated C file missing: %s" % c)
        if os.path.getmtime(pyx) > os.path.getmtime(c) + 1:
            stale.append(mod)
        cmd = ["clang", "-O1", "-g", "-fsanitize=" + CHECKS, "-fno-sanitize=alignment", "-fno-omit-frame-pointer",
               "-fsanitize-recover=undefined", "-shared", "-fPIC", "-w"] + inc + [c, "-o", os.path.join(pkg, mod + suffix)]
        procs.append((mod, subprocess.Popen(cmd, stdout=subprocess.PIPE, stderr=subprocess.STDOUT, text=True)))
    for mod, p in procs:
        out, _ = p.communicate()
        if p.returncode != 0:
            raise RuntimeError("sanitizer build of %s failed:\n%s" % (mod, out[-2000:]))
    return root, stale


def run_job(root, workdir, func, args, timeout=900):
    """run harness function `module:function`(args) in a fresh interpreter with the ASan runtime preloaded.
    -> (returncode, result or None, stderr text)"""
    jobf = os.path.join(workdir, "sanjob-%d.pkl" % (abs(hash((func, repr(args)[:200]))) % 10 ** 9))
    resf = jobf + ".out"
    with open(jobf, "wb") as f:
        pickle.dump((func, args), f)
    env = dict(os.environ)
    env.update(VERIF_REPO=root, VERIF_HOME=HOME, PYTHONPATH=HOME, LD_PRELOAD=ASAN_RT, PYTHONHASHSEED="0", VERIF_SAN_MARK="1",
               ASAN_OPTIONS="detect_leaks=0:abort_on_error=0:halt_on_error=1:allocator_may_return_null=1",
               UBSAN_OPTIONS="print_stacktrace=0:halt_on_error=0", PYTHONMALLOC="malloc")
    p = subprocess.run([sys.executable, "-m", "harness.observe.sanrun", jobf, resf], env=env, cwd=HOME,
                       stdout=subprocess.PIPE, stderr=subprocess.PIPE, text=True, timeout=timeout)
    res = None
    if os.path.exists(resf):
        try:
            with open(resf, "rb") as f:
                res = pickle.load(f)
        except Exception:
            res = None
        os.remove(resf)
    os.remove(jobf)
    return p.returncode, res, p.stderr


_PYX = re.compile(r'/\* "fastparquet/(\w+)\.pyx":(\d+)')


class CMap:
    """C line of the generated file -> (pyx file, pyx line, enclosing def name)"""

    def __init__(self):
        self.maps = {}
        for mod in ("cencoding", "speedups"):
            lines = open(os.path.join(REPO, "fastparquet", mod + ".c"), errors="replace").read().splitlines()
            cur = None
            m = []
            for ln in lines:
                mm = _PYX.search(ln)
                if mm:
                    cur = (mm.group(1), int(mm.group(2)))
                m.append(cur)
            self.maps[mod] = m
            pyx = open(os.path.join(REPO, "fastparquet", mod + ".pyx"), errors="replace").read().splitlines()
            self.maps[mod + ".pyx"] = pyx

    def where(self, cfile, cline):
        mod = os.path.basename(cfile).split(".")[0]
        m = self.maps.get(mod)
        if not m or cline - 1 >= len(m) or m[cline - 1] is None:
            return None
        pyxmod, pl = m[cline - 1]
        src = self.maps.get(pyxmod + ".pyx", [])
        fn = None
        for i in range(min(pl, len(src)) - 1, -1, -1):
            mm = re.match(r"\s*(?:cpdef|cdef|def)\s+(?:[\w\[\]:, ]+\s+)?(\w+)\s*\(", src[i])
            if mm and not src[i].startswith("    " * 2):
                fn = mm.group(1)
                break
        return {"pyx": pyxmod + ".pyx", "line": pl, "function": fn}


def reports(stderr, cmap):
    """sanitizer reports attributable to fastparquet's own code: list of dicts(kind, function, pyx_line, text)"""
    out = []
    for m in re.finditer(r"(\S+\.c):(\d+):\d+: runtime error: ([^\n]*)", stderr):
        w = cmap.where(m.group(1), int(m.group(2)))
        if w is None or w["function"] is None:
            continue          # Cython boilerplate, not the library's code
        kind = re.sub(r"-?\d+", "N", m.group(3))
        kind = re.sub(r"0x[0-9a-f]+", "ADDR", kind)[:80]
        out.append({"tool": "ubsan", "kind": kind, "function": w["function"], "pyx_line": w["line"]})
    for m in re.finditer(r"ERROR: AddressSanitizer: ([\w-]+)[^\n]*\n((?:[^\n]*\n){0,14})", stderr):
        fn = None
        mm = re.search(r"in (__pyx_\w+)", m.group(2))
        if mm:
            fn = re.sub(r"^__pyx_(?:f|pf|pw)_\d+fastparquet_\d+\w*?_\d*", "", mm.group(1))
            fn = mm.group(1)
        out.append({"tool": "asan", "kind": m.group(1), "function": _short(fn), "pyx_line": None})
    return out


def _short(sym):
    if not sym:
        return None
    m = re.search(r"fastparquet_\d+(?:cencoding|speedups)_(?:\d+)?(\w+)$", sym)
    return m.group(1) if m else sym
