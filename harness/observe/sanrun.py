"""python -m harness.observe.sanrun <jobfile> <resultfile>: run one harness function against the tree in VERIF_REPO"""
import importlib
import pickle
import sys


def main():
    jobf, resf = sys.argv[1], sys.argv[2]
    with open(jobf, "rb") as f:
        func, args = pickle.load(f)
    modname, fname = func.split(":")
    mod = importlib.import_module(modname)
    res = getattr(mod, fname)(args)
    with open(resf, "wb") as f:
        pickle.dump(res, f)


if __name__ == "__main__":
    main()
