"""Deterministic two-thread scheduler built on sys.settrace (no source hooks).

Thread A runs with a trace function; every 'line' event (or every opcode) in a frame of the library under test is a
potential preemption point.  At the chosen point A parks, thread B runs its whole operation, then A resumes.  The
interleaving is a function of (A, B, point) only, so every finding is replayable."""
import sys
import threading

from ..common import REPO

PREFIX = REPO.rstrip("/") + "/fastparquet/"


class Outcome:
    def __init__(self):
        self.value = None
        self.exc = None

    def run(self, fn):
        try:
            self.value = fn()
        except BaseException as e:  # noqa
            self.exc = e

    @property
    def tag(self):
        return "ok" if self.exc is None else type(self.exc).__name__


def _tracer(state, opcodes):
    def local(frame, event, arg):
        if event == "line" or (opcodes and event == "opcode"):
            state["n"] += 1
            if state["n"] == state["at"]:
                state["where"] = "%s:%d" % (frame.f_code.co_filename[len(PREFIX):], frame.f_lineno)
                if state.get("sample"):
                    try:
                        state["sampled"] = state["sample"]()
                    except BaseException as e:  # noqa
                        state["sampled"] = "sample failed: %r" % (e,)
                state["go_b"].set()
                state["b_done"].wait(120)
        return local

    def glob(frame, event, arg):
        if event == "call" and frame.f_code.co_filename.startswith(PREFIX):
            if opcodes:
                frame.f_trace_opcodes = True
            return local
        return None
    return glob


def count_points(fn_a, opcodes=False):
    """number of preemption points of fn_a when run alone"""
    state = {"n": 0, "at": -1}
    out = Outcome()

    def body():
        sys.settrace(_tracer(state, opcodes))
        try:
            out.run(fn_a)
        finally:
            sys.settrace(None)
    t = threading.Thread(target=body)
    t.start()
    t.join()
    return state["n"], out


def run_preempted(fn_a, fn_b, at, opcodes=False, sample=None):
    """Run fn_a; at its `at`-th preemption point run fn_b to completion on another thread; then finish fn_a."""
    state = {"n": 0, "at": at, "go_b": threading.Event(), "b_done": threading.Event(), "sample": sample}
    oa, ob = Outcome(), Outcome()

    def body_a():
        sys.settrace(_tracer(state, opcodes))
        try:
            oa.run(fn_a)
        finally:
            sys.settrace(None)
            state["go_b"].set()      # if the point was never reached, B runs after A

    def body_b():
        state["go_b"].wait(120)
        try:
            ob.run(fn_b)
        finally:
            state["b_done"].set()
    ta, tb = threading.Thread(target=body_a), threading.Thread(target=body_b)
    ta.start()
    tb.start()
    ta.join(180)
    tb.join(180)
    return oa, ob, {"where": state.get("where"), "reached": state["n"] >= at, "sampled": state.get("sampled")}
