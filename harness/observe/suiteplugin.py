"""pytest plugin (no change to /repo): observes every fastparquet.write(...) the repository's own test-suite makes.

Loaded with  `-p harness.observe.suiteplugin`  and PYTHONPATH=/verif:<tree>.  fastparquet.writer.write (and the name
re-exported as fastparquet.write) is wrapped BEFORE the test modules are imported; a call on a local path that does not
bring its own opener is run with a recording filesystem (iorec.make_fs: the same code paths as the default opener) and
one JSON record per call is appended to $VERIF_SUITE_LOG:

  test, kind (write | append | overwrite), scheme, rows_in, raised,
  pre / post : what a fresh open finds (rows, or the exception) and size + sha1 of every file under the dataset,
  events     : the filesystem calls (open modes, writes as byte counts, renames, removals, mkdirs).

The records are judged by harness/checks/suite.py against the contract clauses of spec/Dataset.tla and
spec/SingleFile.tla that are statements about one call and its before/after states."""
import functools
import hashlib
import json
import os


def _files(root):
    out = {}
    if os.path.isfile(root):
        paths = [root]
        base = os.path.dirname(root)
    else:
        base = root
        paths = [os.path.join(r, f) for r, _, fs in os.walk(root) for f in fs]
    for p in paths:
        try:
            with open(p, "rb") as f:
                data = f.read()
        except OSError:
            continue
        rec = {"size": len(data), "sha1": hashlib.sha1(data).hexdigest()}
        if len(data) >= 12 and data[-4:] == b"PAR1":
            n = int.from_bytes(data[-8:-4], "little")
            if 0 < n <= len(data) - 12:
                # the data region of a single file: everything before its footer
                rec["body_sha1"] = hashlib.sha1(data[:len(data) - 8 - n]).hexdigest()
                rec["body_len"] = len(data) - 8 - n
        out[os.path.relpath(p, base)] = rec
    return out


def _state(fp, path):
    st = {"exists": os.path.exists(path), "rows": None, "exc": None, "files": {}}
    if not st["exists"]:
        return st
    st["files"] = _files(path)
    try:
        pf = fp.ParquetFile(path)
        st["rows"] = int(pf.count())
        st["row_groups"] = len(pf.row_groups)
        st["referenced"] = sorted({rg.columns[0].file_path for rg in pf.row_groups if rg.columns and rg.columns[0].file_path})
    except BaseException as e:  # noqa
        st["exc"] = type(e).__name__
    return st


def pytest_configure(config):
    log = os.environ.get("VERIF_SUITE_LOG")
    if not log:
        return
    import fastparquet
    import fastparquet.writer as W
    from harness.observe.iorec import Recorder, make_fs
    orig = W.write

    @functools.wraps(orig)
    def write(filename, data, *args, **kw):
        plain = (isinstance(filename, str) and not args and "open_with" not in kw and "mkdirs" not in kw
                 and "://" not in filename and kw.get("fs") is None)
        if not plain:
            return orig(filename, data, *args, **kw)
        append = kw.get("append", False)
        kind = "overwrite" if append == "overwrite" else ("append" if append else "write")
        pre = _state(fastparquet, filename) if kind != "write" else {"exists": os.path.exists(filename)}
        pre_bytes = None
        if kind == "append" and os.path.isfile(filename):
            with open(filename, "rb") as f0:
                pre_bytes = f0.read()
        isdir = os.path.isdir(filename) or kw.get("file_scheme", "simple") != "simple"
        rec = Recorder(root=filename if isdir else os.path.dirname(os.path.abspath(filename)))
        fs = make_fs(rec)
        raised = None
        try:
            return orig(filename, data, open_with=fs.open, mkdirs=rec.mkdirs, **kw)
        except BaseException as e:  # noqa
            raised = e
            raise
        finally:
            try:
                post = _state(fastparquet, filename)
                evs = []
                for e in rec.events:
                    d = {k: e[k] for k in ("ev", "path", "mode", "src", "dst", "paths", "n", "kind") if k in e}
                    evs.append(d)
                rows_in = None
                try:
                    rows_in = int(len(data))
                except Exception:  # noqa
                    pass
                part = kw.get("partition_on") or []
                if pre_bytes is not None and os.path.isfile(filename):
                    n0 = pre["files"].get(os.path.basename(filename), {}).get("body_len")
                    if n0 is not None:
                        with open(filename, "rb") as f1:
                            post["old_body_intact"] = f1.read(n0) == pre_bytes[:n0]
                with open(log, "a") as f:
                    f.write(json.dumps({"test": os.environ.get("PYTEST_CURRENT_TEST", "?"), "kind": kind,
                                        "scheme": kw.get("file_scheme", "simple"), "rows_in": rows_in,
                                        "partitioned": bool(part), "raised": type(raised).__name__ if raised else None,
                                        "pre": pre, "post": post, "events": evs,
                                        "name": os.path.basename(filename)}) + "\n")
            except BaseException:  # noqa  (observation must never change the outcome of a test)
                pass

    W.write = write
    fastparquet.write = write
