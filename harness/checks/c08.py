"""C08 - directory-partitioned write/read preserves every row and every partition value (spec/Partition.tla)."""
import json
import os
import shutil
import traceback

from ..common import Timer, scratch, HOME, use_repo
from ..evidence import Evidence
from ..findings import Verdicts
from ..parallel import pmap, Crashed
from .. import tlc as T
from ..pqspec import reader as PR

PID = "C08"
NULLK, NOCOL = -1, -9

# concrete partition values per kind for abstract keys 1..3
KINDS = {
    "int": lambda k: [None, 7, 42, -3][k],
    "float": lambda k: [None, 0.5, 2.25, -1.75][k],
    "bool": lambda k: [None, True, False, True][k],
    "datetime": lambda k: __import__("pandas").Timestamp(["", "2020-01-02", "2021-03-04 05:06:07", "1999-12-31"][k]),
    # keys that differ only below the microsecond / only in the microsecond (Partition.tla: TextInjective)
    "datetime_ns": lambda k: __import__("pandas").Timestamp(["", "2021-03-04 05:06:07.000000007", "2021-03-04 05:06:07.000000008",
                                                             "2021-03-04 05:06:07.000001"][k]),
    "str": lambda k: [None, "alpha", "b c", "Zeta-9"][k],
    "numstr": lambda k: [None, "007", "42", "1e3"][k],
    "cat": lambda k: [None, "ca", "cb", "cc"][k],
}


def concrete_frame(pd, case, kind1, kind2, kind3="str"):
    import numpy as np
    rows = case["frame"]
    n = len(rows)
    def colvals(kind, ks):
        vals = [None if k == NULLK else KINDS[kind](k) for k in ks]
        if kind == "int":
            return pd.array(vals, dtype="Int64") if any(v is None for v in vals) else pd.Series(vals, dtype="int64")
        if kind == "float":
            return pd.Series([np.nan if v is None else v for v in vals], dtype="float64")
        if kind == "bool":
            return pd.array(vals, dtype="boolean") if any(v is None for v in vals) else pd.Series(vals, dtype="bool")
        if kind in ("datetime", "datetime_ns"):
            return pd.Series([pd.NaT if v is None else v for v in vals], dtype="datetime64[ns]")
        if kind == "cat":
            return pd.Categorical(vals, categories=["ca", "cb", "cc", "unused"])
        return pd.Series(vals, dtype=object)
    df = pd.DataFrame({"rid": pd.Series(range(n), dtype="int64") * 3 + 9000,
                       "v": pd.Series(["val%03d" % i for i in range(n)], dtype="str")})
    df["p1"] = colvals(kind1, [r[0] for r in rows])
    npc = 1 + sum(1 for j in (1, 2) if rows and len(rows[0]) > j and rows[0][j] != NOCOL)
    if npc >= 2:
        df["p2"] = colvals(kind2, [r[1] for r in rows])
    if npc >= 3:
        df["p3"] = colvals(kind3, [r[2] for r in rows])
    ixk = case.get("index", "range")
    if ixk == "repeated":
        df.index = pd.Index([i // 2 for i in range(n)])            # every label twice: selecting by label is ambiguous
    elif ixk == "shuffled":
        df.index = pd.Index([(i * 3 + 1) % max(n, 1) if n % 3 else n - 1 - i for i in range(n)])
    return df, ["p1", "p2", "p3"][:npc]


def same_value(kind, got, want):
    import pandas as pd
    if kind in ("datetime", "datetime_ns"):
        try:
            return pd.Timestamp(got) == want
        except Exception:
            return False
    if kind in ("str", "numstr", "cat"):
        return isinstance(got, str) and got == want
    if kind == "bool":
        return isinstance(got, (bool,)) or str(type(got).__name__).startswith("bool") and bool(got) == want if False else (bool(got) == want and str(got) in ("True", "False"))
    if kind == "int":
        return not isinstance(got, (str, float)) and int(got) == want
    if kind == "float":
        return not isinstance(got, str) and float(got) == want
    return False


def replay_chunk(args):
    jid, cases, kinds, base = args
    fp = use_repo()
    import pandas as pd
    out = {"jid": jid, "viol": [], "evals": 0, "drift": []}
    d = os.path.join(base, "p%d" % jid)
    shutil.rmtree(d, ignore_errors=True)      # a re-run of this job (after a time-out) starts clean
    os.makedirs(d)
    try:
        for ci, case in enumerate(cases):
            for scheme in ("hive", "drill"):
                for kk_ in kinds:
                    k1, k2, k3 = (tuple(kk_) + ("str",))[:3]
                    df, pcols = concrete_frame(pd, case, k1, k2, k3)
                    path = os.path.join(d, "c%d-%s-%s-%s-%s" % (ci, scheme, k1, k2, k3))
                    sig = {"scheme": scheme, "kinds": [k1, k2, k3][:len(pcols)], "partition_columns": len(pcols),
                           "row_labels": case.get("index", "range")}
                    out["evals"] += 1
                    try:
                        fp.write(path, df, file_scheme=scheme, partition_on=pcols, row_group_offsets=list(case["offs"]),
                                 write_index=False)
                    except BaseException as e:  # noqa
                        kept = [r for r in case["frame"] if NULLK not in r[:len(pcols)]]
                        if not kept:
                            continue       # nothing to write: refusing is fine
                        offs_ = list(case["offs"]) + [len(case["frame"])]
                        if any(all(NULLK in r[:len(pcols)] for r in case["frame"][a:b]) for a, b in zip(offs_[:-1], offs_[1:])):
                            out["drift"].append("write refused: a row group holds only rows with missing partition keys "
                                                "(pandas groupby raises for an empty categorical grouping)")
                            continue
                        out["viol"].append((dict(sig, what="partitioned write raised", exc=type(e).__name__), ci))
                        continue
                    # ---- directory tree against the specification's files ----
                    real = {}
                    for root, _, fns in os.walk(path):
                        for fn in fns:
                            if fn.endswith(".parquet"):
                                rel = os.path.relpath(os.path.join(root, fn), path)
                                fv = PR.read_file(open(os.path.join(root, fn), "rb").read(), strict=False)
                                real[rel] = sorted(fv.column("rid")) if not fv.problems else None
                    # expectation from the specification's files only (no function of the tree under test is used):
                    # one file per (concrete key tuple, chunk); abstract keys with the same concrete value (bool 1 and 3) merge
                    want = {}
                    for f in case["files"]:
                        ck = tuple(repr(KINDS[kind](kk)) for kk, kind in zip(f["key"][:len(pcols)], (k1, k2, k3)))
                        want.setdefault((ck, f["part"]), [])
                        want[(ck, f["part"])] = sorted(want[(ck, f["part"])] + [9000 + 3 * (r - 1) for r in f["rows"]])
                    if None in real.values():
                        out["viol"].append((dict(sig, what="a part file is not a valid parquet file"), ci))
                        continue
                    if sorted(sum(real.values(), [])) != sorted(sum(want.values(), [])):
                        out["viol"].append((dict(sig, what="rows lost or duplicated across part files"), ci))
                        continue
                    if sorted(real.values()) != sorted(want.values()):
                        out["viol"].append((dict(sig, what="rows grouped into part files differently from their key values"), ci))
                        continue
                    # directory <-> key value must be one to one, the file name must carry the chunk number
                    rid2key = {rid: key for key, rids in want.items() for rid in rids}
                    dir_of, key_of, badname = {}, {}, False
                    for rel, rids in real.items():
                        (ck, part) = rid2key[rids[0]]
                        dname = os.path.dirname(rel)
                        dir_of.setdefault(ck, set()).add(dname)
                        key_of.setdefault(dname, set()).add(ck)
                        if os.path.basename(rel) != "part.%d.parquet" % part:
                            badname = True
                        segs = dname.split("/")
                        if len(segs) != len(pcols) or (scheme == "hive" and any(not sg.startswith(pc + "=") for sg, pc in zip(segs, pcols))):
                            badname = True
                    if any(len(v) != 1 for v in dir_of.values()) or any(len(v) != 1 for v in key_of.values()):
                        out["viol"].append((dict(sig, what="rows stored under a different directory than their key values"), ci))
                        continue
                    if badname:
                        out["viol"].append((dict(sig, what="part file or directory not named after chunk number / column=value"), ci))
                        continue
                    # ---- read back ----
                    try:
                        pf = fp.ParquetFile(path)
                        got = pf.to_pandas()
                    except BaseException as e:  # noqa
                        if not case["files"]:
                            continue
                        out["viol"].append((dict(sig, what="partitioned dataset cannot be read back", exc=type(e).__name__), ci))
                        continue
                    kept = [(i, r) for i, r in enumerate(case["frame"]) if NULLK not in r[:len(pcols)]]
                    if not kept:
                        continue
                    if sorted(int(x) for x in got["rid"]) != sorted(9000 + 3 * i for i, _ in kept):
                        out["viol"].append((dict(sig, what="multiset of rows changed on read-back"), ci))
                        continue
                    byrid = {int(r["rid"]): r for _, r in got.iterrows()}
                    names = pcols if scheme == "hive" else ["dir%d" % i for i in range(len(pcols))]
                    if [c for c in names if c not in got.columns]:
                        out["viol"].append((dict(sig, what="partition columns not reconstructed under their names",
                                                 columns=[str(c) for c in got.columns]), ci))
                        continue
                    for i, r in kept:
                        row = byrid[9000 + 3 * i]
                        if str(row["v"]) != "val%03d" % i:
                            out["viol"].append((dict(sig, what="value column misaligned with the row"), ci))
                            break
                        okrow = True
                        for nm, kk, kind in zip(names, r, (k1, k2, k3)):
                            wantv = KINDS[kind](kk)
                            gv = row[nm]
                            if scheme == "drill":
                                # without metadata the directory text is parsed back by val_to_num: accept its reading
                                parsed = fp.util.val_to_num("%s" % (wantv,))
                                numeq = False
                                try:
                                    numeq = not isinstance(parsed, str) and float(gv) == float(parsed)
                                except Exception:
                                    pass
                                if str(gv) not in (str(wantv), "%s" % (wantv,), str(parsed)) and not numeq \
                                        and not same_value(kind, gv, wantv):
                                    okrow = False
                            elif not same_value(kind, gv, wantv):
                                okrow = False
                                out["viol"].append((dict(sig, what="partition value or its kind changed on read-back",
                                                         kind=kind, got_type=type(gv).__name__), ci))
                                break
                        if not okrow:
                            if scheme == "drill":
                                out["viol"].append((dict(sig, what="drill directory text not returned"), ci))
                            break
                    shutil.rmtree(path, ignore_errors=True)
    except BaseException:  # noqa
        out["error"] = traceback.format_exc()
    finally:
        shutil.rmtree(d, ignore_errors=True)
    return out


def export(work, tag, **consts):
    cfg = os.path.join(work, "part-%s.cfg" % tag)
    c = {k: ("<- " + v if isinstance(v, str) else v) for k, v in consts.items()}
    c.setdefault("PathTimePrecision", "ns")
    c.setdefault("KeyVals3", "<- One")
    c.setdefault("IndexKinds", "<- IxAll")
    T.write_cfg(cfg, spec="Spec", constants=c, invariants=["RowsRoutedToTheirKeyDirectory", "MultisetPreserved",
                                                           "NoEmptyFile", "KindPreservedWithMeta", "TextInjective",
                                                           "TextParsesBack", "Export"], check_deadlock=False)
    res = T.run_tlc("PartitionMC", cfg, work, timeout=3000, coverage=True)
    if not res.ok:
        raise T.TLCError("Partition model violates %s\n%s" % (res.violated, res.out[-1500:]))
    return res.printed_json(), res


def run(tier, seed):
    t = Timer()
    ev = Evidence(PID, tier, seed, "model_checking")
    ev.assumptions = ["partition values are legal single path segments; abstract keys 1..3 are concretised per kind "
                      "(int, float, bool, datetime, str, numeric-looking str, categorical with an unused category)",
                      "part files are projected by the independent reader pqspec", "row order across partitions is not compared"]
    with scratch() as work:
        rc = _run(ev, work, tier == "thorough")
    ev.write(t.s())
    return rc


def _run(ev, work, thorough):
    # model sensitivity: a path text that drops the sub-microsecond part is not injective
    cfg = os.path.join(work, "part-mut.cfg")
    T.write_cfg(cfg, spec="Spec", constants=dict(NRows=1, KeyVals="<- K2", KeyVals2="<- One", Offsets="<- Offs4", KeyVals3="<- One",
                                                 PathTimePrecision="us", IndexKinds="<- IxRange"),
                invariants=["TextInjective"], check_deadlock=False)
    mres = T.run_tlc("PartitionMC", cfg, work, timeout=600)
    if "TextInjective" not in (mres.violated or ""):
        raise T.TLCError("Partition with PathTimePrecision = us must violate TextInjective")
    ev.add_tlc("Partition mutant PathTimePrecision=us: TextInjective violated", mres)
    one, r1 = export(work, "one", NRows=4 if not thorough else 5, KeyVals="K3", KeyVals2="One", Offsets="Offs4")
    ev.add_tlc("Partition: one partition column, every frame x row-group split", r1, frames=len(one))
    two, r2 = export(work, "two", NRows=3 if not thorough else 4, KeyVals="K2n", KeyVals2="K2", Offsets="Offs4")
    ev.add_tlc("Partition: two partition columns", r2, frames=len(two))
    # three partition columns (the property's upper bound): the first may be missing, every frame x three offset lists
    three, r3 = export(work, "three", NRows=3, KeyVals="K2n", KeyVals2="K2", KeyVals3="K2", Offsets="Offs3",
                       IndexKinds="IxRange" if not thorough else "IxAll")
    ev.add_tlc("Partition: three partition columns", r3, frames=len(three))
    kinds3 = [("int", "str", "bool"), ("cat", "datetime", "numstr"), ("numstr", "int", "float"), ("str", "cat", "int"),
              ("datetime_ns", "bool", "str"), ("float", "numstr", "cat")]
    kinds1 = [("int", "str"), ("float", "str"), ("bool", "str"), ("datetime", "str"), ("datetime_ns", "str"), ("str", "str"), ("numstr", "str"), ("cat", "str")]
    # ("int", "numstr") / ("numstr", "int"): two columns of DIFFERENT kinds whose directory texts coincide (42 and "42")
    kinds2 = [("int", "str"), ("str", "numstr"), ("datetime", "bool"), ("cat", "int"), ("float", "cat"), ("datetime_ns", "int"),
              ("int", "numstr"), ("numstr", "int")]
    base = os.path.join(work, "part")
    os.makedirs(base)
    jobs = []
    # one column: all kinds on a stride of the frames (every frame with int), two columns: all frames x kind pairs
    for i in range(48):
        c = one[i::48]
        if c:
            jobs.append((len(jobs), c, [kinds1[(i + j) % len(kinds1)] for j in range(2)] if not thorough else kinds1, base))
    for i in range(32):
        c = two[i::32]
        if c:
            jobs.append((len(jobs), c, [kinds2[(i + j) % len(kinds2)] for j in range(2)] if not thorough else kinds2, base))
    for i in range(48):
        c = three[i::48]
        if c:
            jobs.append((len(jobs), c, [kinds3[i % len(kinds3)]] if not thorough else kinds3, base))
    results = pmap(replay_chunk, jobs, job_timeout=900)
    verd = Verdicts(PID, os.path.join(HOME, "replays"))
    for j, r in zip(jobs, results):
        if isinstance(r, Crashed):
            verd.add({"what": "interpreter crashed or hung"}, {"first": j[1][0]})
            continue
        if not isinstance(r, dict) or "error" in r:
            raise RuntimeError("machinery failed:\n%s" % (r if not isinstance(r, dict) else r["error"]))
        ev.evaluations += r["evals"]
        for sig, ci in r["viol"]:
            verd.add(sig, {"case": j[1][ci]}, cost=len(j[1][ci]["frame"]))
    for c in one + two + three:
        if len(c["files"]) > 1:
            ev.nontrivial.add(json.dumps(c, sort_keys=True))
    ev.extra["frames"] = len(one) + len(two) + len(three)
    ev.rule = ("frames = every assignment of partition keys (incl. missing) to the rows x every row-group offset list TLC "
               "enumerates, for one, two and three partition columns; each written in hive and drill layout with partition value "
               "kinds rotated over the cases (thorough: every kind for every case); non-trivial = distinct frames that "
               "produce more than one part file")
    ev.exhaustive = True
    ev.sample(one[len(one) // 2])
    n = verd.report(ev)
    return 1 if n else 0


def replay(path):
    print(open(path).read()[:2500])
    return 1
