"""C14 - opening or merging many files yields their concatenation (spec/ManyFiles.tla, spec/Categorical.tla)."""
import glob as globmod
import json
import os
import shutil
import traceback

from ..common import Timer, scratch, HOME, use_repo
from ..evidence import Evidence
from ..findings import Verdicts
from ..parallel import pmap, Crashed
from .. import tlc as T
from . import categorical as C

PID = "C14"


def job(args):
    jid, cases, shape, base = args
    fp = use_repo()
    import pandas as pd
    import numpy as np
    out = {"jid": jid, "viol": [], "evals": 0}
    d = os.path.join(base, "m%d" % jid)
    shutil.rmtree(d, ignore_errors=True)      # a re-run of this job (after a time-out) starts clean
    os.makedirs(d)
    cwd = os.getcwd()
    try:
        for ci, c in enumerate(cases):
            root = os.path.join(d, "c%d" % ci)
            shutil.rmtree(root, ignore_errors=True)      # a re-run of this job (after a time-out) starts clean
            os.makedirs(root)
            paths = []
            want = []
            for i, f in enumerate(c["files"]):
                n = f["rows"]
                ids = [1000 * (i + 1) + j for j in range(n)]
                df = pd.DataFrame({"x": pd.Series(ids, dtype="int64"), "s": pd.Series(["f%dr%d" % (i, j) for j in range(n)], dtype="str"),
                                   "b": pd.Series([b"%04d" % j for j in range(n)], dtype=object)})
                wkw = {"fixed_text": {"b": 4}, "object_encoding": {"b": "bytes", "s": "utf8"}}
                if c["badschema"] == i + 1:
                    kind = c.get("badkind", "name")
                    if kind == "name":
                        df = df.rename(columns={"s": "other"})
                        wkw["object_encoding"] = {"b": "bytes", "other": "utf8"}
                    elif kind == "ptype":
                        df["s"] = pd.Series(range(n), dtype="int64")
                        wkw["object_encoding"] = {"b": "bytes"}
                    elif kind == "width":
                        wkw["fixed_text"] = {"b": 8}
                    elif kind == "logical":
                        df["x"] = pd.Series(ids, dtype="int64").astype("datetime64[ns]")
                    elif kind == "optional":
                        wkw["has_nulls"] = False
                sub = {"flat": "", "hive": "k=%d" % f["key"], "drill": "v%d" % f["key"],
                       "hive2": "k=%d/m=%d" % (f["key"], 3 - f["key"]), "drill2": "v%d/w%d" % (f["key"], 3 - f["key"])}[shape]
                os.makedirs(os.path.join(root, sub), exist_ok=True)
                p = os.path.join(root, sub, "file%d.parquet" % i)
                fp.write(p, df, write_index=False, **wkw)
                paths.append(p)
                for j in range(n):
                    want.append((ids[j], f["key"] if shape != "flat" else None))
            sig = {"way": c["way"], "root_given": bool(c.get("rootgiven")), "shape": shape, "paths": c["pathkind"], "files": "3+" if len(paths) >= 3 else str(len(paths)),
                   "verify": bool(c["verify"]), "different_schema": c["badschema"] != 0, "schema_differs_in": (c.get("badkind", "name") if c["badschema"] else "nothing"),
                   "empty_file": any(f["rows"] == 0 for f in c["files"])}
            out["evals"] += 1
            os.chdir(root)
            use = [os.path.relpath(p, root) for p in paths] if c["pathkind"] == "rel" else paths
            if c.get("rootgiven") and c["pathkind"] == "rel":
                # a given root has to be a prefix of the paths: work from the directory above the collection
                os.chdir(os.path.dirname(root))
                use = [os.path.relpath(p, os.path.dirname(root)) for p in paths]
            raised = None
            pf = None
            try:
                rootkw = {"root": (os.path.basename(root) if c["pathkind"] == "rel" else root)} if c.get("rootgiven") else {}
                if c["way"] == "list":
                    pf = fp.ParquetFile(use, verify=bool(c["verify"]), **rootkw)
                elif c["way"] == "dir":
                    pf = fp.ParquetFile("." if c["pathkind"] == "rel" else root, verify=bool(c["verify"]))
                elif c["way"] == "glob":
                    pat = ("*.parquet" if shape == "flat" else "*/*/*.parquet" if shape in ("hive2", "drill2") else "**/*.parquet")
                    pf = fp.ParquetFile(pat if c["pathkind"] == "rel" else os.path.join(root, pat), verify=bool(c["verify"]))
                else:
                    fp.writer.merge(use, verify_schema=bool(c["verify"]), **rootkw)
                    if c.get("rootgiven") and not os.path.exists(os.path.join(root, "_metadata")):
                        raise AssertionError("merge(root=...) did not write _metadata into the given root")
                    pf = fp.ParquetFile(root)
                df = pf.to_pandas()
                cnt = pf.count()
            except BaseException as e:  # noqa
                raised = e
            finally:
                os.chdir(cwd)
            if c["reject"]:
                if raised is None and c["way"] in ("list", "merge"):
                    out["viol"].append((dict(sig, what="files with different schemas accepted although verification was requested"), ci))
                continue
            if c["badschema"] != 0:
                continue          # without verification the outcome for differing schemas is unspecified
            if raised is not None:
                out["viol"].append((dict(sig, what="opening the collection raised", exc=type(raised).__name__), ci))
                continue
            order_matters = c["way"] in ("list", "merge")
            got = [int(v) for v in df["x"]]
            exp = [w[0] for w in want]
            if (got != exp) if order_matters else (sorted(got) != sorted(exp)):
                out["viol"].append((dict(sig, what="rows are not the concatenation of the files' rows"
                                         + (" in the given order" if sorted(got) == sorted(exp) else "")), ci))
                continue
            if cnt != len(exp):
                out["viol"].append((dict(sig, what="total row count differs from the sum of the files"), ci))
            # with the root inferred from the paths, a directory level shared by ALL files is part of the root
            if shape in ("hive", "hive2") and len(exp) and (len({f["key"] for f in c["files"]}) > 1 or c.get("rootgiven")):
                if "k" not in df.columns or (shape == "hive2" and "m" not in df.columns):
                    out["viol"].append((dict(sig, what="partition column not inferred from the directory names"), ci))
                else:
                    km = {w[0]: w[1] for w in want}
                    if any(int(kv) != km[int(xv)] for xv, kv in zip(df["x"], df["k"])) or (
                            shape == "hive2" and any(int(mv) != 3 - km[int(xv)] for xv, mv in zip(df["x"], df["m"]))):
                        out["viol"].append((dict(sig, what="partition value does not match the file's directory"), ci))
            shutil.rmtree(root, ignore_errors=True)
    except BaseException:  # noqa
        out["error"] = traceback.format_exc()
    finally:
        os.chdir(cwd)
        shutil.rmtree(d, ignore_errors=True)
    return out


def run(tier, seed):
    t = Timer()
    ev = Evidence(PID, tier, seed, "model_checking")
    ev.assumptions = ["local files; relative paths are resolved against the collection's root as working directory",
                      "for directory and glob openings the order of files is the library's (row multiset compared)",
                      "differing schemas without verification: outcome unspecified, not judged"]
    with scratch() as work:
        rc = _run(ev, work, tier == "thorough")
    ev.write(t.s())
    return rc


def _run(ev, work, thorough):
    cfg = os.path.join(work, "mf.cfg")
    T.write_cfg(cfg, spec="Spec", constants={"MaxFiles": 4 if thorough else 3, "RowChoices": "<- RowsAll", "Shapes": "<- ShapesAll",
                                             "Ways": "<- WaysAll", "PathKinds": "<- PathsAll"},
                invariants=["Export"], check_deadlock=False)
    res = T.run_tlc("ManyFiles", cfg, work, timeout=1800, coverage=True)
    cases = res.printed_json()
    if not res.completed or not cases:
        raise T.TLCError("ManyFiles export failed:\n" + res.out[-2000:])
    # the kind of schema deviation multiplies the deviating cases by five: replay each deviating configuration with ONE of
    # the kinds, rotating, so that every kind meets every fifth configuration
    kinds_order = ["name", "ptype", "width", "logical", "optional"]
    groups = {}
    for c in cases:
        key = json.dumps({k: v for k, v in c.items() if k != "badkind"}, sort_keys=True)
        groups.setdefault(key, []).append(c)
    picked = []
    for gi, (key, cs) in enumerate(sorted(groups.items())):
        if len(cs) == 1:
            picked.append(cs[0])
        else:
            import zlib
            want = kinds_order[zlib.crc32(key.encode()) % len(kinds_order)]
            picked.append(next(c for c in cs if c.get("badkind") == want))
    exported = len(cases)
    cases = picked
    ev.add_tlc("ManyFiles: collections x ways of opening x path kinds x verification x schema deviation (x kind of deviation)",
               res, cases=exported, replayed_configurations=len(cases))
    base = os.path.join(work, "many")
    os.makedirs(base)
    jobs = []
    for shape in ("flat", "hive", "drill", "hive2", "drill2"):
        if thorough:
            sub = cases[::2] if shape in ("flat", "hive", "drill") else cases[1::3]
        else:
            sub = cases[::3] if shape in ("flat", "hive", "drill") else cases[1::5]
        for i in range(16):
            c = sub[i::16]
            if c:
                jobs.append((len(jobs), c, shape, base))
    results = pmap(job, jobs, job_timeout=900 if thorough else 180)
    verd = Verdicts(PID, os.path.join(HOME, "replays"))
    for j, r in zip(jobs, results):
        if isinstance(r, Crashed):
            verd.add({"what": "interpreter crashed or hung", "shape": j[2]}, {"first": j[1][0]})
            continue
        if not isinstance(r, dict) or "error" in r:
            raise RuntimeError("machinery failed:\n%s" % (r if not isinstance(r, dict) else r["error"]))
        ev.evaluations += r["evals"]
        for sig, ci in r["viol"]:
            verd.add(sig, {"case": j[1][ci], "shape": j[2]}, cost=len(j[1][ci]["files"]))
    # ---- dictionaries that differ between files (Categorical.tla, mode "files") ----
    r1 = C.model_check(work, True)
    ev.add_tlc("Categorical, RemapCodes=TRUE: LabelsPreserved holds", r1)
    r0 = C.model_check(work, False)
    if r0.violated != "LabelsPreserved":
        raise T.TLCError("Categorical last-dictionary-wins variant must violate LabelsPreserved")
    ev.add_tlc("Categorical, RemapCodes=FALSE (as found): LabelsPreserved violated", r0)
    ccases, cres = C.export_cases(work, 3 if thorough else 2, 2)
    if thorough:
        # every sequence of one or two batches, every fourth of the three-batch sequences
        ccases = [c for i, c in enumerate(ccases) if len(c["rgs"]) < 3 or i % 4 == 0]
    ev.add_tlc("CategoricalMC export: per-file dictionaries", cres, cases=len(ccases))
    cj, cr = C.run_cases(ccases, work, ("files",))
    for j, r in zip(cj, cr):
        if isinstance(r, Crashed):
            verd.add({"what": "interpreter crashed or hung", "column": "categorical", "scheme": "files",
                      "model_predicts_misread": list(j[1]["decoded"]) != list(j[1]["written"])}, {"case": j[1]})
            continue
        if "error" in r:
            raise RuntimeError("categorical replay failed:\n" + r["error"])
        ev.evaluations += 1
        if r["viol"]:
            verd.add(dict(r["viol"], column="categorical", scheme="files", model_predicts_misread=bool(r.get("model_predicts_misread"))),
                     {"case": j[1]})
    for c in cases:
        if len(c["files"]) > 1:
            ev.nontrivial.add(json.dumps(c, sort_keys=True))
    ev.extra.update(collections=len(cases), categorical_cases=len(cj))
    ev.rule = ("collections of 1..3 (4) files with 0..2 rows each x {list, directory, glob, merge} x {absolute, relative paths} x "
               "verification x which file deviates in schema, in flat / hive / drill directory shapes (quick: every third "
               "collection per shape); plus every per-file dictionary sequence of Categorical.tla; non-trivial = distinct "
               "multi-file collections")
    ev.exhaustive = thorough
    ev.sample(cases[len(cases) // 2])
    n = verd.report(ev)
    return 1 if n else 0


def replay(path):
    print(open(path).read()[:2500])
    return 1
