"""C09 - dataset edits follow a plain model; summary metadata and directory agree (spec/Dataset.tla)."""
import json
import os

from ..common import Timer, scratch, HOME
from ..evidence import Evidence
from ..findings import Verdicts
from .. import tlc as T
from . import dataset as D

PID = "C09"
INVS = ["ModelContent", "NoOrphans", "CommonPresent", "NeverOpensReferenced", "PartsBeforeSummary", "NoCrash"]


def model_check(ev, work, frames, maxops, by_path, expect_violation=False, label=""):
    cfg = os.path.join(work, "ds-%s.cfg" % label)
    T.write_cfg(cfg, spec="Spec", constants={
        "NK": 3, "Frames": "<- " + frames, "MaxOps": maxops, "Partitioned": "<- BoolBoth", "EnableFault": False,
        "Ops": "<- OpsAll", "PartIdsByPath": by_path, "SummaryFirst": False},
        invariants=INVS, properties=["AppendKeepsFiles"], check_deadlock=False)
    res = T.run_tlc("DatasetMC", cfg, work, coverage=not expect_violation, timeout=3000)
    if expect_violation:
        if not res.violated:
            raise T.TLCError("model mutant (part ids keyed by number) should violate the contract: invariants vacuous?")
        ev.add_tlc("Dataset, PartIdsByPath=FALSE (as found before the fix / model mutant): %s violated as it must be"
                   % res.violated, res)
    else:
        if not res.ok:
            print(res.out[-3000:])
            raise T.TLCError("Dataset (repaired variant) violates %s" % res.violated)
        for a in ("BeginWrite", "DoBeginAppend", "BeginWrg", "BeginOverwrite", "BeginRemove", "DoMkdir",
                  "DoOpenW", "DoWrite", "DoClose", "DoMemAppend", "DoMemSort", "DoMemRemove", "DoRemove",
                  "DoSortNames", "DoRename", "DoMemPath", "Return"):
            if not res.covered(a):
                raise T.TLCError("vacuity: action %s never taken" % a)
        ev.add_tlc("Dataset, repaired variant: contract invariants hold (%s, %d operations)" % (frames, maxops), res)
    return res


def run(tier, seed):
    t = Timer()
    ev = Evidence(PID, tier, seed, "model_checking")
    ev.assumptions = ["local POSIX directory; os.rename replaces silently (modelled so)",
                      "projection of the real directory by harness/pqspec (independent reader) and by a fresh "
                      "ParquetFile of the library",
                      "hive datasets with 0 or 1 partition column; row-group identity = distinctive cell values"]
    thorough = tier == "thorough"
    with scratch() as work:
        rc = _run(ev, work, thorough)
    ev.write(t.s())
    return rc


def _run(ev, work, thorough):
    model_check(ev, work, "FramesSmall" if not thorough else "FramesWide", 3, True, label="ok")
    model_check(ev, work, "FramesSmall", 3, False, expect_violation=True, label="mut")
    hists, res = D.export_histories(work, frames="FramesTiny", maxops=3)
    ev.add_tlc("DatasetExport: history tree (FramesTiny, 3 operations)", res, histories=len(hists))
    hl, resl = D.export_histories(work, frames="FramesLong", maxops=2)
    hl = [h for h in hl if len(h[0]["groups"]) >= 11]
    ev.add_tlc("DatasetExport: histories starting with an 11-row-group write (part ids reach 10)", resl, histories=len(hl))
    hg, resg = D.export_histories(work, frames="FramesGap", maxops=3, partitioned="OnlyPartitioned")
    hg = [h for h in hg if any(len(c) == 0 for r in h for c in (r.get("frame") or []))]
    ev.add_tlc("DatasetExport: histories with an empty chunk (gap in the part ids)", resg, histories=len(hg))
    hists = hists + hl + hg
    if thorough:
        h2, res2 = D.export_histories(work, frames="FramesSmall", maxops=3)
        ev.add_tlc("DatasetExport: history tree (FramesSmall, 3 operations)", res2, histories=len(h2))
        h3, res3 = D.export_histories(work, frames="FramesOne", maxops=4, ops="OpsMixed")
        h3 = h3[::4]
        ev.add_tlc("DatasetExport: history tree (two frames, 4 operations of append / write_row_groups / remove_row_groups, "
                   "every 4th history)", res3, histories=len(h3))
        hists = hists + h2 + h3
    results = D.run_replays(hists, work)
    verd = Verdicts(PID, os.path.join(HOME, "replays"))
    traces = []
    refused = 0
    for hid, r in enumerate(results):
        if isinstance(r, D.Crashed):
            verd.add({"op": "?", "what": "interpreter crashed or hung while replaying a history"},
                     {"history": hists[hid], "status": r.status}, cost=len(hists[hid]))
            continue
        if "error" in r:
            raise RuntimeError("replay machinery failed:\n" + r["error"])
        ev.evaluations += r["evals"]
        for o in r["ops"]:
            if o.get("refused"):
                refused += 1
            if o.get("drift"):
                ev.drift.append({"history": hid, "step": o["step"], "what": o["drift"]})
            if o["step"] > 1 and not o.get("refused"):
                ev.nontrivial.add((hid, o["step"]))
            for v in o["viol"]:
                verd.add(v, {"history": hists[hid], "failing_step": o["step"]}, cost=len(hists[hid]))
        traces.extend(r["traces"])
    verdicts, tres = D.validate_traces(traces, work)
    if tres is not None:
        ev.add_tlc("DatasetTrace: recorded filesystem-call traces", tres)
    rejected = 0
    for i, tr in enumerate(traces):
        v = verdicts[i]
        if v["accepted"]:
            ev.traces += 1
            bad = [k for k in ("readable", "bag_ok", "order_ok", "no_orphans", "no_bad_open", "parts_before_summary", "kept")
                   if not v[k]]
            if bad and tr["real_ok"]:
                verd.add({"op": tr["kind"], "what": "trace violates " + ",".join(bad), "via": "trace"}, {"trace": tr},
                         cost=len(tr["events"]))
        else:
            rejected += 1
            ev.drift.append({"trace": {"hid": tr["hid"], "step": tr["step"], "kind": tr["kind"]},
                             "matched": v.get("matched"), "next_event": v.get("next_event"), "real_ok": tr["real_ok"]})
    # ---- binding self-test: a tampered copy of an accepted trace must NOT be a behaviour of the specification ----
    acc = [traces[i] for i in range(len(traces)) if verdicts[i]["accepted"] and len(traces[i]["events"]) >= 5][:40]
    tampered = []
    for k, tr in enumerate(acc):
        evs = [dict(e) for e in tr["events"]]
        body = list(range(1, len(evs)))                      # event 0 is the begin event (operation and frame)
        if k % 2 == 0:
            del evs[body[len(body) // 2]]                     # one recorded filesystem call is missing
        else:
            i, j = body[0], body[-1]
            evs[i], evs[j] = evs[j], evs[i]                   # first and last call swapped
        if evs != tr["events"]:
            tampered.append(dict(tr, events=evs))
    if tampered:
        tv, tres2 = D.validate_traces(tampered, work)
        nacc = sum(1 for i in range(len(tampered)) if tv[i]["accepted"])
        ev.add_tlc("DatasetTrace binding self-test: %d tampered traces (call dropped / first and last call swapped), %d accepted"
                   % (len(tampered), nacc), tres2)
        ev.extra["tampered_traces"] = {"submitted": len(tampered), "accepted": nacc}
        if nacc > len(tampered) // 4:
            raise T.TLCError("the trace specification accepts %d of %d tampered traces: it does not bind the code" % (nacc, len(tampered)))
    if rejected:
        print("DRIFT: %d of %d recorded traces are not behaviours of the mechanism model (contract judged on the real directory)"
              % (rejected, len(traces)))
    if ev.drift:
        print("DRIFT: %d mechanism disagreements (see evidence)" % len(ev.drift))
    ev.extra.update(histories_replayed=len(hists), refusals_accepted=refused, traces_rejected_as_drift=rejected)
    ev.rule = ("histories = every operation sequence TLC enumerates from DatasetExport over {write, append, overwrite, "
               "remove_row_groups(any subset, sort_pnames), write_row_groups(sort_key, sort_pnames)} x frames x "
               "partitioned/unpartitioned; non-trivial = distinct (history, step) with at least one mutation after the "
               "initial write that was not refused")
    ev.exhaustive = True
    for h in hists[:2]:
        ev.sample([{k: v for k, v in r.items() if k != "steps"} for r in h])
    # ---- traces of the repository's own test-suite against the per-call contract clauses (harness/checks/suite.py) ----
    if thorough:
        from . import suite as SUITE
        SUITE.stage(ev, verd, work, 'C09', True)
    n = verd.report(ev)
    return 1 if n else 0


def replay(path):
    doc = json.load(open(path))
    h = doc["replay"]["history"]
    with scratch() as work:
        r = D.replay_history((0, h, work, {}))
    print(json.dumps(r["ops"], indent=1, default=str))
    return 1 if any(o["viol"] for o in r["ops"]) else 0
