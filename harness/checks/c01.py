"""C01 - write -> read round trip under every write option (spec/ColumnWriter.tla)."""
import json
import os

from ..common import Timer, scratch, HOME
from ..evidence import Evidence
from ..findings import Verdicts
from ..parallel import Crashed
from .. import tlc as T
from . import colwriter as CW

PID = "C01"


def run(tier, seed, pid=PID):
    t = Timer()
    ev = Evidence(pid, tier, seed, "model_checking")
    ev.assumptions = ["concretisation tables harness/concretise.py (abstract value k of a dtype class -> concrete value) are "
                      "trusted", "one tested column x next to a fixed int64 column z; multi-column interactions beyond a "
                      "neighbouring column are not explored", "compression codecs: the full codec set on the dtype-class sub-lattice (every class x codec x page version), none on the large option product",
                      "the independent reader harness/pqspec is trusted"]
    with scratch() as work:
        rc = _run(ev, work, tier == "thorough", pid)
    ev.write(t.s())
    return rc


def _run(ev, work, thorough, pid):
    consts = CW.THOROUGH if thorough else CW.QUICK
    res = CW.model_check(work, consts, "mc")
    if not res.ok:
        print(res.out[-3000:])
        raise T.TLCError("ColumnWriter violates %s" % res.violated)
    for a in ("Reject", "Split", "BeginChunk", "DataPage", "EndChunk", "Footer"):
        if not res.covered(a):
            raise T.TLCError("vacuity: action %s never taken" % a)
    ev.add_tlc("ColumnWriter: layout/bookkeeping/statistics invariants over the whole input lattice", res)
    cases, res = CW.export_cases(work, consts, "exp")
    ev.add_tlc("ColumnWriterMC export: expected layout, statistics and cell table per case", res, cases=len(cases))
    big, resb = CW.export_cases(work, CW.BIG, "big")
    ev.add_tlc("ColumnWriterMC export: row counts 63/64/65/100 (framing of the level block changes at 64)", resb, cases=len(big))
    cases = cases + big
    types, rest = CW.export_cases(work, CW.TYPES, "types")
    ev.add_tlc("ColumnWriterMC export: every dtype class x codec x page version on a small option product", rest, cases=len(types))
    cases = cases + types
    if thorough:
        huge, resh = CW.export_cases(work, CW.HUGE, "huge")
        ev.add_tlc("ColumnWriterMC export: row counts 8191/8192/8193", resh, cases=len(huge))
        cases = cases + huge
    jobs, results = CW.run_cases(cases, work)
    verd = Verdicts(pid, os.path.join(HOME, "replays"))
    raised = rej_ok = 0
    for j, r in zip(jobs, results):
        if isinstance(r, Crashed):
            verd.add({"what": "interpreter crashed or hung in a write/read round trip"}, {"first_case": j[1][0]})
            continue
        if "error" in r:
            raise RuntimeError("replay machinery failed:\n" + r["error"])
        ev.evaluations += r["evals"]
        raised += r["raised"]
        rej_ok += r["rejected_ok"]
        for d in r["drift"]:
            if len(ev.drift) < 40:
                ev.drift.append(d)
        for (p, sig, ci) in r["viol"]:
            if p != pid:
                continue
            case = j[1][ci]
            verd.add(sig, {"case": {k: v for k, v in case.items()}}, cost=case["n"])
        for case in j[1]:
            if case["n"] > 0 and (len(case["rgs"]) > 1 or any(len(g["pages"]) > 1 for g in case["rgs"])
                                  or any(c < 0 for c in case["cells"])):
                ev.nontrivial.add(json.dumps({k: case[k] for k in ("cls", "n", "nullpat", "valpat", "mode", "rppwant", "v",
                                                                  "rgo", "stats", "codec")}, sort_keys=True))
    if pid in ("C01", "C02"):
        # the same cases arriving as an append to an existing file (schema taken from the file, not from the frame)
        aj, ar = CW.run_appends(cases, work)
        napp = 0
        for j, r in zip(aj, ar):
            if isinstance(r, Crashed):
                verd.add({"what": "interpreter crashed or hung in a write/append/read sequence"}, {"first_case": j[1][0]})
                continue
            if "error" in r:
                raise RuntimeError("append replay machinery failed:\n" + r["error"])
            ev.evaluations += r["evals"]
            napp += r["evals"]
            for (p, sig, ci) in r["viol"]:
                if p == pid:
                    verd.add(sig, {"case": j[1][ci], "via": "append"}, cost=j[1][ci]["n"])
        ev.extra["append_replays"] = napp
    if pid == "C02":
        sj, sr = CW.run_sweep(work)
        nfiles = 0
        for j, r in zip(sj, sr):
            if isinstance(r, Crashed):
                verd.add({"what": "interpreter crashed or hung in the codec/scheme sweep"}, {"job": j[1:4]})
                continue
            if "error" in r:
                raise RuntimeError("sweep machinery failed:\n" + r["error"])
            ev.evaluations += r["evals"]
            nfiles += r["files"]
            for (p, sig, rel) in r["viol"]:
                verd.add(sig, {"codec": str(j[1]), "scheme": j[2], "v": j[3], "file": rel})
        ev.extra["sweep_files_validated"] = nfiles
    ev.extra.update(cases=len(cases), writes_that_raised=raised, of_which_predicted_rejections=rej_ok)
    if ev.drift:
        print("DRIFT: %d mechanism disagreements recorded (see evidence)" % len(ev.drift))
    ev.rule = ("cases = the full product TLC enumerates (dtype class x row count x null pattern x value pattern x "
               "nullability mode x page budget x page version x row-group size x statistics mode), the row counts around 64 "
               "(and 8192), and every dtype class x codec x page version on a small option product; non-trivial = distinct "
               "cases with >= 2 pages or >= 2 row groups or >= 1 missing cell")
    ev.exhaustive = True
    ev.sample(cases[len(cases) // 2])
    n = verd.report(ev)
    return 1 if n else 0


def replay(path, pid=PID):
    doc = json.load(open(path))
    case = doc["replay"]["case"]
    with scratch() as work:
        os.makedirs(os.path.join(work, "r"))
        if doc["replay"].get("via") == "append":
            r = CW.append_chunk((0, [case], os.path.join(work, "r")))
        else:
            r = CW.replay_chunk((0, [case], os.path.join(work, "r")))
    mine = [v for v in r["viol"] if v[0] == pid]
    print(json.dumps({"viol": mine, "drift": r.get("drift"), "error": r.get("error")}, indent=1, default=str))
    return 1 if mine else 0
