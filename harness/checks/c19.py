"""C19 - an append interrupted before its summary-metadata update leaves the old dataset intact (spec/Dataset.tla).

1. TLC: Dataset with Fault enabled at every filesystem call of every append: ModelContent (old content after a fault
   before the summary rewrite), NeverOpensReferenced, PartsBeforeSummary; the model mutant SummaryFirst must violate.
2. Fault enumeration on the real code: for every history prefix TLC exports (write, optional first append) and
   every append frame, the real append is run once unfaulted to count its N filesystem calls and then N times with
   the k-th call (mkdir, open-for-write, write, close) failing; a fresh open then has to see the old content (fault
   before the summary rewrite started and the call raised) or the new content (the call returned normally).
3. Every faulted run's call trace is validated by TLC against DatasetTrace (a reordered append is rejected even when
   no fault happens to expose it).
"""
import json
import os
import shutil
import traceback

from ..common import Timer, scratch, HOME, use_repo
from ..evidence import Evidence
from ..findings import Verdicts
from ..parallel import pmap, Crashed
from .. import tlc as T
from ..observe.iorec import Recorder, Fault
from . import dataset as D

PID = "C19"


def fault_job(args):
    jid, hist, base = args
    fp = use_repo()
    D.WIDX = False
    import pandas as pd
    root = os.path.join(base, "f%d" % jid)
    d = os.path.join(root, "ds")
    snap = os.path.join(root, "snap")
    shutil.rmtree(root, ignore_errors=True)      # a re-run of this job (after a time-out) starts clean
    os.makedirs(root)
    out = {"jid": jid, "runs": [], "traces": [], "evals": 0}
    try:
        part = bool(hist[0]["part"])
        # prefix: all operations but the last one (which is the append under test)
        ops = [(hist[i], hist[i + 1]) for i in range(0, len(hist), 2)]
        maxg = 0
        pr0 = {"refs": None, "files": {}}
        for opr, end in ops[:-1]:
            refd = {p for p, _ in (pr0["refs"] or [])}
            bef = D.snapshot_bytes(d, refd)
            rec0 = Recorder(root=d, referenced=refd)
            D.do_op(fp, pd, d, opr, rec0, part)
            maxg = max([maxg] + [g["g"] for g in (opr.get("groups") or opr.get("newgroups") or [])])
            # the unfaulted operations of the prefix are observed too ("if the append returns normally ...")
            viol0, pr0 = D.evaluate(fp, d, end["obs"]["model"], end["obs"]["ordered"], True, part)
            viol0 = list(viol0) + D.event_contract(opr["kind"], rec0.events, refd)
            if opr["kind"] == "append" and D.snapshot_bytes(d, refd) != bef:
                viol0.append("append changed, replaced or removed an existing data file")
            out["evals"] += 1
            if viol0:
                sig = {"op": opr["kind"], "partitioned": part, "fault": "none"}
                out["runs"].append({"k": 0, "what": "none", "path": None, "raised": None, "summary_started": True,
                                    "viol": [dict(sig, what="unfaulted %s: %s" % (opr["kind"], v)) for v in viol0]})
                return out
        opr, end = ops[-1]
        prev = ops[-2][1]["obs"]
        shutil.copytree(d, snap)
        referenced = {p for p, _ in pr0["refs"]}
        newg = [g["g"] for g in opr["newgroups"]]
        pre = D.abstract_pre(pr0, prev["model"], prev["ordered"], (min(newg) - 1) if newg else maxg)
        # unfaulted run: count the calls
        rec = Recorder(root=d, referenced=referenced)
        D.do_op(fp, pd, d, opr, rec, part)
        n_calls = rec.calls
        out["ncalls"] = n_calls
        for k in range(1, n_calls + 1):
            shutil.rmtree(d)
            shutil.copytree(snap, d)
            before = D.snapshot_bytes(d, referenced)
            rec = Recorder(root=d, fault_at=k, referenced=referenced)
            raised = None
            try:
                D.do_op(fp, pd, d, opr, rec, part)
            except BaseException as e:  # noqa
                raised = e
            out["evals"] += 1
            fe = [e for e in rec.events if e["ev"] == "fault"]
            what = fe[0]["what"] if fe else "?"
            fpath = fe[0].get("path") if fe else None
            # did the summary rewrite start before the fault?
            # (only the calls made BEFORE the injected failure count: a summary written afterwards, e.g. by a cleanup
            # handler, is exactly what the property forbids)
            nf = next((i for i, e in enumerate(rec.events) if e["ev"] == "fault"), len(rec.events))
            touched = any(e["ev"] == "open" and e["path"] == "_metadata" and "w" in e["mode"] for e in rec.events[:nf])
            in_summary = touched or (fpath in ("_metadata", "_common_metadata"))
            run = {"k": k, "what": what, "path": fpath, "raised": type(raised).__name__ if raised else None,
                   "summary_started": in_summary, "viol": []}
            sig = {"op": "append", "partitioned": part, "fault": what,
                   "target": "summary" if fpath in ("_metadata", "_common_metadata") else "part",
                   "summary_started": in_summary}
            if raised is not None and not isinstance(raised, (Fault, OSError)):
                sig["exc"] = type(raised).__name__
            if raised is None:
                viol, _ = D.evaluate(fp, d, end["obs"]["model"], end["obs"]["ordered"], False, part)
                for v in viol:
                    run["viol"].append(dict(sig, what="append returned normally after an I/O failure but a fresh open "
                                                      "does not see the new content: " + v))
            elif not in_summary:
                viol, _ = D.evaluate(fp, d, prev["model"], prev["ordered"], False, part)
                for v in viol:
                    run["viol"].append(dict(sig, what="append failed before the summary rewrite but the old dataset "
                                                      "is not intact: " + v))
            for v in D.event_contract("append", rec.events, referenced):
                run["viol"].append(dict(sig, what=v))
            if D.snapshot_bytes(d, referenced) != before:
                run["viol"].append(dict(sig, what="append changed, replaced or removed an existing data file"))
            out["runs"].append(run)
            out["traces"].append({"jid": jid, "k": k, "pre": pre, "kind": "append",
                                  "events": [D.begin_event(opr, part)] + D.abstract_events(rec.events),
                                  "real_ok": not run["viol"], "raised": raised is not None})
    except BaseException:  # noqa
        out["error"] = traceback.format_exc()
    finally:
        shutil.rmtree(root, ignore_errors=True)
    return out


def run(tier, seed):
    t = Timer()
    ev = Evidence(PID, tier, seed, "fault_enumeration")
    ev.assumptions = ["faults are exceptions raised by the k-th filesystem call (open-for-write, write, close, mkdir) "
                      "instead of performing it; a crash is modelled as such a failure with nothing after it",
                      "local directory; hive datasets with 0 or 1 partition column"]
    thorough = tier == "thorough"
    with scratch() as work:
        rc = _run(ev, work, thorough)
    ev.write(t.s())
    return rc


def _run(ev, work, thorough):
    # ---- 1. design level ---------------------------------------------------------------------------
    for sf, label in ((False, "ok"), (True, "mut")):
        cfg = os.path.join(work, "c19-%s.cfg" % label)
        T.write_cfg(cfg, spec="Spec", constants={
            "NK": 3, "Frames": "<- " + ("FramesSmall" if thorough else "FramesTiny"), "MaxOps": 3,
            "Partitioned": "<- BoolBoth", "EnableFault": True, "Ops": "<- OpsAppend", "PartIdsByPath": True,
            "SummaryFirst": sf},
            invariants=["ModelContent", "NeverOpensReferenced", "PartsBeforeSummary", "NoCrash"],
            properties=["AppendKeepsFiles"], check_deadlock=False)
        res = T.run_tlc("DatasetMC", cfg, work, coverage=not sf, timeout=3000)
        if sf:
            if not res.violated:
                raise T.TLCError("model mutant SummaryFirst must violate the contract")
            ev.add_tlc("Dataset + Fault, SummaryFirst=TRUE (model mutant): %s violated as it must be" % res.violated, res)
        else:
            if not res.ok:
                print(res.out[-3000:])
                raise T.TLCError("Dataset + Fault violates %s" % res.violated)
            if not res.covered("Fault"):
                raise T.TLCError("vacuity: Fault never taken")
            ev.add_tlc("Dataset + Fault at every call of every append: contract holds", res)
    # ---- 2. fault enumeration on the real code -------------------------------------------------------
    hists, res = D.export_histories(work, frames="FramesSmall" if thorough else "FramesTiny", maxops=3,
                                    ops="OpsAppend")
    hl, resl = D.export_histories(work, frames="FramesLong", maxops=2, ops="OpsAppend")
    hl = [h for h in hl if len(h[0]["groups"]) >= 11]
    ev.add_tlc("DatasetExport: appends to an 11-row-group dataset (part ids reach 10)", resl, histories=len(hl))
    hg, resg = D.export_histories(work, frames="FramesGap", maxops=3, ops="OpsAppend", partitioned="OnlyPartitioned")
    hg = [h for h in hg if any(len(c) == 0 for r in h for c in (r.get("frame") or []))]
    ev.add_tlc("DatasetExport: appends across an empty chunk (gap in the part ids)", resg, histories=len(hg))
    hists = [h for h in hists + hl + hg if h[-2]["kind"] == "append"]
    ev.add_tlc("DatasetExport: write/append histories whose last append is fault-injected", res, histories=len(hists))
    jobs = [(i, h, os.path.join(work, "faults")) for i, h in enumerate(hists)]
    os.makedirs(os.path.join(work, "faults"))
    results = pmap(fault_job, jobs, job_timeout=300)
    verd = Verdicts(PID, os.path.join(HOME, "replays"))
    traces = []
    kinds = {}
    for jid, r in enumerate(results):
        if isinstance(r, Crashed):
            verd.add({"op": "append", "what": "interpreter crashed or hung during fault injection"},
                     {"history": hists[jid]})
            continue
        if "error" in r:
            raise RuntimeError("fault machinery failed:\n" + str(r["error"]))
        ev.evaluations += r["evals"]
        for run_ in r["runs"]:
            key = (run_["what"], run_["summary_started"], bool(run_["raised"]))
            kinds[key] = kinds.get(key, 0) + 1
            ev.nontrivial.add((jid, run_["k"]))
            for v in run_["viol"]:
                verd.add(v, {"history": hists[jid], "fault_at_call": run_["k"], "failed_call": run_["what"],
                             "path": run_["path"]}, cost=run_["k"])
        traces.extend(r["traces"])
    verdicts, tres = D.validate_traces(traces, work)
    if tres is not None:
        ev.add_tlc("DatasetTrace: call traces of the faulted appends", tres)
    rejected = 0
    for i, tr in enumerate(traces):
        v = verdicts[i]
        if v["accepted"]:
            ev.traces += 1
            if v["last"] == "faulted_before_summary" and not (v["readable"] and v["bag_ok"] and v["order_ok"]) and tr["real_ok"]:
                verd.add({"op": "append", "what": "trace: old content not intact after a fault before the summary rewrite",
                          "via": "trace"}, {"trace": tr})
            if not (v["no_bad_open"] and v["parts_before_summary"] and v["kept"]) and tr["real_ok"]:
                verd.add({"op": "append", "what": "trace violates the call-order contract", "via": "trace",
                          "no_bad_open": v["no_bad_open"], "parts_before_summary": v["parts_before_summary"],
                          "kept": v["kept"]}, {"trace": tr})
        else:
            rejected += 1
            ev.drift.append({"trace": {"jid": tr["jid"], "k": tr["k"]}, "matched": v.get("matched"),
                             "next_event": v.get("next_event"), "real_ok": tr["real_ok"]})
    if rejected:
        print("DRIFT: %d of %d faulted traces are not behaviours of the mechanism model" % (rejected, len(traces)))
    ev.extra.update(histories=len(hists), fault_classes={"%s/summary_started=%s/raised=%s" % k: n for k, n in kinds.items()},
                    traces_rejected_as_drift=rejected)
    ev.rule = ("for every exported history ending in an append: every k in 1..N (N = filesystem calls of the unfaulted "
               "append); distinct non-trivial = distinct (history, k) pairs executed with the k-th call failing")
    ev.exhaustive = True
    for h in hists[:2]:
        ev.sample([{k: v for k, v in r.items() if k != "steps"} for r in h])
    # ---- traces of the repository's own test-suite against the per-call contract clauses (harness/checks/suite.py) ----
    from . import suite as SUITE
    nrec = SUITE.stage(ev, verd, work, 'C19', thorough)
    ev.extra['suite_records_total'] = nrec
    n = verd.report(ev)
    return 1 if n else 0


def replay(path):
    doc = json.load(open(path))
    h = doc["replay"]["history"]
    with scratch() as work:
        os.makedirs(os.path.join(work, "faults"))
        r = fault_job((0, h, os.path.join(work, "faults")))
    bad = [x for x in r.get("runs", []) if x["viol"]]
    print(json.dumps(bad or r.get("error"), indent=1, default=str))
    return 1 if bad else 0
