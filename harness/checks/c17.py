"""C17 - metadata-only answers (columns, dtypes, counts) match the data actually read (spec/Predict.tla)."""
import io
import json
import os
import shutil
import traceback

from ..common import Timer, scratch, HOME, use_repo
from ..evidence import Evidence
from ..findings import Verdicts
from ..parallel import pmap, Crashed
from .. import tlc as T
from ..pqspec import writer as PW

PID = "C17"


def build_files(fp, d):
    import pandas as pd
    import numpy as np
    n = 7
    df = pd.DataFrame({
        "x": np.arange(n, dtype="int64") * 11 + 50001, "u": np.arange(n, dtype="uint8") + 100,
        "f": [np.nan if i == 2 else i * 0.25 + 1 for i in range(n)],
        "s": pd.Series([None if i == 4 else "w%03d" % i for i in range(n)], dtype=object),
        "b": [bool(i % 2) for i in range(n)], "t": pd.date_range("2022-05-01", periods=n, freq="D"),
        "tu": pd.Series(pd.date_range("2021-01-01", periods=n, freq="h")).astype("datetime64[us]"),
        "tm": pd.Series(pd.date_range("2021-01-01", periods=n, freq="h")).astype("datetime64[ms]"),
        "k": pd.Categorical([["ca", "cb", "cc"][i % 3] for i in range(n)]),
        "ni": pd.array([None if i == 1 else i * 3 for i in range(n)], dtype="Int64"),
        "nb": pd.array([None if i == 5 else bool(i % 2) for i in range(n)], dtype="boolean"),
        "p": [i % 2 for i in range(n)], "q": [["qa", "qb"][i % 2] for i in range(n)]})
    files = {}
    own = os.path.join(d, "own.parquet")
    fp.write(own, df.drop(columns=["p", "q"]), row_group_offsets=[0, 3, 5], write_index=False)
    files["own"] = own
    nometa = os.path.join(d, "own_nometa.parquet")
    fp.write(nometa, df.drop(columns=["p", "q", "k"]), row_group_offsets=[0, 4], write_index=False)
    fp.writer.update_file_custom_metadata(nometa, {"pandas": None})
    files["own_nometa"] = nometa
    base = df.drop(columns=["p", "q"]).assign(ix=np.array([5, 3, 9, 1, 7, 2, 8], dtype="int64"))   # (not an arithmetic progression)
    for nm, idx in (("own_idx", ["ix"]), ("own_tidx", ["tu"]), ("own_midx", ["ix", "u"])):
        pth = os.path.join(d, nm + ".parquet")
        fp.write(pth, base.set_index(idx), row_group_offsets=[0, 3, 5])
        files[nm] = pth
    for scheme in ("hive", "drill"):
        p = os.path.join(d, scheme)
        fp.write(p, df.drop(columns=["ni", "nb"]), file_scheme=scheme, partition_on=["p", "q"], row_group_offsets=[0, 4],
                 write_index=False)
        files[scheme] = p

    def col(name, ptype, rep, ct, values, dictionary=None):
        nn = [v for v in values if v is not None]
        page = {"version": 1, "encoding": "DICT" if dictionary else "PLAIN",
                "values": [dictionary.index(v) for v in nn] if dictionary else nn,
                "def_levels": [0 if v is None else 1 for v in values] if rep == "OPTIONAL" else None}
        return ({"name": name, "type": ptype, "repetition": rep, "converted_type": ct},
                {"path": [name], "codec": "UNCOMPRESSED", "dictionary": dictionary, "pages": [page], "statistics": "auto"})
    cols = [col("i32", "INT32", "OPTIONAL", None, [5, None, 7, 8]), col("i64", "INT64", "REQUIRED", None, [1, 2, 3, 4]),
            col("dbl", "DOUBLE", "OPTIONAL", None, [0.5, 1.5, None, 2.5]),
            col("txt", "BYTE_ARRAY", "OPTIONAL", "UTF8", [b"aa", None, b"cc", b"dd"], [b"aa", b"cc", b"dd"]),
            col("flag", "BOOLEAN", "OPTIONAL", None, [True, None, False, True]),
            col("day", "INT32", "REQUIRED", "DATE", [18000, 18001, 18002, 18003]),
            col("ts", "INT64", "OPTIONAL", "TIMESTAMP_MILLIS", [1600000000000, None, 1600000001000, 1600000002000]),
            col("u16", "INT32", "REQUIRED", "UINT_16", [1, 2, 65535, 4]),
            col("tu", "INT64", "REQUIRED", "TIMESTAMP_MICROS", [1600000000000000, 1600000001000000, 1600000002000000, 1600000003000000])]
    data = PW.build_file({"created_by": "parquet-mr version 1.12.0", "schema": [c[0] for c in cols],
                          "row_groups": [{"num_rows": 4, "columns": [c[1] for c in cols]}]})
    foreign = os.path.join(d, "foreign.parquet")
    with open(foreign, "wb") as f:
        f.write(data)
    files["foreign"] = foreign
    return files


def kind_of(dtype):
    import numpy as np
    try:
        if not isinstance(dtype, str) and not hasattr(dtype, "name"):
            dtype = np.dtype(type(dtype)) if not isinstance(dtype, type) else np.dtype(dtype)
    except Exception:
        pass
    s = str(dtype)
    if s in ("object", "str", "string"):
        return "text"
    return s


def job(args):
    jid, opts, base = args
    fp = use_repo()
    d = os.path.join(base, "p%d" % jid)
    shutil.rmtree(d, ignore_errors=True)      # a re-run of this job (after a time-out) starts clean
    os.makedirs(d)
    out = {"jid": jid, "viol": [], "evals": 0}
    try:
        files = build_files(fp, d)
        for oi, o in enumerate(opts):
            path = files[o["file"]]
            sig = {"file": o["file"], "columns": o["columns"], "categories": o["categories"], "index": o["index"],
                   "pandas_nulls": bool(o["pandas_nulls"]), "dtypes": o["dtypes"], "handle": o["handle"]}
            try:
                pf = fp.ParquetFile(path, pandas_nulls=bool(o["pandas_nulls"]))
                if o["handle"] == "first":
                    pf = pf[0:1]
                elif o["handle"] == "rest":
                    pf = pf[1:]
                elif o["handle"] == "empty":
                    pf = pf[0:0]
                elif o["handle"] == "pickled":
                    import pickle
                    pf = pickle.loads(pickle.dumps(pf))
                allcols = list(pf.columns) + list(pf.cats)
                catcol = "k" if "k" in pf.columns else ("txt" if "txt" in pf.columns else None)
                if o["columns"] == "all":
                    columns = None
                elif o["columns"] == "subset":
                    columns = allcols[::2]
                else:
                    columns = list(reversed(allcols))
                if o["categories"] == "none":
                    cats = None
                elif o["categories"] == "empty":
                    cats = []
                elif catcol is None or (columns is not None and catcol not in columns):
                    continue
                elif o["categories"] == "list":
                    cats = [catcol]
                else:
                    cats = {catcol: 3}
                idxcol = "i64" if "i64" in allcols else "x"      # a column without missing values
                timecol = ("tu" if (oi % 2 == 0 or "tm" not in allcols) else "tm") if "tu" in allcols else None
                if o["index"] == "time" and timecol is None:
                    continue
                index = {"none": None, "false": False, "name": idxcol, "time": timecol}[o["index"]]
                dto = None
                if o["dtypes"] == "override":
                    # the dtypes argument replaces the whole prediction: start from it and change one numeric column
                    dto = dict(pf._dtypes(cats))
                    num = [c for c in dto if str(dto[c]) in ("int64", "int32", "uint8", "Int64", "Int32", "uint16", "UInt16")]
                    if not num:
                        continue
                    dto[num[0]] = "float64"
                    dto = {"full": dto, "changed": num[0]}
                # ---- prediction from metadata only ----
                pred_cols = columns if columns is not None else allcols
                pred_dtypes = pf._dtypes(cats) if hasattr(pf, "_dtypes") else dict(pf.dtypes)
                pred_rows = pf.count()
                pred_info_rows = pf.info["rows"]
                pred_rg = [rg.num_rows for rg in pf.row_groups]
                pred_index = pf._get_index(index) if index is not False else []
                # ---- the read ----
                out["evals"] += 1
                kw = {}
                if dto is not None:
                    kw["dtypes"] = dto["full"]
                df = pf.to_pandas(columns=columns, categories=cats, index=index, **kw)
            except BaseException as e:  # noqa
                out["viol"].append((dict(sig, what="prediction or read raised", exc=type(e).__name__), oi))
                continue
            real_cols = list(df.columns)
            import pandas as pd
            # (a range index is not a column of the file, whatever it is called)
            idx_names = [] if isinstance(df.index, pd.RangeIndex) else [nm for nm in df.index.names if nm is not None]
            want_cols = [c for c in pred_cols if c not in (pred_index or [])]
            if real_cols != want_cols:
                out["viol"].append((dict(sig, what="column names or order differ from the prediction"), oi))
                continue
            if sorted(idx_names) != sorted(pred_index or []):
                out["viol"].append((dict(sig, what="index columns differ from the prediction"), oi))
            elif len(idx_names) == 1 and idx_names[0] in pred_dtypes and o["dtypes"] == "none" and \
                    kind_of(pred_dtypes[idx_names[0]]) != kind_of(df.index.dtype):
                out["viol"].append((dict(sig, what="dtype of the index read differs from the dtype predicted for that column",
                                         predicted=kind_of(pred_dtypes[idx_names[0]]), read=kind_of(df.index.dtype)), oi))
            if len(df) != pred_rows or pred_info_rows != pred_rows or sum(pred_rg) != pred_rows:
                out["viol"].append((dict(sig, what="row counts reported from metadata differ from the rows read"), oi))
            for c in real_cols:
                if c in pf.cats:
                    if str(df[c].dtype) != "category":
                        out["viol"].append((dict(sig, what="partition column does not come back as reported", column_kind="partition"), oi))
                    continue
                if dto is not None and c == dto["changed"]:
                    if str(df[c].dtype) != "float64":
                        out["viol"].append((dict(sig, what="dtype override not honoured"), oi))
                    continue
                if c in pred_dtypes and kind_of(pred_dtypes[c]) != kind_of(df[c].dtype):
                    out["viol"].append((dict(sig, what="dtype read differs from the dtype predicted from metadata",
                                             predicted=kind_of(pred_dtypes[c]), read=kind_of(df[c].dtype)), oi))
            if o["categories"] == "none":
                for c in (pf.categories or {}):
                    if c in real_cols and str(df[c].dtype) != "category":
                        out["viol"].append((dict(sig, what="column reported categorical is not read as category"), oi))
    except BaseException:  # noqa
        out["error"] = traceback.format_exc()
    finally:
        shutil.rmtree(d, ignore_errors=True)
    return out


# ---------------------------------------------------------------------------------------------------------
# part B: the dtype table (spec/DtypeTable.tla) - one single-column file from the independent encoder per case
# ---------------------------------------------------------------------------------------------------------

def norm_dtype(dt):
    import numpy as np
    s = str(dt)
    try:
        if not isinstance(dt, str) and not hasattr(dt, "name"):
            s = str(np.dtype(type(dt)))          # the code announces np.float64() (an instance) for "float64"
        elif isinstance(dt, str):
            s = str(np.dtype(dt))        # 'M8[ns]' -> datetime64[ns]; extension names (Int64, boolean) are not numpy dtypes: kept
    except Exception:
        pass
    if s in ("object", "str", "string", "<U0"):
        return "object"
    return s.replace("<M8", "datetime64").replace("<m8", "timedelta64").lstrip("<|")


def table_file(case):
    pt, ct, lts = case["pt"], case["ct"], case["lts"]
    node = {"name": "x", "type": pt, "repetition": case["rep"], "converted_type": None if ct == "none" else ct}
    if pt == "FIXED_LEN_BYTE_ARRAY":
        node["type_length"] = 3
    if ct == "DECIMAL":
        node["scale"], node["precision"] = 1, 5
    if lts != "none":
        node["logical_type"] = {"TIMESTAMP": {"isAdjustedToUTC": False,
                                              "unit": {{"ms": "MILLIS", "us": "MICROS", "ns": "NANOS"}[lts]: {}}}}
    base = {"INT32": [1, 2, 3], "INT64": [1000, 2000, 3000],        # whole seconds in every unit down to ms
            "FLOAT": [0.5, 1.5, 2.5], "DOUBLE": [0.5, 1.5, 2.5],
            "BOOLEAN": [True, False, True], "INT96": [bytes(8) + (2440588 + i).to_bytes(4, "little") for i in range(3)],
            "BYTE_ARRAY": [b"\x01\x02", b"\x03", b"\x04\x05"] if ct == "DECIMAL" else [b'"a"', b'"bc"', b'"d"'],
            "FIXED_LEN_BYTE_ARRAY": [b"\x00\x01\x02", b"\x00\x00\x07", b"\x00\x02\x00"]}[pt]
    rgs = []
    for g in range(2):
        cells = list(base)
        if case["stat"] == "some" and g == 1:
            cells[1] = None
        nn = [v for v in cells if v is not None]
        page = {"version": 1, "encoding": "PLAIN", "values": nn,
                "def_levels": [0 if v is None else 1 for v in cells] if case["rep"] == "OPTIONAL" else None}
        stats = None if case["stat"] == "absent" else {"null_count": sum(v is None for v in cells)}
        rgs.append({"num_rows": 3, "columns": [{"path": ["x"], "codec": "UNCOMPRESSED", "dictionary": None, "pages": [page],
                                                "statistics": stats}]})
    kv = {}
    if case["md"] != "absent":
        nt = case["mdtype"]
        ptype = ("datetime" if nt.startswith("datetime") else "bytes" if nt == "object" and ct not in ("UTF8", "JSON")
                 else "unicode" if nt == "object" else nt.lower() if nt[:1].isupper() and case["md"] != "nullable" else nt)
        if case["md"] == "tz":
            ptype = "datetimetz"
        kv["pandas"] = json.dumps({"columns": [{"name": "x", "field_name": "x", "pandas_type": ptype, "numpy_type": nt,
                                                "metadata": ({"timezone": "UTC"} if case["md"] == "tz" else None)}],
                                   "index_columns": [], "column_indexes": [], "pandas_version": "2.0.0",
                                   "creator": {"library": "other", "version": "1"}, "partition_columns": []})
    return PW.build_file({"created_by": "parquet-mr version 1.12.0", "kv": kv, "schema": [node], "row_groups": rgs})


def table_job(args):
    jid, cases = args
    fp = use_repo()
    out = {"jid": jid, "viol": [], "drift": [], "evals": 0, "raised": 0, "machinery": []}
    for ci, case in enumerate(cases):
        sig = {"physical": case["pt"], "converted": case["ct"], "logical_unit": case["lts"], "pandas_metadata": case["md"],
               "statistics": case["stat"], "pandas_nulls": bool(case["pandas_nulls"])}
        try:
            data = table_file(case)
        except Exception as e:  # noqa
            out["machinery"].append("%r: %r" % (sig, e))
            continue
        try:
            pf = fp.ParquetFile(io.BytesIO(data), pandas_nulls=bool(case["pandas_nulls"]))
            ann = norm_dtype(pf._dtypes()["x"])
            ann2 = norm_dtype(pf.dtypes["x"])
        except BaseException as e:  # noqa
            out["raised"] += 1
            out.setdefault("raised_sigs", []).append("announce %s/%s/%s md=%s: %s" % (case["pt"], case["ct"], case["lts"], case["md"], type(e).__name__))
            continue
        out["evals"] += 1
        if ann != ann2:
            out["viol"].append((dict(sig, what="dtypes attribute and _dtypes() announce different dtypes"), ci))
        try:
            real = norm_dtype(pf.to_pandas()["x"].dtype)
        except BaseException as e:  # noqa
            out["raised"] += 1           # decoding is C03's concern; nothing was read, nothing to compare
            out.setdefault("raised_sigs", []).append("read %s/%s/%s md=%s stat=%s nulls=%s: %s" % (
                case["pt"], case["ct"], case["lts"], case["md"], case["stat"], case["pandas_nulls"], type(e).__name__))
            continue
        if real != ann:
            out["viol"].append((dict(sig, what="dtype read differs from the dtype announced from metadata", announced=ann, read=real), ci))
            continue
        try:
            empty = norm_dtype(pf[0:0].to_pandas()["x"].dtype)
            if empty != ann:
                out["viol"].append((dict(sig, what="dtype of a zero-row selection differs from the announced dtype",
                                         announced=ann, read=empty), ci))
                continue
        except BaseException as e:  # noqa
            out["viol"].append((dict(sig, what="zero-row selection cannot be read", exc=type(e).__name__), ci))
            continue
        if ann != case["announce"]:
            out["drift"].append({"case": sig, "spec": case["announce"], "code": ann})
    return out


def run(tier, seed):
    t = Timer()
    ev = Evidence(PID, tier, seed, "model_checking")
    ev.assumptions = ["TLC enumerates the product of file classes and read options; prediction and realisation are both "
                      "observations of the real code (the dtype case analysis of _dtypes is not transcribed)",
                      "text may be reported/read as object or str", "files: own (with/without pandas metadata), foreign "
                      "(independent encoder), hive and drill partitioned"]
    with scratch() as work:
        rc = _run(ev, work, tier == "thorough")
    ev.write(t.s())
    return rc


def _run(ev, work, thorough):
    cfg = os.path.join(work, "pred.cfg")
    T.write_cfg(cfg, spec="Spec", constants={"FileClasses": "<- FilesAll", "ColumnOpts": "<- ColsAllOpts",
                                             "CategoryOpts": "<- CatsAll", "IndexOpts": "<- IdxAll",
                                             "NullOpts": "<- NullsBoth", "DtypeOpts": "<- DtypesBoth",
                                             "HandleOpts": "<- HandlesAll"},
                invariants=["Export"], check_deadlock=False)
    res = T.run_tlc("Predict", cfg, work, timeout=1200, coverage=True)
    opts = res.printed_json()
    if not res.completed or not opts:
        raise T.TLCError("Predict export failed:\n" + res.out[-2000:])
    ev.add_tlc("Predict: file classes x read-option tuples", res, option_tuples=len(opts))
    base = os.path.join(work, "pred")
    os.makedirs(base)
    chunks = [opts[i::16] for i in range(16)]
    jobs = [(i, c, base) for i, c in enumerate(chunks) if c]
    results = pmap(job, jobs, job_timeout=600)
    verd = Verdicts(PID, os.path.join(HOME, "replays"))
    for j, r in zip(jobs, results):
        if isinstance(r, Crashed):
            verd.add({"what": "interpreter crashed or hung"}, {"first": j[1][0]})
            continue
        if not isinstance(r, dict) or "error" in r:
            raise RuntimeError("machinery failed:\n%s" % (r if not isinstance(r, dict) else r["error"]))
        ev.evaluations += r["evals"]
        for sig, oi in r["viol"]:
            verd.add(sig, {"options": j[1][oi]})
    # ---- part B: dtype table ----
    cfg = os.path.join(work, "dt.cfg")
    T.write_cfg(cfg, spec="Spec", constants={"Physicals": "<- PhysAll", "Converteds": "<- ConvAll", "LogicalUnits": "<- UnitsAll",
                                             "Repetitions": "<- RepsBoth", "MdKinds": "<- MdAll", "StatKinds": "<- StatsAll",
                                             "NullOpts": "<- NullsBoth"},
                invariants=["NullsRepresentable", "OptionOnlyMattersForIntLike", "Export"], check_deadlock=False)
    tres = T.run_tlc("DtypeTableMC", cfg, work, timeout=1200)
    table = tres.printed_json()
    if not tres.completed or not table:
        raise T.TLCError("DtypeTable failed: %s\n%s" % (tres.violated, tres.out[-2000:]))
    ev.add_tlc("DtypeTable: schema element x pandas-metadata kind x statistics x pandas_nulls, with the announced dtype", tres,
               cases=len(table))
    tjobs = [(i, table[i::16]) for i in range(16) if table[i::16]]
    drift, raised, rs = [], 0, {}
    for j, r in zip(tjobs, pmap(table_job, tjobs, job_timeout=600)):
        if isinstance(r, Crashed):
            verd.add({"what": "interpreter crashed or hung (dtype table)"}, {"first": j[1][0]})
            continue
        if r["machinery"]:
            raise RuntimeError("independent encoder failed: %s" % r["machinery"][:3])
        ev.evaluations += r["evals"]
        raised += r["raised"]
        for x in r.get("raised_sigs", []):
            rs[x] = rs.get(x, 0) + 1
        drift.extend(r["drift"])
        for sig, ci in r["viol"]:
            verd.add(sig, {"case": j[1][ci]})
    for c in table:
        ev.nontrivial.add(json.dumps(c, sort_keys=True))
    ev.extra["dtype_table_cases"] = len(table)
    ev.extra["dtype_table_reads_refused"] = raised
    ev.extra["dtype_table_refusals"] = rs
    if drift:
        groups = {}
        for dct in drift:
            key = json.dumps({"spec": dct["spec"], "code": dct["code"], "physical": dct["case"]["physical"],
                              "converted": dct["case"]["converted"], "md": dct["case"]["pandas_metadata"]}, sort_keys=True)
            groups[key] = groups.get(key, 0) + 1
        ev.drift.append({"what": "announced dtype differs from spec/DtypeTable.tla's transcription (contract holds)",
                         "cases": len(drift), "groups": [dict(json.loads(k), n=v) for k, v in sorted(groups.items())][:40]})
        print("DRIFT: %d dtype-table cases where the code announces another dtype than the transcription (contract holds)" % len(drift))
    for o in opts:
        ev.nontrivial.add(json.dumps(o, sort_keys=True))
    ev.rule = ("every (file class, handle, columns, categories, index, pandas_nulls, dtypes) tuple TLC enumerates, and every "
               "case of the dtype table (schema element x pandas-metadata kind x statistics kind x pandas_nulls) with the "
               "dtype spec/DtypeTable.tla announces for it; non-trivial = distinct tuples / cases")
    ev.exhaustive = True
    ev.sample(opts[0])
    n = verd.report(ev)
    return 1 if n else 0


def replay(path):
    print(open(path).read()[:2000])
    return 1
