"""C17 - metadata-only answers (columns, dtypes, counts) match the data actually read (spec/Predict.tla)."""
import io
import json
import os
import shutil
import traceback

from ..common import Timer, scratch, HOME, use_repo
from ..evidence import Evidence
from ..findings import Verdicts
from ..parallel import pmap, Crashed
from .. import tlc as T
from ..pqspec import writer as PW

PID = "C17"


def build_files(fp, d):
    import pandas as pd
    import numpy as np
    n = 7
    df = pd.DataFrame({
        "x": np.arange(n, dtype="int64") * 11 + 50001, "u": np.arange(n, dtype="uint8") + 100,
        "f": [np.nan if i == 2 else i * 0.25 + 1 for i in range(n)],
        "s": pd.Series([None if i == 4 else "w%03d" % i for i in range(n)], dtype=object),
        "b": [bool(i % 2) for i in range(n)], "t": pd.date_range("2022-05-01", periods=n, freq="D"),
        "k": pd.Categorical([["ca", "cb", "cc"][i % 3] for i in range(n)]),
        "ni": pd.array([None if i == 1 else i * 3 for i in range(n)], dtype="Int64"),
        "nb": pd.array([None if i == 5 else bool(i % 2) for i in range(n)], dtype="boolean"),
        "p": [i % 2 for i in range(n)], "q": [["qa", "qb"][i % 2] for i in range(n)]})
    files = {}
    own = os.path.join(d, "own.parquet")
    fp.write(own, df.drop(columns=["p", "q"]), row_group_offsets=[0, 3, 5], write_index=False)
    files["own"] = own
    nometa = os.path.join(d, "own_nometa.parquet")
    fp.write(nometa, df.drop(columns=["p", "q", "k"]), row_group_offsets=[0, 4], write_index=False)
    fp.writer.update_file_custom_metadata(nometa, {"pandas": None})
    files["own_nometa"] = nometa
    for scheme in ("hive", "drill"):
        p = os.path.join(d, scheme)
        fp.write(p, df.drop(columns=["ni", "nb"]), file_scheme=scheme, partition_on=["p", "q"], row_group_offsets=[0, 4],
                 write_index=False)
        files[scheme] = p

    def col(name, ptype, rep, ct, values, dictionary=None):
        nn = [v for v in values if v is not None]
        page = {"version": 1, "encoding": "DICT" if dictionary else "PLAIN",
                "values": [dictionary.index(v) for v in nn] if dictionary else nn,
                "def_levels": [0 if v is None else 1 for v in values] if rep == "OPTIONAL" else None}
        return ({"name": name, "type": ptype, "repetition": rep, "converted_type": ct},
                {"path": [name], "codec": "UNCOMPRESSED", "dictionary": dictionary, "pages": [page], "statistics": "auto"})
    cols = [col("i32", "INT32", "OPTIONAL", None, [5, None, 7, 8]), col("i64", "INT64", "REQUIRED", None, [1, 2, 3, 4]),
            col("dbl", "DOUBLE", "OPTIONAL", None, [0.5, 1.5, None, 2.5]),
            col("txt", "BYTE_ARRAY", "OPTIONAL", "UTF8", [b"aa", None, b"cc", b"dd"], [b"aa", b"cc", b"dd"]),
            col("flag", "BOOLEAN", "OPTIONAL", None, [True, None, False, True]),
            col("day", "INT32", "REQUIRED", "DATE", [18000, 18001, 18002, 18003]),
            col("ts", "INT64", "OPTIONAL", "TIMESTAMP_MILLIS", [1600000000000, None, 1600000001000, 1600000002000]),
            col("u16", "INT32", "REQUIRED", "UINT_16", [1, 2, 65535, 4])]
    data = PW.build_file({"created_by": "parquet-mr version 1.12.0", "schema": [c[0] for c in cols],
                          "row_groups": [{"num_rows": 4, "columns": [c[1] for c in cols]}]})
    foreign = os.path.join(d, "foreign.parquet")
    with open(foreign, "wb") as f:
        f.write(data)
    files["foreign"] = foreign
    return files


def kind_of(dtype):
    import numpy as np
    try:
        if not isinstance(dtype, str) and not hasattr(dtype, "name"):
            dtype = np.dtype(type(dtype)) if not isinstance(dtype, type) else np.dtype(dtype)
    except Exception:
        pass
    s = str(dtype)
    if s in ("object", "str", "string"):
        return "text"
    return s


def job(args):
    jid, opts, base = args
    fp = use_repo()
    d = os.path.join(base, "p%d" % jid)
    os.makedirs(d)
    out = {"jid": jid, "viol": [], "evals": 0}
    try:
        files = build_files(fp, d)
        for oi, o in enumerate(opts):
            path = files[o["file"]]
            sig = {"file": o["file"], "columns": o["columns"], "categories": o["categories"], "index": o["index"],
                   "pandas_nulls": bool(o["pandas_nulls"]), "dtypes": o["dtypes"]}
            try:
                pf = fp.ParquetFile(path, pandas_nulls=bool(o["pandas_nulls"]))
                allcols = list(pf.columns) + list(pf.cats)
                catcol = "k" if "k" in pf.columns else ("txt" if "txt" in pf.columns else None)
                if o["columns"] == "all":
                    columns = None
                elif o["columns"] == "subset":
                    columns = allcols[::2]
                else:
                    columns = list(reversed(allcols))
                if o["categories"] == "none":
                    cats = None
                elif o["categories"] == "empty":
                    cats = []
                elif catcol is None or (columns is not None and catcol not in columns):
                    continue
                elif o["categories"] == "list":
                    cats = [catcol]
                else:
                    cats = {catcol: 3}
                idxcol = "i64" if "i64" in allcols else "x"      # a column without missing values
                index = {"none": None, "false": False, "name": idxcol}[o["index"]]
                dto = None
                if o["dtypes"] == "override":
                    # the dtypes argument replaces the whole prediction: start from it and change one numeric column
                    dto = dict(pf._dtypes(cats))
                    num = [c for c in dto if str(dto[c]) in ("int64", "int32", "uint8", "Int64", "Int32", "uint16", "UInt16")]
                    if not num:
                        continue
                    dto[num[0]] = "float64"
                    dto = {"full": dto, "changed": num[0]}
                # ---- prediction from metadata only ----
                pred_cols = columns if columns is not None else allcols
                pred_dtypes = pf._dtypes(cats) if hasattr(pf, "_dtypes") else dict(pf.dtypes)
                pred_rows = pf.count()
                pred_info_rows = pf.info["rows"]
                pred_rg = [rg.num_rows for rg in pf.row_groups]
                pred_index = pf._get_index(index) if index is not False else []
                # ---- the read ----
                out["evals"] += 1
                kw = {}
                if dto is not None:
                    kw["dtypes"] = dto["full"]
                df = pf.to_pandas(columns=columns, categories=cats, index=index, **kw)
            except BaseException as e:  # noqa
                out["viol"].append((dict(sig, what="prediction or read raised", exc=type(e).__name__), oi))
                continue
            real_cols = list(df.columns)
            idx_names = [nm for nm in df.index.names if nm is not None]
            want_cols = [c for c in pred_cols if c not in (pred_index or [])]
            if real_cols != want_cols:
                out["viol"].append((dict(sig, what="column names or order differ from the prediction"), oi))
                continue
            if sorted(idx_names) != sorted(pred_index or []):
                out["viol"].append((dict(sig, what="index columns differ from the prediction"), oi))
            if len(df) != pred_rows or pred_info_rows != pred_rows or sum(pred_rg) != pred_rows:
                out["viol"].append((dict(sig, what="row counts reported from metadata differ from the rows read"), oi))
            for c in real_cols:
                if c in pf.cats:
                    if str(df[c].dtype) != "category":
                        out["viol"].append((dict(sig, what="partition column does not come back as reported", column_kind="partition"), oi))
                    continue
                if dto is not None and c == dto["changed"]:
                    if str(df[c].dtype) != "float64":
                        out["viol"].append((dict(sig, what="dtype override not honoured"), oi))
                    continue
                if c in pred_dtypes and kind_of(pred_dtypes[c]) != kind_of(df[c].dtype):
                    out["viol"].append((dict(sig, what="dtype read differs from the dtype predicted from metadata",
                                             predicted=kind_of(pred_dtypes[c]), read=kind_of(df[c].dtype)), oi))
            if o["categories"] == "none":
                for c in (pf.categories or {}):
                    if c in real_cols and str(df[c].dtype) != "category":
                        out["viol"].append((dict(sig, what="column reported categorical is not read as category"), oi))
    except BaseException:  # noqa
        out["error"] = traceback.format_exc()
    finally:
        shutil.rmtree(d, ignore_errors=True)
    return out


def run(tier, seed):
    t = Timer()
    ev = Evidence(PID, tier, seed, "model_checking")
    ev.assumptions = ["TLC enumerates the product of file classes and read options; prediction and realisation are both "
                      "observations of the real code (the dtype case analysis of _dtypes is not transcribed)",
                      "text may be reported/read as object or str", "files: own (with/without pandas metadata), foreign "
                      "(independent encoder), hive and drill partitioned"]
    with scratch() as work:
        rc = _run(ev, work, tier == "thorough")
    ev.write(t.s())
    return rc


def _run(ev, work, thorough):
    cfg = os.path.join(work, "pred.cfg")
    T.write_cfg(cfg, spec="Spec", constants={"FileClasses": "<- FilesAll", "ColumnOpts": "<- ColsAllOpts",
                                             "CategoryOpts": "<- CatsAll", "IndexOpts": "<- IdxAll",
                                             "NullOpts": "<- NullsBoth", "DtypeOpts": "<- DtypesBoth"},
                invariants=["Export"], check_deadlock=False)
    res = T.run_tlc("Predict", cfg, work, timeout=1200, coverage=True)
    opts = res.printed_json()
    if not res.completed or not opts:
        raise T.TLCError("Predict export failed:\n" + res.out[-2000:])
    ev.add_tlc("Predict: file classes x read-option tuples", res, option_tuples=len(opts))
    base = os.path.join(work, "pred")
    os.makedirs(base)
    chunks = [opts[i::16] for i in range(16)]
    jobs = [(i, c, base) for i, c in enumerate(chunks) if c]
    results = pmap(job, jobs, job_timeout=600)
    verd = Verdicts(PID, os.path.join(HOME, "replays"))
    for j, r in zip(jobs, results):
        if isinstance(r, Crashed):
            verd.add({"what": "interpreter crashed or hung"}, {"first": j[1][0]})
            continue
        if not isinstance(r, dict) or "error" in r:
            raise RuntimeError("machinery failed:\n%s" % (r if not isinstance(r, dict) else r["error"]))
        ev.evaluations += r["evals"]
        for sig, oi in r["viol"]:
            verd.add(sig, {"options": j[1][oi]})
    for o in opts:
        ev.nontrivial.add(json.dumps(o, sort_keys=True))
    ev.rule = ("every (file class, columns, categories, index, pandas_nulls, dtypes) tuple TLC enumerates; non-trivial = "
               "distinct tuples")
    ev.exhaustive = True
    ev.sample(opts[0])
    n = verd.report(ev)
    return 1 if n else 0


def replay(path):
    print(open(path).read()[:2000])
    return 1
