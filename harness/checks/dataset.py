"""Binding of spec/Dataset.tla to the real code (shared by C07, C09, C18, C19).

spec -> code : operation histories exported by TLC (DatasetExport) are replayed in real directories; after
               every operation the contract is evaluated on the real directory by an independent projector
               (pqspec) and by a fresh ParquetFile of the library.
code -> spec : every filesystem call of every replayed operation is recorded through caller-supplied
               open_with / mkdirs / remove_with / fs wrappers (no source hooks) and validated by TLC against
               DatasetTrace; faults are injected at every call of an append (C19).
"""
import json
import os
import re
import shutil
import traceback

from ..common import use_repo
from ..parallel import pmap, Crashed
from .. import tlc as T
from ..observe.iorec import Recorder, Fault, make_fs
from ..pqspec import reader as PR

KEYVALS = {1: 1, 2: 2, 3: 3}


def rows_of(g):
    return 1 + g % 2


def xval(g, j):
    return g * 100 + j


def path_str(p):
    if p["k"] == -1:
        return "_metadata" if p["i"] == 0 else "_common_metadata"
    name = "part.%d.parquet%s" % (p["i"], ".tmp" if p["t"] else "")
    return name if p["k"] == 0 else "p=%d/%s" % (KEYVALS[p["k"]], name)


def path_rec(s):
    """real relative path -> abstract path record (or None if not a dataset file)"""
    if s == "_metadata":
        return {"k": -1, "i": 0, "t": 0}
    if s == "_common_metadata":
        return {"k": -1, "i": 1, "t": 0}
    d, _, name = s.rpartition("/")
    k = 0
    if d:
        if not d.startswith("p=") or "/" in d:
            return None
        try:
            k = int(d[2:])
        except ValueError:
            return None
    t = 0
    if name.endswith(".tmp"):
        t = 1
        name = name[:-4]
    if not (name.startswith("part.") and name.endswith(".parquet")):
        return None
    try:
        i = int(name[5:-8])
    except ValueError:
        return None
    return {"k": k, "i": i, "t": t}


# set per replayed history: the frames carry a named row index ("rid", a function of x) that is WRITTEN with the data
# (C07: "... with and without partition_on and written index"); what comes back must carry the same labels
WIDX = False


def rid_label(x):
    return (x * x) % 9973 + 3 * x + 20000


def build_frame(pd, groups, chunk_of, part, nchunks=None):
    """groups: list of {k, g}; chunk_of: g -> chunk index.  Returns (frame, row_group_offsets).
    An empty chunk yields two equal offsets (it consumes a part number but writes no file)."""
    rows = []
    if nchunks is None:
        nchunks = (max(chunk_of.values()) + 1) if chunk_of else 1
    offs = []
    for c in range(nchunks):
        offs.append(len(rows))
        for gr in groups:
            if chunk_of[gr["g"]] != c:
                continue
            for j in range(rows_of(gr["g"])):
                rows.append((KEYVALS.get(gr["k"], 0), xval(gr["g"], j), "s%05d" % xval(gr["g"], j)))
    pcol = pd.Series([r[0] for r in rows], dtype="int64")
    if part == "cat":
        # the partition column as a categorical declaring ALL key values (most frames leave some unused)
        pcol = pd.Series(pd.Categorical([r[0] for r in rows], categories=sorted(KEYVALS.values())))
    df = pd.DataFrame({"p": pcol,
                       "x": pd.Series([r[1] for r in rows], dtype="int64"),
                       "s": pd.Series([r[2] for r in rows], dtype="str")})
    if not part:
        df = df[["x", "s"]]
    if WIDX:
        df.index = pd.Index([rid_label(r[1]) for r in rows], name="rid", dtype="int64")
    return df, (offs or [0])


def chunks_from_steps(steps):
    m = {}
    nums = sorted({s["p"]["i"] for s in steps if s["c"] == "openw" and s["p"]["k"] >= 0})
    for s in steps:
        if s["c"] == "openw" and s["p"]["k"] >= 0:
            m[s["g"]] = nums.index(s["p"]["i"])
    return m


def chunk_map(opr, part):
    """g -> chunk index and number of chunks, from the frame argument TLC exported"""
    groups = opr.get("groups") or opr.get("newgroups") or []
    frame = opr.get("frame")
    if not frame:
        m = chunks_from_steps(opr["steps"])
        return m, ((max(m.values()) + 1) if m else 1)
    m = {}
    it = iter(groups)
    for c, keys in enumerate(frame):
        n = len(keys) if part else 1
        for _ in range(n):
            try:
                m[next(it)["g"]] = c
            except StopIteration:
                break
    return m, len(frame)


def project(d):
    """Independent projection of a real dataset directory."""
    out = {"files": {}, "refs": None, "meta_problems": [], "common": None, "other": []}
    for root, _, files in os.walk(d):
        for fn in files:
            rel = os.path.relpath(os.path.join(root, fn), d)
            rec = path_rec(rel)
            if rec is None:
                out["other"].append(rel)
                continue
            if rec["k"] >= 0:
                with open(os.path.join(root, fn), "rb") as f:
                    data = f.read()
                fv = PR.read_file(data, strict=False)
                info = {"problems": list(fv.problems), "rows": None, "xs": None, "schema": None}
                if not fv.problems:
                    try:
                        info["xs"] = fv.column("x")
                        info["rows"] = len(info["xs"])
                        info["schema"] = _schema_sig(fv.meta)
                    except Exception as e:  # noqa
                        info["problems"].append("projector: %r" % (e,))
                out["files"][rel] = info
    mp = os.path.join(d, "_metadata")
    if os.path.exists(mp):
        with open(mp, "rb") as f:
            data = f.read()
        fv = PR.read_file(data, strict=False)
        out["meta_problems"] = list(fv.problems)
        if fv.meta is not None and not [p for p in fv.problems if p.startswith(("E-MAGIC", "E-FOOTERLEN", "E-THRIFT"))]:
            refs = []
            for rg in fv.meta.get("row_groups", []):
                cols = rg.get("columns", [])
                fp_ = cols[0].get("file_path") if cols else None
                refs.append(((fp_.decode() if isinstance(fp_, bytes) else fp_), rg.get("num_rows")))
            out["refs"] = refs
            out["meta_schema"] = _schema_sig(fv.meta)
            out["meta_num_rows"] = fv.meta.get("num_rows")
    cp = os.path.join(d, "_common_metadata")
    if os.path.exists(cp):
        with open(cp, "rb") as f:
            fv = PR.read_file(f.read(), strict=False)
        out["common"] = {"problems": [p for p in fv.problems if not p.startswith("E-ROWS")],
                         "schema": _schema_sig(fv.meta) if fv.meta else None}
    return out


def _schema_sig(meta):
    sig = []
    for el in meta.get("schema", [])[1:]:
        sig.append((el.get("name"), el.get("type"), el.get("converted_type"), el.get("repetition_type")))
    return sig


def evaluate(fp, d, model, ordered, ok, part):
    """Contract of C09 on the real directory.  Returns (violations, drift-relevant projection)."""
    viol = []
    pr = project(d)
    # --- the summary parses and every reference is good ---
    if pr["refs"] is None:
        viol.append("summary metadata missing or unparseable: %s" % (pr["meta_problems"][:2],))
        return viol, pr
    strictp = [p for p in pr["meta_problems"] if not p.startswith("W-")]
    if strictp:
        viol.append("summary metadata structurally invalid: %s" % sorted({p.split()[0] + (" chunks overlap (two row groups"
                    " reference the same bytes)" if "overlap" in p else "") for p in strictp}))
    gs = []
    for path, n in pr["refs"]:
        info = pr["files"].get(path)
        if info is None:
            viol.append("referenced data file does not exist")
            continue
        if info["problems"]:
            viol.append("referenced data file is not a valid parquet file: %s" % sorted({p.split()[0] for p in info["problems"]}))
            continue
        if info["rows"] != n:
            viol.append("referenced data file holds a different number of rows than the summary states")
        gs.append(sorted({x // 100 for x in info["xs"]}))
    if ok:
        extra = sorted(set(pr["files"]) - {p for p, _ in pr["refs"]})
        if extra:
            viol.append("unreferenced part file left behind")
        if pr["common"] is None:
            viol.append("_common_metadata missing")
        elif pr["common"]["problems"] or pr["common"]["schema"] != pr.get("meta_schema"):
            viol.append("_common_metadata invalid or its schema differs from _metadata")
        for path, info in pr["files"].items():
            if info["schema"] is not None and info["schema"] != pr.get("meta_schema"):
                viol.append("summary schema differs from a data file's schema")
                break
    # --- content through the library's reader ---
    want = []
    for gr in model:
        for j in range(rows_of(gr["g"])):
            want.append((KEYVALS.get(gr["k"], 0) if part else None, xval(gr["g"], j), "s%05d" % xval(gr["g"], j))
                        + ((rid_label(xval(gr["g"], j)),) if WIDX else ()))
    try:
        pf = fp.ParquetFile(d)
        df = pf.to_pandas()
        got = []
        for i in range(len(df)):
            pv = int(df["p"].iloc[i]) if part and "p" in df.columns else None
            got.append((pv, int(df["x"].iloc[i]), str(df["s"].iloc[i]))
                       + ((int(df.index[i]) if df.index.name == "rid" else "no written index",) if WIDX else ()))
        if part and len(df) and "p" not in df.columns:
            viol.append("partition column missing from the read")
        if pf.count() != len(want) and not viol:
            viol.append("reported row count differs from the model")
        if ordered:
            if got != want:
                viol.append("content differs from the plain model (order matters: only write/append so far)")
        elif sorted(got) != sorted(want):
            viol.append("content differs from the plain model")
    except BaseException as e:  # noqa
        viol.append("dataset cannot be read back: %s" % type(e).__name__)
    return viol, pr


def do_op(fp, pd, d, opr, rec, part, fs=None):
    """Execute one abstract operation on the real directory through the public API.
    fs: the recording filesystem of the whole history (so that consecutive calls hand the library the SAME opener, as a
    program using the default opener does); its recorder is switched to `rec` for this operation."""
    steps = opr["steps"]
    kind = opr["kind"]
    if fs is None:
        fs = make_fs(rec)
    else:
        fs.rec = rec
    kw = dict(open_with=fs.open, mkdirs=rec.mkdirs)
    if kind == "write":
        cm, nch = chunk_map(opr, part)
        df, offs = build_frame(pd, opr["groups"], cm, part, nch)
        fp.write(d, df, file_scheme="hive", row_group_offsets=offs, partition_on=["p"] if part else [],
                 write_index=(None if WIDX else False), **kw)
        return
    groups = opr["newgroups"]
    cm, nch = chunk_map(opr, part)
    df, offs = build_frame(pd, groups, cm, part, nch)
    if kind == "append":
        if len(groups) % 2:
            # the appended frame may list its columns in another order than the dataset (matched by name)
            df = df[list(reversed(df.columns))]
        fp.write(d, df, file_scheme="hive", row_group_offsets=offs, partition_on=["p"] if part else [],
                 append=True, write_index=(None if WIDX else False), **kw)
    elif kind == "overwrite":
        fp.write(d, df, file_scheme="hive", row_group_offsets=offs, partition_on=["p"], append="overwrite",
                 write_index=(None if WIDX else False), **kw)
    elif kind == "wrg":
        pf = fp.ParquetFile(d, open_with=fs.open)
        bykey = any(s["c"] == "memsort" for s in steps)
        sortp = any(s["c"] == "sortnames" for s in steps)
        from fastparquet.api import partitions

        def keyfn(rg):
            v = partitions(rg)
            return int(v.split("=")[1]) if v else 0
        if WIDX:
            df = df.reset_index()          # the handle's method takes the frame as it is stored (write() resets the index itself)
        pf.write_row_groups(df, row_group_offsets=offs, sort_key=keyfn if bykey else None, sort_pnames=sortp,
                            open_with=fs.open, mkdirs=rec.mkdirs)
    elif kind == "remove":
        pf = fp.ParquetFile(d, open_with=fs.open)
        gs = set()
        for s in steps:
            if s["c"] == "memremoveg":
                gs = set(s["gs"])
        sortp = any(s["c"] == "sortnames" for s in steps)
        # identify the row groups by their content (x // 100), through statistics-free reading of each one
        victims = []
        for i, rg in enumerate(pf.row_groups):
            xs = pf[i].to_pandas(columns=["x"])["x"]
            if len(xs) and int(xs.iloc[0]) // 100 in gs:
                victims.append(rg)
        pf.remove_row_groups(victims, sort_pnames=sortp, open_with=fs.open)
    else:
        raise ValueError(kind)


def abstract_events(events):
    """recorded calls -> one event per Dataset action (consecutive writes on one handle = one write step)"""
    out = []
    lastw = None
    for e in events:
        ev = e["ev"]
        if ev == "open":
            if not any(c in e["mode"] for c in "wa+x"):
                lastw = None
                continue
            rec = path_rec(e["path"])
            out.append({"ev": "openw", "p": rec or {"k": -9, "i": 0, "t": 0}, "mode": e["mode"],
                        "existed": e["existed"]})
            lastw = None
        elif ev == "write":
            if lastw == e["path"]:
                continue
            out.append({"ev": "write", "p": path_rec(e["path"]) or {"k": -9, "i": 0, "t": 0}})
            lastw = e["path"]
        elif ev == "close":
            if "k" not in e:
                continue
            out.append({"ev": "close", "p": path_rec(e["path"]) or {"k": -9, "i": 0, "t": 0}})
            lastw = None
        elif ev == "mkdir":
            lastw = None
            if e["path"] == ".":
                out.append({"ev": "mkdirroot"})
            else:
                try:
                    out.append({"ev": "mkdir", "k": int(e["path"].split("=")[1])})
                except Exception:
                    out.append({"ev": "mkdir", "k": -9})
        elif ev == "rename":
            out.append({"ev": "rename", "src": path_rec(e["src"]) or {"k": -9, "i": 0, "t": 0},
                        "dst": path_rec(e["dst"]) or {"k": -9, "i": 0, "t": 0}})
        elif ev == "remove":
            out.append({"ev": "remove", "ps": [path_rec(p) or {"k": -9, "i": 0, "t": 0} for p in e["paths"]]})
        elif ev == "fault":
            out.append({"ev": "fault", "what": e["what"]})
            break      # what follows is clean-up of the failing call (the `with` block closing its handle)
    return out


def abstract_pre(pr, model, ordered, ng):
    """observed directory -> the pre-state record of a trace (abstract paths, row-group ids from file content)"""
    exists = pr["refs"] is not None
    files = []
    gof = {}
    for path, info in pr["files"].items():
        g = (info["xs"][0] // 100) if info.get("xs") else 0
        gof[path] = g
        files.append({"p": path_rec(path), "g": g})
    refs = [{"p": path_rec(p) or {"k": -9, "i": 0, "t": 0}, "g": gof.get(p, 0)} for p, _ in (pr["refs"] or [])]
    return {"exists": exists, "files": files, "refs": refs, "model": model, "ordered": ordered, "ng": ng}


def begin_event(opr, part):
    steps = opr["steps"]
    groups = opr.get("groups") or opr.get("newgroups") or []
    ch, nchunks = chunk_map(opr, part)
    if not groups:
        nchunks = 0
    frame = [[] for _ in range(nchunks)]
    for gr in groups:
        frame[ch[gr["g"]]].append(gr["k"] if part else 1)
    gs = []
    for s in steps:
        if s["c"] == "memremoveg":
            gs = list(s["gs"])
    return {"ev": "begin", "kind": opr["kind"], "part": bool(part), "frame": [sorted(set(c)) for c in frame],
            "bykey": any(s["c"] == "memsort" for s in steps) and opr["kind"] == "wrg",
            "sortp": any(s["c"] == "sortnames" for s in steps), "gs": gs}


def event_contract(kind, events, referenced):
    """Contract clauses that are statements about the calls themselves (C07, C19)."""
    bad = []
    if kind != "append":
        return bad
    for e in events:
        if e["ev"] == "open" and any(c in e["mode"] for c in "wa+x") and e["path"] in referenced:
            bad.append("append opened an existing data file for writing")
        if e["ev"] == "rename" and (e["src"] in referenced or e["dst"] in referenced):
            bad.append("append renamed an existing data file")
        if e["ev"] == "remove" and any(p in referenced for p in e["paths"]):
            bad.append("append removed an existing data file")
        if e["ev"] == "truncate" and e["path"] in referenced:
            bad.append("append truncated an existing data file")
    return sorted(set(bad))


def snapshot_bytes(d, paths):
    out = {}
    for p in paths:
        fp_ = os.path.join(d, p)
        if os.path.exists(fp_):
            st = os.stat(fp_)
            with open(fp_, "rb") as f:
                out[p] = (f.read(), st.st_ino)
    return out


def replay_history(args):
    hid, hist, base, opts = args
    fp = use_repo()
    import pandas as pd
    d = os.path.join(base, "h%d" % hid, "ds")
    shutil.rmtree(os.path.dirname(d), ignore_errors=True)      # a re-run of this job starts clean
    os.makedirs(os.path.dirname(d))
    out = {"hid": hid, "ops": [], "traces": [], "evals": 0}
    try:
        part = bool(hist[0]["part"])
        if part and hid % 2 == 1:
            part = "cat"          # every other partitioned history passes the partition column as a categorical
        global WIDX
        WIDX = hid % 3 == 2       # every third history writes (and appends) its frames with a named row index
        i = 0
        step = 0
        hist_fs = make_fs(Recorder(root=d))
        prev_model, prev_ordered = [], True
        pr = {"refs": None, "files": {}}
        maxg = 0
        while i < len(hist):
            opr, end = hist[i], hist[i + 1]
            i += 2
            step += 1
            obs = end["obs"]
            referenced = {p for p, _ in (pr["refs"] or [])}
            before = snapshot_bytes(d, referenced)
            rec = Recorder(root=d, referenced=referenced)
            newg = [g["g"] for g in (opr.get("groups") or opr.get("newgroups") or [])]
            pre = abstract_pre(pr, prev_model, prev_ordered, (min(newg) - 1) if newg else maxg)
            maxg = max([maxg] + newg)
            raised = None
            try:
                do_op(fp, pd, d, opr, rec, part, fs=hist_fs)
            except BaseException as e:  # noqa
                raised = e
            out["evals"] += 1
            info = {"step": step, "kind": opr["kind"], "viol": [], "drift": None}
            sig = {"op": opr["kind"], "partitioned": bool(part), "partition_dtype": ("categorical" if part == "cat" else "int"),
                   "sort_pnames": any(s["c"] == "sortnames" for s in opr["steps"]),
                   "sort_key": any(s["c"] == "memsort" for s in opr["steps"]) and opr["kind"] == "wrg"}
            if raised is not None:
                # a refusal is acceptable provided the dataset is exactly as before
                viol, pr = evaluate(fp, d, prev_model, prev_ordered, False, part)
                info["refused"] = "%s: %s" % (type(raised).__name__, str(raised)[:100])
                for v in viol:
                    info["viol"].append(dict(sig, what="operation raised and left the dataset changed: " + v,
                                             exc=type(raised).__name__))
                if not viol and not _refusal_expected(opr, prev_model):
                    info["viol"].append(dict(sig, what="operation raised", exc=type(raised).__name__))
                out["ops"].append(info)
                break
            viol, pr = evaluate(fp, d, obs["model"], obs["ordered"], True, part)
            for v in viol:
                info["viol"].append(dict(sig, what=v))
            for v in event_contract(opr["kind"], rec.events, referenced):
                info["viol"].append(dict(sig, what=v))
            if opr["kind"] == "append":
                after = snapshot_bytes(d, referenced)
                if after != before:
                    info["viol"].append(dict(sig, what="append changed, replaced or removed an existing data file"))
            # mechanism agreement (drift only): referenced paths in order
            real_refs = [p for p, _ in (pr["refs"] or [])]
            model_refs = [path_str(r["p"]) for r in obs["refs"]]
            if real_refs != model_refs:
                info["drift"] = {"real_refs": real_refs, "model_refs": model_refs}
            out["traces"].append({"hid": hid, "step": step, "pre": pre,
                                  "events": [begin_event(opr, part)] + abstract_events(rec.events),
                                  "real_ok": not info["viol"], "kind": opr["kind"]})
            out["ops"].append(info)
            prev_model, prev_ordered = obs["model"], obs["ordered"]
            if info["viol"]:
                break
    except BaseException:  # noqa
        out["error"] = traceback.format_exc()
    finally:
        shutil.rmtree(os.path.dirname(d), ignore_errors=True)
    return out


def _refusal_expected(opr, prev_model):
    # once every row group is gone the dataset no longer knows its partition columns: refusing a partitioned
    # append/overwrite then is acceptable (DESIGN section 5, C09 leniencies)
    return not prev_model and opr["kind"] in ("append", "overwrite", "wrg")


def export_histories(work, *, frames, maxops, partitioned="BoolBoth", ops="OpsAll", fault=False, by_path=True):
    cfg = os.path.join(work, "dexport.cfg")
    T.write_cfg(cfg, spec="ESpec", constants={
        "NK": 3, "Frames": "<- " + frames, "MaxOps": maxops, "Partitioned": "<- " + partitioned,
        "EnableFault": fault, "Ops": "<- " + ops, "PartIdsByPath": by_path, "SummaryFirst": False},
        invariants=["Export"], check_deadlock=False)
    res = T.run_tlc("DatasetExport", cfg, work, timeout=3000)
    if not res.completed:
        raise T.TLCError("Dataset export did not complete:\n" + res.out[-3000:])
    return res.printed_json(), res


def run_replays(histories, work, opts=None):
    base = os.path.join(work, "dsreplay")
    os.makedirs(base, exist_ok=True)
    jobs = [(i, h, base, opts or {}) for i, h in enumerate(histories)]
    res = pmap(replay_history, jobs, job_timeout=120)
    shutil.rmtree(base, ignore_errors=True)
    return res


def validate_traces(traces, work, batch=1500):
    """Batch traces through TLC (DatasetTrace).  Returns (index -> verdict, accumulated TLCResult)."""
    verdicts = {}
    last = None
    names = ["readable", "bag_ok", "order_ok", "no_orphans", "no_bad_open", "parts_before_summary", "kept"]
    for b0 in range(0, len(traces), batch):
        chunk = traces[b0:b0 + batch]
        tf = os.path.join(work, "dtraces-%d.json" % b0)
        with open(tf, "w") as f:
            json.dump([{"pre": t["pre"], "events": t["events"]} for t in chunk], f)
        res = T.run_tlc("DatasetTrace", "DatasetTrace.cfg", work, env={"TRACE_FILE": tf}, workers=1, timeout=1800)
        if res.generated == 0:
            raise T.TLCError("trace validation did not run:\n" + res.out[-3000:])
        done, prog = {}, {}
        for m in re.finditer(r'<<\s*"DONE",\s*(\d+),\s*"(\w+)",((?:\s*(?:TRUE|FALSE)\s*,?)+)\s*>>', res.out):
            done[int(m.group(1))] = (m.group(2), [x == "TRUE" for x in re.findall(r"TRUE|FALSE", m.group(3))])
        for m in re.finditer(r'<<\s*"PROG",\s*(\d+),\s*(\d+)\s*>>', res.out):
            prog[int(m.group(1)) - 1] = int(m.group(2))
        for i, t in enumerate(chunk):
            v = {"accepted": (i + 1) in done}
            if v["accepted"]:
                v["last"] = done[i + 1][0]
                v.update(dict(zip(names, done[i + 1][1])))
            elif prog and i in prog:
                v["matched"] = prog[i] - 1
                v["next_event"] = t["events"][prog[i] - 1] if 0 < prog[i] <= len(t["events"]) else None
            verdicts[b0 + i] = v
        os.remove(tf)
        if last is not None:
            res.distinct += last.distinct
            res.generated += last.generated
        last = res
    return verdicts, last
