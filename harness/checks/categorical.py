"""Binding of spec/Categorical.tla: batches with their own dictionaries, written by the real writer as row groups of
one dataset (append, C07) or as separate files opened together (C14), read back and compared label by label."""
import os
import shutil
import traceback

from ..common import use_repo
from ..parallel import pmap, Crashed
from .. import tlc as T


def export_cases(work, max_batches, max_rows):
    cfg = os.path.join(work, "cat-export.cfg")
    T.write_cfg(cfg, spec="Spec", constants={"Dicts": "<- DictsSmall", "MaxBatches": max_batches, "MaxRows": max_rows,
                                             "RemapCodes": False}, invariants=["Export"], check_deadlock=False)
    res = T.run_tlc("CategoricalMC", cfg, work, timeout=1800)
    if not res.completed:
        raise T.TLCError("Categorical export failed:\n" + res.out[-2000:])
    return res.printed_json(), res


def model_check(work, remap, max_batches=3, max_rows=2):
    cfg = os.path.join(work, "cat-%s.cfg" % remap)
    T.write_cfg(cfg, spec="Spec", constants={"Dicts": "<- DictsSmall", "MaxBatches": max_batches, "MaxRows": max_rows,
                                             "RemapCodes": remap}, invariants=["LabelsPreserved"], check_deadlock=False)
    return T.run_tlc("CategoricalMC", cfg, work, timeout=1800, coverage=remap)


def batch_frame(pd, rg, first):
    labels = [rg["dict"][c - 1] for c in rg["codes"]]
    cat = pd.Categorical(labels, categories=list(rg["dict"]))
    return pd.DataFrame({"id": pd.Series(range(first, first + len(labels)), dtype="int64"), "c": cat})


def replay_case(args):
    cid, case, base, mode = args
    fp = use_repo()
    import pandas as pd
    d = os.path.join(base, "c%d" % cid)
    shutil.rmtree(d, ignore_errors=True)      # a re-run of this job (after a time-out) starts clean
    os.makedirs(d)
    out = {"cid": cid, "viol": None, "evals": 1, "mode": mode}
    try:
        rgs = case["rgs"]
        first = 0
        want = list(case["written"])
        out["model_predicts_misread"] = list(case["decoded"]) != want
        if mode in ("simple", "hive"):
            path = os.path.join(d, "ds" if mode == "hive" else "f.parquet")
            for n, rg in enumerate(rgs):
                df = batch_frame(pd, rg, first)
                first += len(df)
                fp.write(path, df, file_scheme=mode, append=(n > 0), write_index=False)
            target = path
        else:   # "files": separate files opened together (C14)
            paths = []
            for n, rg in enumerate(rgs):
                df = batch_frame(pd, rg, first)
                first += len(df)
                p = os.path.join(d, "f%d.parquet" % n)
                fp.write(p, df, write_index=False)
                paths.append(p)
            target = paths
        try:
            got_df = fp.ParquetFile(target).to_pandas()
            got = [None if (v is None or v != v) else str(v) for v in got_df["c"].astype(object)]
            ids = [int(x) for x in got_df["id"]]
        except BaseException as e:  # noqa
            out["viol"] = {"what": "cannot read back", "exc": type(e).__name__}
            return out
        if ids != list(range(len(want))):
            out["viol"] = {"what": "rows lost, duplicated or reordered"}
        elif got != want:
            out["viol"] = {"what": "categorical labels changed on read-back"}
        out["real_equals_model_mechanism"] = got == list(case["decoded"])
    except BaseException:  # noqa
        out["error"] = traceback.format_exc()
    finally:
        shutil.rmtree(d, ignore_errors=True)
    return out


def run_cases(cases, work, modes):
    base = os.path.join(work, "catreplay")
    os.makedirs(base, exist_ok=True)
    jobs = []
    for i, c in enumerate(cases):
        n = sum(len(rg["codes"]) for rg in c["rgs"])
        if n == 0:
            continue
        for m in modes:
            if m == "files" and any(len(rg["codes"]) == 0 for rg in c["rgs"]) and False:
                continue
            jobs.append((len(jobs), c, base, m))
    res = pmap(replay_case, jobs, job_timeout=120)
    shutil.rmtree(base, ignore_errors=True)
    return jobs, res
