"""C10 - metadata serialisation is lossless, IDL-conformant and safe for any size.
   spec/ThriftCompact.tla (acceptor over token traces, IDL generated from /repo's parquet.thrift),
   spec/ThriftShapes.tla (lattice of value shapes per IDL struct), spec/ThriftBuffer.tla (buffer model)."""
import json
import os
import shutil
import pickle
import re
import traceback

from ..common import Timer, scratch, HOME, REPO, SPEC, use_repo
from ..evidence import Evidence
from ..findings import Verdicts
from ..parallel import pmap, Crashed
from .. import tlc as T
from ..pqspec import compact

PID = "C10"


def the_idl():
    from ..pqspec.idl import parse_idl
    return parse_idl(os.path.join(REPO, "fastparquet", "parquet.thrift"))


def regenerate_idl():
    from ..pqspec.idl import generate_tla
    generate_tla(os.path.join(REPO, "fastparquet", "parquet.thrift"), os.path.join(SPEC, "ParquetIDL.tla"))


# ---------------------------------------------------------------------------------------------------------
# values from shapes
# ---------------------------------------------------------------------------------------------------------

INT_BITS = {"i8": 8, "i16": 16, "i32": 32, "i64": 64}


def scalar(f, shape, salt):
    t = f.type
    if t == "bool":
        return bool(salt % 2)
    if t in INT_BITS:
        b = INT_BITS[t]
        return {"zero": 0, "one": 1 + salt % 5, "min": -(1 << (b - 1)), "max": (1 << (b - 1)) - 1}[shape["intcls"]]
    if t == "double":
        return 1.5 + salt
    if t in ("string", "binary"):
        n = shape["strlen"]
        return bytes((65 + (salt + i) % 26) for i in range(n))
    raise ValueError(t)


def known_structs():
    """structs the library's generated thrift description knows (encryption / bloom-filter structs are not in it)"""
    from fastparquet.cencoding import ThriftObject
    known = set()
    for n in the_idl().structs:
        try:
            ThriftObject(n, {})
            known.add(n)
        except KeyError:
            pass
    return known


def reachable(I, roots, known):
    seen, todo = set(), list(roots)
    while todo:
        s = todo.pop()
        if s in seen or s not in I.structs or s not in known:
            continue
        seen.add(s)
        for f in I.structs[s].values():
            t = f
            while t is not None and t.type in ("list", "set"):
                t = t.elem
            if t is not None and t.type == "struct":
                todo.append(t.target)
    return seen


SCOPE = None


def build(I, sname, shape, depth=0, salt=0, top=True):
    """value (dict by field name) of struct `sname` for the shape; nested structs use presence 'all' to depth 2"""
    fields = I.structs[sname]
    is_union = sname in I.unions
    out = {}
    ids = sorted(fields)
    if is_union:
        pick = shape["only"] if (top and shape["presence"] == "single" and shape["only"] in fields) else ids[salt % len(ids)] if ids else None
        ids = [pick] if pick is not None else []
    for fid in ids:
        f = fields[fid]
        tt = f
        while tt is not None and tt.type in ("list", "set"):
            tt = tt.elem
        if tt is not None and tt.type == "struct" and SCOPE is not None and tt.target not in SCOPE:
            continue          # nested struct the library does not describe (encryption, bloom filter)
        if not is_union:
            if top and shape["presence"] == "required_only" and not f.required:
                continue
            if top and shape["presence"] == "single" and not f.required and fid != shape["only"]:
                continue
            if not top and depth >= 2 and not f.required:
                continue
        out[f.name] = value_of(I, f, shape, depth, salt + fid)
    return out


def value_of(I, f, shape, depth, salt):
    if f.type == "struct":
        return build(I, f.target, shape, depth + 1, salt, top=False)
    if f.type == "enum":
        vals = sorted(I.enums[f.target])
        return vals[salt % len(vals)]
    if f.type in ("list", "set"):
        n = shape["listlen"] if depth == 0 else min(shape["listlen"], 2)
        return [value_of(I, f.elem, shape, depth + 1, salt + i) for i in range(n)]
    return scalar(f, shape, salt)


def clean_tokens(tokens):
    out = []
    for t in tokens:
        d = {"tok": t["tok"]}
        for k in ("id", "wt", "et", "n"):
            if k in t:
                d[k] = int(t[k])
        out.append(d)
    return out


def idl_problem(b, root, I):
    """The independent decoder's view of the first place where the bytes leave the IDL (field path without indices,
    declared type, wire type found): names the cause when the acceptor rejects a trace.  Empty-list element types
    (tolerated, KF-C02-1) are skipped."""
    probs = []
    try:
        compact.decode(b, 0, root, I, strict=False, problems=probs)
    except Exception as e:  # noqa
        return {"field": "?", "declared": "undecodable", "found": type(e).__name__}
    for pr in probs:
        m = re.match(r"^(.*): wire type (\d+), IDL declares (\S+)", pr)
        if m:
            decl = m.group(3)
            return {"field": re.sub(r"\[\d+\]", "[]", m.group(1)).split(".", 1)[-1],
                    "declared": decl if decl in ("i8", "i16", "i32", "i64", "bool", "double", "binary", "string") else "i32 (enum)",
                    "found": int(m.group(2))}
    return None


def to_thrift_object(PT, I, sname, value):
    """build the library's object through its constructor API, marking i32 fields as the writer does"""
    fields = I.structs[sname]
    kw = {}
    i32 = []
    for f in fields.values():
        if f.name not in value:
            continue
        v = value[f.name]
        if f.type == "struct":
            v = to_thrift_object(PT, I, f.target, v)
        elif f.type in ("list", "set") and f.elem.type == "struct":
            v = [to_thrift_object(PT, I, f.elem.target, x) for x in v]
        if f.type in ("i32", "enum"):
            i32.append(f.id)
        kw[f.name] = v
    from fastparquet.cencoding import ThriftObject
    return ThriftObject.from_fields(sname, i32list=i32, **kw)


def shape_job(args):
    jid, shapes = args
    use_repo()
    from fastparquet.cencoding import from_buffer
    from fastparquet import parquet_thrift as PT
    I = the_idl()
    global SCOPE
    SCOPE = reachable(I, ["FileMetaData", "PageHeader"], known_structs())
    out = {"jid": jid, "viol": [], "traces": [], "evals": 0, "skipped": 0}
    for si, shape in enumerate(shapes):
        sname = shape["struct"]
        if sname not in SCOPE:
            out["skipped"] += 1
            continue
        sig = {"struct": sname}
        try:
            value = build(I, sname, shape)
            b0 = compact.encode(sname, value, I)
        except Exception as e:  # noqa
            out["skipped"] += 1
            continue
        for route in ("foreign", "api"):
            out["evals"] += 1
            try:
                if route == "foreign":
                    obj = from_buffer(b0, sname)
                else:
                    obj = to_thrift_object(PT, I, sname, value)
                b1 = bytes(obj.to_bytes())
            except BaseException as e:  # noqa
                out["viol"].append((dict(sig, route=route, what="serialisation raised", exc=type(e).__name__), si))
                continue
            # lossless: the independent decoder finds the same value in the re-serialised bytes
            probs = []
            try:
                back, end = compact.decode(b1, 0, sname, I, strict=False, problems=probs)
                if end != len(b1):
                    out["viol"].append((dict(sig, route=route, what="trailing bytes after the serialised struct"), si))
                elif not _same(back, value):
                    lost = _diff(back, value)
                    out["viol"].append((dict(sig, route=route, what="value changed by serialisation", field=lost), si))
            except Exception as e:  # noqa
                out["viol"].append((dict(sig, route=route, what="re-serialised bytes cannot be decoded", exc=type(e).__name__), si))
            # parse(serialise(x)) == x inside the library, and pickling
            try:
                again = from_buffer(b1, sname)
                if bytes(again.to_bytes()) != b1:
                    out["viol"].append((dict(sig, route=route, what="second round trip changes the bytes"), si))
                if bytes(pickle.loads(pickle.dumps(obj)).to_bytes()) != b1:
                    out["viol"].append((dict(sig, route=route, what="pickle round trip changes the object"), si))
            except BaseException as e:  # noqa
                out["viol"].append((dict(sig, route=route, what="round trip inside the library raised", exc=type(e).__name__), si))
            # IDL conformance of the bytes: token trace for TLC
            try:
                toks, _ = compact.tokenize(b1, 0)
                out["traces"].append({"root": sname, "tolerate_empty": True, "tokens": clean_tokens(toks),
                                      "sig": dict(sig, route=route), "si": si, "idl_problem": idl_problem(b1, sname, I)})
            except Exception as e:  # noqa
                out["viol"].append((dict(sig, route=route, what="re-serialised bytes cannot be tokenised", exc=type(e).__name__), si))
    return out


def _norm(v):
    if isinstance(v, dict):
        return {k: _norm(x) for k, x in v.items() if x is not None}
    if isinstance(v, (list, tuple)):
        return [_norm(x) for x in v]
    if isinstance(v, str):
        return v.encode()
    if isinstance(v, float):
        return round(v, 9)
    return v


def _same(a, b):
    return _norm(a) == _norm(b)


def _diff(a, b):
    a, b = _norm(a), _norm(b)
    if isinstance(a, dict) and isinstance(b, dict):
        for k in sorted(set(a) | set(b)):
            if a.get(k) != b.get(k):
                sub = _diff(a.get(k), b.get(k)) if isinstance(a.get(k), (dict, list)) and isinstance(b.get(k), (dict, list)) else ""
                return k + ("." + sub if sub else "")
    if isinstance(a, list) and isinstance(b, list):
        if len(a) != len(b):
            return "[len]"
        for i, (x, y) in enumerate(zip(a, b)):
            if x != y:
                sub = _diff(x, y) if isinstance(x, (dict, list)) else ""
                return "[]" + ("." + sub if sub else "")
    return ""


def size_job(args):
    """FileMetaData of a given size class serialised by the library in this (expendable) process"""
    nrg, ncol, stat, kvlen = args
    use_repo()
    from fastparquet import parquet_thrift as PT
    from fastparquet.cencoding import from_buffer
    I = the_idl()
    out = {"args": args, "viol": [], "evals": 1}
    sig = {"what": None, "rgs": nrg, "cols": ncol, "stat_bytes": stat, "kv_bytes": kvlen}
    try:
        schema = [PT.SchemaElement(name=b"schema", num_children=ncol, i32=True)] + \
                 [PT.SchemaElement(name=("c%d" % i).encode(), type=2, repetition_type=1, i32=True) for i in range(ncol)]
        rgs = []
        for g in range(nrg):
            cols = []
            for c in range(ncol):
                st = PT.Statistics(max=b"M" * stat, min=b"m" * stat, null_count=0) if stat else PT.Statistics(null_count=0)
                md = PT.ColumnMetaData(type=2, encodings=[0], path_in_schema=["c%d" % c], codec=0, num_values=5,
                                       total_uncompressed_size=100, total_compressed_size=100, data_page_offset=4,
                                       statistics=st, i32list=[1, 4])
                cols.append(PT.ColumnChunk(file_offset=4, meta_data=md))
            rgs.append(PT.RowGroup(columns=cols, total_byte_size=100, num_rows=5))
        kv = [PT.KeyValue(key=b"big", value=b"v" * kvlen)] if kvlen else []
        fmd = PT.FileMetaData(version=1, schema=schema, num_rows=5 * nrg, row_groups=rgs, key_value_metadata=kv,
                              created_by=b"verif", i32list=[1])
        b = bytes(fmd.to_bytes())
        probs = []
        back, end = compact.decode(b, 0, "FileMetaData", I, strict=False, problems=probs)
        ok = (end == len(b) and len(back.get("row_groups", [])) == nrg
              and all(len(rg["columns"]) == ncol for rg in back["row_groups"])
              and (not stat or all(len(c["meta_data"]["statistics"]["max"]) == stat for rg in back["row_groups"] for c in rg["columns"]))
              and (not kvlen or len(back["key_value_metadata"][0]["value"]) == kvlen))
        if not ok:
            out["viol"].append(dict(sig, what="serialised metadata truncated or changed"))
    except BaseException as e:  # noqa
        out["viol"].append(dict(sig, what="serialisation raised or produced undecodable bytes", exc=type(e).__name__))
    return out


# ---------------------------------------------------------------------------------------------------------
# routes: metadata (re-)serialised by the library's own operations (spec/MetaRoutes.tla)
# ---------------------------------------------------------------------------------------------------------

FOREIGN_KV = [("dup", "one"), ("solo", "s"), ("dup", "two"), ("", "e1"), ("drop", "x"), ("", "e2")]
LIB_KV = [("origin", "lib"), ("drop", "x")]


def _foreign_file(rows0, nrg, seed=0, kv=None):
    """a small valid file from 'another writer' (independent encoder), nrg row groups of 3 rows"""
    from ..pqspec import writer as PW
    schema = [{"name": "x", "type": "INT64", "repetition": "REQUIRED", "converted_type": None},
              {"name": "s", "type": "BYTE_ARRAY", "repetition": "OPTIONAL", "converted_type": "UTF8"}]
    rgs = []
    for g in range(nrg):
        xs = [rows0 + 3 * g + i for i in range(3)]
        rgs.append({"num_rows": 3, "columns": [
            {"path": ["x"], "codec": "UNCOMPRESSED", "dictionary": None, "statistics": "auto",
             "pages": [{"version": 1, "encoding": "PLAIN", "values": xs, "def_levels": None}]},
            {"path": ["s"], "codec": "UNCOMPRESSED", "dictionary": None, "statistics": "auto",
             "pages": [{"version": 1, "encoding": "PLAIN", "values": [b"a%d" % xs[0], b"b%d" % xs[2]], "def_levels": [1, 0, 1]}]}]})
    return PW.build_file({"created_by": "parquet-mr version 1.12.0 (build abc)", "kv": kv or LIB_KV,
                          "schema": schema, "row_groups": rgs})


def _frame(pd, start, n):
    return pd.DataFrame({"x": pd.Series(range(start, start + n), dtype="int64"),
                         "s": pd.Series([None if i % 3 == 1 else "t%d" % i for i in range(start, start + n)], dtype=object)})


def route_job(args):
    jid, programs, base = args
    fp = use_repo()
    import shutil
    import pandas as pd
    from fastparquet import writer as W
    I = the_idl()
    out = {"jid": jid, "viol": [], "traces": [], "evals": 0, "executed": {}, "refused": {}}
    seen = set()

    def artefacts(d, pf):
        arts = []
        try:
            arts.append(("handle", bytes(pf.fmd.to_bytes())))
        except BaseException as e:  # noqa
            arts.append(("handle", e))
        try:
            arts.append(("pickled-handle", bytes(pickle.loads(pickle.dumps(pf)).fmd.to_bytes())))
        except BaseException as e:  # noqa
            arts.append(("pickled-handle", e))
        for root, _, fns in os.walk(d):
            for fn in sorted(fns):
                data = open(os.path.join(root, fn), "rb").read()
                if len(data) >= 12 and data[-4:] == b"PAR1":
                    n = int.from_bytes(data[-8:-4], "little")
                    kind = fn if fn.startswith("_") or fn.startswith("cm-") else ("part file" if root != d or fn.startswith("part.") else "single file")
                    if fn.startswith("cm-"):
                        kind = "written by write_common_metadata"
                    arts.append((kind, data[len(data) - 8 - n:len(data) - 8], root))
        return arts

    for pi, P in enumerate(programs):
        d = os.path.join(base, "r%d-%d" % (jid, pi))
        shutil.rmtree(d, ignore_errors=True)      # a re-run of this job (after a time-out) starts clean
        os.makedirs(d)
        src = "%s-%s" % (P["origin"], P["store"])
        try:
            # ---- source ----
            if P["origin"] == "lib":
                if P["store"] == "simple":
                    path = os.path.join(d, "data.parquet")
                    fp.write(path, _frame(pd, 0, 6), row_group_offsets=[0, 3], write_index=False,
                             custom_metadata=dict(LIB_KV))
                elif P["store"] == "nested":
                    # two multi-file datasets, each with its own _metadata, side by side: opened / merged as one
                    path = os.path.join(d, "ds")
                    for k, sub in enumerate(("a", "b")):
                        fp.write(os.path.join(path, sub), _frame(pd, 6 * k, 6), row_group_offsets=[0, 3], write_index=False,
                                 file_scheme="hive", custom_metadata=dict(LIB_KV))
                else:
                    path = os.path.join(d, "ds")
                    fp.write(path, _frame(pd, 0, 6), row_group_offsets=[0, 3], write_index=False, file_scheme="hive",
                             custom_metadata=dict(LIB_KV))
            else:
                if P["store"] == "simple":
                    path = os.path.join(d, "data.parquet")
                    open(path, "wb").write(_foreign_file(0, 2, kv=FOREIGN_KV))
                else:
                    path = os.path.join(d, "ds")
                    os.makedirs(path)
                    for g in range(2):
                        open(os.path.join(path, "part.%d.parquet" % g), "wb").write(_foreign_file(3 * g, 1))
            nested = P["store"] == "nested"
            pf = fp.ParquetFile([os.path.join(path, "a"), os.path.join(path, "b")]) if nested else fp.ParquetFile(path)
            steps = [("source", [3, 3, 3, 3] if nested else [3, 3])] + list(zip(P["prog"], P["hist"]))
            kvs = [P["kv0"]] + list(P["kvhist"])
            derived = False
            for si, (op, want_rgs) in enumerate(steps):
                want_kv = [(k, v) for k, v in kvs[si]]
                sig = {"source": src, "op": op}
                derived = derived or op == "slice"
                try:
                    if op == "slice":
                        pf = pf[0:1]
                    elif op == "pickle":
                        pf = pickle.loads(pickle.dumps(pf))
                    elif op == "append":
                        fp.write(path, _frame(pd, 100 + si, 2), append=True, write_index=False,
                                 file_scheme="simple" if P["store"] == "simple" else "hive")
                        pf = fp.ParquetFile(path)
                    elif op == "kvupdate":
                        W.update_file_custom_metadata(path, {"solo": "S%d" % si, "drop": None, "new%d" % si: "v"})
                        pf = fp.ParquetFile(path)
                    elif op == "remove":
                        pf.remove_row_groups(pf.row_groups[0:1])
                        pf = fp.ParquetFile(path)
                    elif op == "merge" and nested:
                        W.merge([os.path.join(path, "a"), os.path.join(path, "b")])
                        pf = fp.ParquetFile(path)
                    elif op == "merge":
                        parts = sorted(os.path.join(r, f) for r, _, fs in os.walk(path) for f in fs
                                       if f.endswith(".parquet") and not f.startswith("_"))
                        W.merge(parts)
                        pf = fp.ParquetFile(path)
                    elif op == "common":
                        W.write_common_metadata(os.path.join(d, "cm-%d" % si), pf.fmd)
                except BaseException as e:  # noqa
                    # an operation the library refuses (with an error) serialises nothing: not a verdict on the bytes
                    out["refused"]["%s/%s" % (src, op)] = type(e).__name__
                    break
                out["executed"]["%s/%s" % (src, op)] = out["executed"].get("%s/%s" % (src, op), 0) + 1
                for art in artefacts(d, pf):
                    kind, b = art[0], art[1]
                    adir = art[2] if len(art) > 2 else None
                    a_sig = dict(sig, artefact=kind)
                    if isinstance(b, BaseException):
                        out["viol"].append((dict(a_sig, what="serialisation raised", exc=type(b).__name__), pi))
                        continue
                    key = (kind if kind != "part file" else "p", b)
                    out["evals"] += 1
                    probs = []
                    try:
                        back, end = compact.decode(b, 0, "FileMetaData", I, strict=False, problems=probs)
                        if end != len(b):
                            out["viol"].append((dict(a_sig, what="trailing bytes after the serialised struct"), pi))
                        got = [int(rg["num_rows"]) for rg in back.get("row_groups", [])]
                        if kind == "_metadata" and adir is not None:
                            # a summary file names the data file of every column chunk, relative to its own directory
                            for rg in back.get("row_groups", []):
                                fps = [c.get("file_path") for c in rg.get("columns", [])]
                                fps = [x.decode("utf8", "replace") if isinstance(x, (bytes, bytearray)) else x for x in fps]
                                if fps and fps[0] is not None and (len(set(fps)) != 1 or not os.path.isfile(os.path.join(adir, fps[0]))):
                                    out["viol"].append((dict(a_sig, what="file_path of a column chunk in the summary file does not name "
                                                                    "the row group's data file"), pi))
                                    break
                        if (kind in ("handle", "pickled-handle") or (kind in ("_metadata", "single file") and not derived
                                                                     and (not nested or adir == path))) \
                                and got != list(want_rgs):
                            out["viol"].append((dict(a_sig, what="serialised metadata does not carry the handle's row groups"), pi))
                        if P["store"] == "simple" and (kind in ("handle", "pickled-handle") or (kind == "single file" and not derived)):
                            def _t(x):
                                return x.decode("utf8", "replace") if isinstance(x, (bytes, bytearray)) else ("" if x is None else str(x))
                            got_kv = [(_t(e.get("key")), _t(e.get("value"))) for e in (back.get("key_value_metadata") or [])
                                      if _t(e.get("key")) != "pandas"]
                            if got_kv != want_kv:
                                lost = [e for e in want_kv if e not in got_kv]
                                out["viol"].append((dict(a_sig, what="key-value entries of the serialised metadata differ from the model",
                                                         lost_entries=bool(lost), repeated_or_empty_key_lost=any(
                                                             e[0] in ("dup", "") for e in lost)), pi))
                    except Exception as e:  # noqa
                        out["viol"].append((dict(a_sig, what="serialised metadata cannot be decoded", exc=type(e).__name__), pi))
                        continue
                    if key in seen:
                        continue
                    seen.add(key)
                    try:
                        toks, _ = compact.tokenize(b, 0)
                        out["traces"].append({"root": "FileMetaData", "tolerate_empty": True, "tokens": clean_tokens(toks),
                                              "sig": a_sig, "si": pi, "digest": hash(b),
                                              "idl_problem": idl_problem(b, "FileMetaData", I)})
                    except Exception as e:  # noqa
                        out["viol"].append((dict(a_sig, what="serialised metadata cannot be tokenised", exc=type(e).__name__), pi))
        except BaseException:  # noqa
            out["error"] = traceback.format_exc()
        finally:
            shutil.rmtree(d, ignore_errors=True)
    return out


def run(tier, seed):
    t = Timer()
    ev = Evidence(PID, tier, seed, "model_checking")
    ev.assumptions = ["foreign bytes are produced by the independent canonical encoder harness/pqspec/compact.py",
                      "the empty-list element-type deviation (KF-C02-1) is tolerated by the acceptor and counted",
                      "size sweep: sizes from the ThriftBuffer model's constants, each serialised in an expendable process"]
    with scratch() as work:
        rc = _run(ev, work, tier == "thorough")
    ev.write(t.s())
    return rc


def _run(ev, work, thorough):
    regenerate_idl()
    verd = Verdicts(PID, os.path.join(HOME, "replays"))
    # ---- buffer model ----
    sizes = dict(RowGroupCounts={0, 1, 2, 16, 40}, ColumnCounts={1, 3, 20}, StatSizes={0, 100, 100000, 600000},
                 KvSizes={0, 1000000}, PathSizes={10})
    for grow, label in ((True, "ok"), (False, "mut")):
        cfg = os.path.join(work, "tb-%s.cfg" % label)
        T.write_cfg(cfg, spec="Spec", constants=dict(sizes, Grow=grow), invariants=["NeverTruncated", "NeverOutside"],
                    check_deadlock=False)
        res = T.run_tlc("ThriftBuffer", cfg, work, workers=4, timeout=600)
        if grow:
            if not res.ok:
                raise T.TLCError("ThriftBuffer with a growing buffer violates %s" % res.violated)
            ev.add_tlc("ThriftBuffer, buffer grows on demand: never truncated, never outside", res)
        else:
            if not res.violated:
                raise T.TLCError("ThriftBuffer with the fixed-size heuristic must violate the contract")
            ev.add_tlc("ThriftBuffer, fixed-size heuristic (as found): %s violated" % res.violated, res)
    # ---- shapes ----
    cfg = os.path.join(work, "ts.cfg")
    T.write_cfg(cfg, spec="Spec", invariants=["Emit"], check_deadlock=False)
    res = T.run_tlc("ThriftShapes", cfg, work, workers=4, timeout=1200)
    shapes = res.printed_json()
    if not shapes:
        raise T.TLCError("no shapes exported:\n" + res.out[-2000:])
    ev.add_tlc("ThriftShapes: value shapes per IDL struct", res, shapes=len(shapes))
    chunks = [shapes[i::32] for i in range(32)]
    jobs = [(i, c) for i, c in enumerate(chunks) if c]
    results = pmap(shape_job, jobs, job_timeout=900)
    traces = []
    for j, r in zip(jobs, results):
        if isinstance(r, Crashed):
            # bisect to single shapes
            for k, sh in enumerate(j[1]):
                rr = pmap(shape_job, [(0, [sh])], job_timeout=120)[0]
                if isinstance(rr, Crashed):
                    verd.add({"struct": sh["struct"], "what": "interpreter crashed or hung while (de)serialising",
                              "presence": sh["presence"], "listlen": sh["listlen"], "strlen": sh["strlen"]}, {"shape": sh})
                else:
                    _collect(ev, verd, rr, [sh], traces)
            continue
        _collect(ev, verd, r, j[1], traces)
    # ---- routes: metadata re-serialised by the library's own operations (MetaRoutes.tla) ----
    cfg = os.path.join(work, "mr.cfg")
    T.write_cfg(cfg, spec="Spec", constants=dict(Sources="<- SourcesAll", MaxOps=3 if thorough else 2),
                invariants=["RowGroupsPositive", "Export"], check_deadlock=False)
    rres = T.run_tlc("MetaRoutesMC", cfg, work, workers=4, timeout=1200, coverage=True)
    programs = rres.printed_json()
    if not rres.ok or not programs:
        raise T.TLCError("MetaRoutes: %s\n%s" % (rres.violated, rres.out[-1500:]))
    ev.add_tlc("MetaRoutes: source x operation programs that make the library serialise metadata", rres, programs=len(programs))
    rbase = os.path.join(work, "routes")
    os.makedirs(rbase)
    rjobs = [(i, programs[i::16], rbase) for i in range(16) if programs[i::16]]
    executed, refused, digests = {}, {}, set()
    for j, r in zip(rjobs, pmap(route_job, rjobs, job_timeout=900)):
        if isinstance(r, Crashed):
            verd.add({"what": "interpreter crashed or hung while re-serialising metadata"}, {"first_program": j[1][0]})
            continue
        if not isinstance(r, dict) or "error" in r:
            raise RuntimeError("machinery failed:\n%s" % (r if not isinstance(r, dict) else r["error"]))
        ev.evaluations += r["evals"]
        for k, v in r["executed"].items():
            executed[k] = executed.get(k, 0) + v
        refused.update(r["refused"])
        for sig, pi in r["viol"]:
            verd.add(sig, {"program": j[1][pi]})
        for t in r["traces"]:
            if t["digest"] not in digests:
                digests.add(t["digest"])
                traces.append(t)
        for P in j[1]:
            ev.nontrivial.add(json.dumps(P, sort_keys=True))
    ev.extra["routes_executed"] = executed
    ev.extra["routes_refused_by_the_library"] = refused
    need = ["lib-simple/slice", "lib-multi/slice", "foreign-simple/slice", "lib-simple/append", "lib-multi/append",
            "lib-multi/remove", "lib-multi/merge", "lib-simple/kvupdate", "foreign-simple/kvupdate", "lib-simple/common",
            "foreign-multi/merge", "lib-simple/pickle"]
    missing = [k for k in need if not executed.get(k)]
    if missing:
        raise RuntimeError("routes never executed (vacuous): %s; refused: %s" % (missing, refused))
    # ---- acceptor over the re-serialised bytes ----
    if traces:
        tf = os.path.join(work, "thrift-traces.json")
        with open(tf, "w") as f:
            json.dump([{"root": t["root"], "tolerate_empty": True, "tokens": t["tokens"]} for t in traces], f)
        cfg = os.path.join(work, "tc.cfg")
        T.write_cfg(cfg, spec="Spec", invariants=["Report", "Progress"], postcondition="PrintRegs", check_deadlock=False)
        res = T.run_tlc("ThriftCompact", cfg, work, env={"TRACE_FILE": tf}, workers=1, timeout=3000)
        if res.generated == 0:
            raise T.TLCError("acceptor did not run:\n" + res.out[-3000:])
        done = {int(m.group(1)): int(m.group(2)) for m in re.finditer(r'<<\s*"DONE",\s*(\d+),\s*(\d+)\s*>>', res.out)}
        prog = {int(m.group(1)): int(m.group(2)) for m in re.finditer(r'<<\s*"PROG",\s*(\d+),\s*(\d+)\s*>>', res.out)}
        ev.add_tlc("ThriftCompact acceptor: token traces of the bytes the library serialised", res)
        tolerated = 0
        for i, t in enumerate(traces):
            if (i + 1) in done:
                ev.traces += 1
                tolerated += done[i + 1]
            else:
                at = prog.get(i + 1, 1)
                tok = t["tokens"][at - 1] if 0 < at <= len(t["tokens"]) else None
                ip = t.get("idl_problem") or {}
                sig = dict(t["sig"], what="serialised bytes do not conform to the IDL",
                           token=(tok or {}).get("tok"), wire_type=(tok or {}).get("wt", (tok or {}).get("et")),
                           declared=ip.get("declared"), field=ip.get("field"))
                verd.add(sig, {"rejected_at_token": at, "token": tok, "root": t["root"]}, cost=len(t["tokens"]))
        ev.extra["empty_lists_tolerated"] = tolerated
    # ---- size sweep on the real serialiser ----
    combos = [(g, c, s, k) for g in (0, 1, 2, 16, 40) for c in (1, 3, 20) for s in (0, 100, 100000, 600000)
              for k in (0, 1000000) if not (g * c * s > 30_000_000)]
    if not thorough:
        combos = [x for x in combos if x[0] in (0, 1, 16) and x[1] in (1, 20)]
    sres = pmap(size_job, combos, job_timeout=300)
    for a, r in zip(combos, sres):
        if isinstance(r, Crashed):
            verd.add({"what": "interpreter crashed while serialising metadata", "stat_bytes": a[2], "kv_bytes": a[3],
                      "fits_heuristic": _fits(a)}, {"rgs": a[0], "cols": a[1], "stat_bytes": a[2], "kv_bytes": a[3]})
            continue
        ev.evaluations += 1
        for v in r["viol"]:
            verd.add(dict(v, fits_heuristic=_fits(a)), {"args": a})
    ev.extra["size_points"] = len(combos)
    for sh in shapes:
        ev.nontrivial.add(json.dumps(sh, sort_keys=True))
    ev.rule = ("shapes = for every struct/union of the IDL: required fields only, all fields, each optional field alone, list "
               "lengths {0,1,14,15,16,40}, integer classes {0,1,min,max of the declared width}, string lengths {0,1,127,128,"
               "300}; each through two routes (parsed from independently encoded bytes; built through the constructor API)")
    ev.exhaustive = True
    ev.sample(shapes[0])
    n = verd.report(ev)
    return 1 if n else 0


def _fits(a):
    g, c, s, k = a
    enc = 40 + 30 * (c + 1) + g * (20 + c * (70 + 2 * s)) + k + 10
    return enc <= max(500000, 1000 * g * (c + 1) + k)


def _collect(ev, verd, r, shapes, traces):
    ev.evaluations += r["evals"]
    for sig, si in r["viol"]:
        verd.add(sig, {"shape": shapes[si] if si < len(shapes) else None}, cost=shapes[si]["listlen"] if si < len(shapes) else 0)
    traces.extend(r["traces"])


def replay(path):
    doc = json.load(open(path))
    print(json.dumps(doc, indent=1)[:3000])
    return 1
