"""C12 - native code stays inside its buffers and the process never crashes.

The specifications supply the bounds models (Codec.tla: OutWithinCapacity / InWithinInput of the decoder cursor
machine; ThriftBuffer.tla: NeverOutside of the serialiser's buffer heuristic) and the systematic input space (the
vectors of C11, the metadata shapes and size points of C10, the written files of C01; the generated foreign files of
C03 once available).  The verdict on the real code is the sanitizer's: every input is replayed in expendable processes
against an AddressSanitizer + UndefinedBehaviorSanitizer build of cencoding.c / speedups.c compiled from the working
tree; a report located in the library's own functions, an abort or a signal is a violation."""
import json
import os

from ..common import Timer, scratch, HOME
from ..evidence import Evidence
from ..findings import Verdicts
from ..parallel import pmap
from .. import tlc as T
from ..observe import sanitized as S
from . import c03, c10, c11, c15, colwriter as CW

PID = "C12"


def san_job(args):
    root, work, func, payload, label, n_items = args
    try:
        rc, res, err = S.run_job(root, work, func, payload, timeout=1200)
    except Exception as e:  # noqa
        return {"label": label, "rc": -99, "err": repr(e), "res": None, "n": n_items}
    return {"label": label, "rc": rc, "err": err[-20000:], "res_ok": res is not None, "n": n_items,
            "evals": (res or {}).get("evals", 0) if isinstance(res, dict) else 0}


def run(tier, seed):
    t = Timer()
    ev = Evidence(PID, tier, seed, "exploration")
    ev.assumptions = ["the verdict is the sanitizer's (clang 14 ASan + UBSan without the alignment check); reports located in "
                      "Cython's own boilerplate are ignored, reports in the library's functions count",
                      "the C files are the generated cencoding.c / speedups.c present in /repo (Cython is not available: "
                      "a .pyx newer than its .c is flagged STALE-NATIVE)",
                      "inputs: C11 vectors, C10 shapes and size points, a sample of the C01 write/read cases"]
    with scratch() as work:
        rc = _run(ev, work, tier == "thorough")
    ev.write(t.s())
    return rc


def _run(ev, work, thorough):
    verd = Verdicts(PID, os.path.join(HOME, "replays"))
    # ---- model level: where does the ALGORITHM leave its buffers ----
    c11.machine_check(ev, work, 32, 255, True, "W1to32", True, "read_bitpacked acc=32 widths 1..32 (bounds + values)")
    cfg = os.path.join(work, "tb.cfg")
    T.write_cfg(cfg, spec="Spec", constants=dict(RowGroupCounts={0, 1, 16}, ColumnCounts={1, 20}, StatSizes={0, 100000, 600000},
                                                 KvSizes={0, 1000000}, PathSizes={10}, Grow=False),
                invariants=["NeverOutside"], check_deadlock=False)
    res = T.run_tlc("ThriftBuffer", cfg, work, workers=4, timeout=600)
    if not res.violated:
        raise T.TLCError("ThriftBuffer heuristic must violate NeverOutside")
    ev.add_tlc("ThriftBuffer, fixed-size heuristic: NeverOutside violated (sizes that overrun the buffer)", res)
    # ---- sanitizer build from the working tree ----
    root, stale = S.build(work)
    if stale:
        print("STALE-NATIVE: %s.pyx newer than the generated C file (Cython not available to regenerate it)" % ", ".join(stale))
    ev.extra["stale_native"] = stale
    cmap = S.CMap()
    jobs = []
    vectors, vres = c11.export_vectors(work, thorough)
    ev.add_tlc("CodecVectors: inputs for the sanitized codecs", vres, vectors=len(vectors))
    for i in range(0, len(vectors), 40):
        jobs.append((root, work, "harness.checks.c11:replay_vectors", (i, vectors[i:i + 40]), "codec vectors", 40))
    jobs.append((root, work, "harness.checks.c11:byte_array_job", 0, "byte arrays", 1))
    c10.regenerate_idl()
    cfg = os.path.join(work, "ts.cfg")
    T.write_cfg(cfg, spec="Spec", invariants=["Emit"], check_deadlock=False)
    sres = T.run_tlc("ThriftShapes", cfg, work, workers=4, timeout=1200)
    shapes = sres.printed_json()
    ev.add_tlc("ThriftShapes: inputs for the sanitized (de)serialiser", sres, shapes=len(shapes))
    for i in range(0, len(shapes), 60):
        jobs.append((root, work, "harness.checks.c10:shape_job", (i, shapes[i:i + 60]), "thrift shapes", 60))
    sizes = [(g, c, s, k) for g in (0, 1, 16) for c in (1, 20) for s in (0, 100, 100000, 600000) for k in (0, 1000000)
             if g * c * s <= 30_000_000]
    for a in sizes:
        jobs.append((root, work, "harness.checks.c10:size_job", a, "metadata size %r" % (a,), 1))
    cases, cres = CW.export_cases(work, CW.QUICK, "san")
    step = 9 if not thorough else 3
    sample = cases[::step]
    ev.add_tlc("ColumnWriterMC export: write/read cases for the sanitized build (every %dth)" % step, cres, cases=len(sample))
    # row counts around 64 with small page budgets: multi-page chunks where a page's and the chunk's row counts lie on
    # different sides of a varint length boundary (the level-skip fast path is sized by them)
    bigc, bres = CW.export_cases(work, CW.BIG, "sanbig")
    bigc = [c for c in bigc if any(len(g["pages"]) > 1 for g in c["rgs"])][::(4 if not thorough else 1)]
    ev.add_tlc("ColumnWriterMC export: multi-page write/read cases around 64 rows for the sanitized build", bres, cases=len(bigc))
    sample = sample + bigc
    os.makedirs(os.path.join(work, "cwsan"), exist_ok=True)
    for i in range(0, len(sample), 100):
        jobs.append((root, work, "harness.checks.colwriter:replay_chunk", (i, sample[i:i + 100], os.path.join(work, "cwsan")),
                     "write/read cases", 100))
    # valid files from "any writer" (Format.tla: the type table and the dictionary-width lattice) and nested columns
    # (Nested.tla: every page cut) - the decoders are driven by what the FILE says, the sharpest inputs for overruns
    fcases = []
    for name in ("E-types", "A-dict-index-widths-and-runs", "H-statistics-old-and-new-style"):
        cs, fres = c03.export(work, c03.LATTICES[name], "san" + name[0])
        cs = cs if name[0] in "EH" else cs[::(7 if not thorough else 2)]
        ev.add_tlc("Format sub-lattice %s: layouts for the sanitized reader" % name, fres, layouts=len(cs))
        fcases.extend(cs)
    # ASan stops a process at its first report: layouts with a KNOWN overrun (delta pages) run one per process so that
    # they cannot hide the cases queued behind them
    risky = [c for c in fcases if c03.case_sig(c)["cause"] == "delta-binary-packed page"]
    calm = [c for c in fcases if c03.case_sig(c)["cause"] != "delta-binary-packed page"]
    for i in range(0, len(calm), 150):
        jobs.append((root, work, "harness.checks.c03:replay_chunk", (i, calm[i:i + 150]), "foreign flat files", 150))
    for i, c in enumerate(risky):
        jobs.append((root, work, "harness.checks.c03:replay_chunk", (100000 + i, [c]), "foreign flat files (delta)", 1))
    lcases, lres = c15.export_lists(work, False)
    lcases = lcases[::(5 if not thorough else 1)]
    ev.add_tlc("Nested: list layouts for the sanitized reader", lres, layouts=len(lcases))
    for i in range(0, len(lcases), 200):
        jobs.append((root, work, "harness.checks.c15:job", (i, lcases[i:i + 200]), "foreign nested files", 200))
    results = pmap(san_job, jobs, job_timeout=1500)
    seen = {}
    for j, r in zip(jobs, results):
        if not isinstance(r, dict):
            verd.add({"tool": "harness", "kind": "sanitized job lost", "input": j[4].split()[0]}, {"job": j[2]})
            continue
        ev.evaluations += r["n"]
        reps = S.reports(r["err"], cmap)
        marks = [ln[7:] for ln in r["err"].splitlines() if ln.startswith("@@case ")]
        for rep in reps:
            key = (rep["tool"], rep["kind"], rep["function"])
            seen[key] = seen.get(key, 0) + 1
            sig = {"tool": rep["tool"], "kind": rep["kind"], "function": rep["function"]}
            last = None
            if rep["tool"] == "asan" and marks:
                # ASan stops the process at its first report: the last case announced is the one that was being read
                try:
                    last = json.loads(marks[-1])
                    if "cause" in last:
                        sig["layout_cause"] = last["cause"]
                    if "nested" in last:
                        sig["layout_cause"] = "nested column, version-%d pages%s" % (
                            last["version"], ", row continued on the next page" if last.get("cut_inside_row") else "")
                except ValueError:
                    pass
            verd.add(sig, {"input": r["label"], "pyx_line": rep["pyx_line"], "case": last})
        if r["rc"] != 0 and not reps:
            verd.add({"tool": "process", "kind": "exit status %s without a sanitizer report" % r["rc"],
                      "input": r["label"].split()[0]}, {"stderr_tail": r["err"][-1500:]})
        ev.nontrivial.add((r["label"], j[3][0] if isinstance(j[3], tuple) and j[3] and isinstance(j[3][0], int) else repr(j[3])[:40]))
    ev.extra["distinct_reports"] = {"%s|%s|%s" % k: v for k, v in seen.items()}
    ev.extra["inputs"] = {"codec_vectors": len(vectors), "thrift_shapes": len(shapes), "metadata_sizes": len(sizes),
                          "write_read_cases": len(sample), "foreign_flat_layouts": len(fcases), "foreign_nested_layouts": len(lcases)}
    ev.rule = ("every input of the systematic spaces (TLC-computed codec vectors, IDL value shapes, buffer-model size points, "
               "sampled write/read cases) executed once under ASan+UBSan in batches; non-trivial = distinct batches executed")
    ev.sample({"input": "codec vectors", "example": {k: vectors[0][k] for k in vectors[0] if k != "values"}})
    n = verd.report(ev)
    return 1 if n else 0


def replay(path):
    print(open(path).read()[:3000])
    return 1
