"""C06 - every partial read agrees with the corresponding part of the full read (spec/Access.tla)."""
import copy
import io
import json
import os
import pickle
import shutil
import traceback

from ..common import Timer, scratch, HOME, use_repo
from ..evidence import Evidence
from ..findings import Verdicts
from ..parallel import pmap, Crashed
from .. import tlc as T

PID = "C06"
NONE = 99


def make_dataset(fp, d, rowcounts, scheme, written_index=None):
    import pandas as pd
    import numpy as np
    n = sum(rowcounts)
    df = pd.DataFrame({"x": np.arange(n, dtype="int64") * 13 + 70001,
                       "s": pd.Series(["v%04d" % (i * 7) for i in range(n)], dtype="str"),
                       "k": pd.Categorical([["ka", "kb", "kc"][i % 3] for i in range(n)]),
                       "f": [np.nan if i % 4 == 3 else i * 0.5 + 0.125 for i in range(n)],
                       # a time-zone aware column (the zone is handle state, restored from the metadata) and a nullable one
                       "t": pd.Series(pd.date_range("2021-03-27 22:00", periods=n, freq="h", tz="Europe/Paris")),
                       "n": pd.array([None if i % 5 == 2 else i * 3 - 4 for i in range(n)], dtype="Int64")})
    offs = [sum(rowcounts[:i]) for i in range(len(rowcounts))]
    path = os.path.join(d, "ds-" + scheme + ("-idx" if written_index else "") + ("" if scheme == "hive" else ".parquet"))
    if written_index:
        # the same table with column x as its (named) row index: x is stored as a column and announced as the index
        xs = np.array(df[written_index])
        xs[[0, -1]] = xs[[-1, 0]]                     # (not an arithmetic progression: pandas would make it a range)
        df[written_index] = xs
        fp.write(path, df.set_index(written_index), file_scheme=scheme, row_group_offsets=offs)
        df.attrs["written_index"] = written_index
    else:
        fp.write(path, df, file_scheme=scheme, row_group_offsets=offs, write_index=False)
    return path, df


def make_foreign(d, rowcounts):
    """the same table as a single file from 'another writer' (independent encoder; no pandas metadata, plain strings)"""
    import pandas as pd
    import numpy as np
    from ..pqspec import writer as PW
    n = sum(rowcounts)
    xs = [i * 13 + 70001 for i in range(n)]
    ss = ["v%04d" % (i * 7) for i in range(n)]
    ks = [["ka", "kb", "kc"][i % 3] for i in range(n)]
    fs = [None if i % 4 == 3 else i * 0.5 + 0.125 for i in range(n)]
    t0 = int(pd.Timestamp("2021-03-27 22:00", tz="Europe/Paris").value // 1000)
    ts = [t0 + i * 3600 * 10 ** 6 for i in range(n)]
    ns = [None if i % 5 == 2 else i * 3 - 4 for i in range(n)]
    schema = [{"name": "x", "type": "INT64", "repetition": "REQUIRED", "converted_type": None},
              {"name": "s", "type": "BYTE_ARRAY", "repetition": "REQUIRED", "converted_type": "UTF8"},
              {"name": "k", "type": "BYTE_ARRAY", "repetition": "REQUIRED", "converted_type": "UTF8"},
              {"name": "f", "type": "DOUBLE", "repetition": "OPTIONAL", "converted_type": None},
              {"name": "t", "type": "INT64", "repetition": "REQUIRED", "converted_type": "TIMESTAMP_MICROS"},
              {"name": "n", "type": "INT64", "repetition": "OPTIONAL", "converted_type": None}]
    rgs, a = [], 0
    for c in rowcounts:
        b = a + c
        def col(name, vals, levels=None):
            return {"path": [name], "codec": "UNCOMPRESSED", "dictionary": None, "statistics": "auto",
                    "pages": [{"version": 1, "encoding": "PLAIN", "values": vals, "def_levels": levels}]}
        rgs.append({"num_rows": c, "columns": [
            col("x", xs[a:b]), col("s", [v.encode() for v in ss[a:b]]), col("k", [v.encode() for v in ks[a:b]]),
            col("f", [v for v in fs[a:b] if v is not None], [0 if v is None else 1 for v in fs[a:b]]),
            col("t", ts[a:b]), col("n", [v for v in ns[a:b] if v is not None], [0 if v is None else 1 for v in ns[a:b]])]})
        a = b
    path = os.path.join(d, "ds-foreign.parquet")
    with open(path, "wb") as f:
        f.write(PW.build_file({"created_by": "parquet-mr version 1.12.0 (build abc)", "schema": schema, "row_groups": rgs}))
    df = pd.DataFrame({"x": np.array(xs, dtype="int64"), "s": pd.Series(ss, dtype=object), "k": pd.Series(ks, dtype=object),
                       "f": [np.nan if v is None else v for v in fs],
                       "t": pd.to_datetime(pd.Series(ts, dtype="int64"), unit="us"),       # no zone recorded in a foreign file
                       "n": pd.array(ns, dtype="Int64")})
    return path, df


def sl(v):
    return None if v == NONE else v


def run_program(fp, path, df, rowcounts, prog, outcome, src="path"):
    """execute the program on the real handle; return list of problems"""
    import pandas as pd
    if src == "fileobj":
        fobj = open(path, "rb")
        try:
            return _run_program(fp, fobj, path, df, rowcounts, prog, outcome)
        finally:
            fobj.close()
    if src == "bytesio":
        with open(path, "rb") as f0:
            return _run_program(fp, io.BytesIO(f0.read()), path, df, rowcounts, prog, outcome)
    return _run_program(fp, path, path, df, rowcounts, prog, outcome)


def _run_program(fp, target, path, df, rowcounts, prog, outcome):
    import pandas as pd
    pf = fp.ParquetFile(target)
    starts = [sum(rowcounts[:i]) for i in range(len(rowcounts))]
    for st in prog[:-1] if outcome.get("kind") != "IndexError" else prog:
        op = st["op"]
        try:
            if op == "slice":
                pf = pf[sl(st["i"]):sl(st["j"]):sl(st["k"])]
            elif op == "pick":
                pf = pf[st["i"]]
            elif op == "pickle":
                pf = pickle.loads(pickle.dumps(pf))
            elif op == "copy":
                pf = copy.copy(pf)
            elif op == "deepcopy":
                pf = copy.deepcopy(pf)
            elif op == "warm":
                pf.to_pandas()
        except IndexError:
            return [] if outcome.get("kind") == "IndexError" else ["IndexError where the view has that row group"]
        except BaseException as e:  # noqa
            return ["deriving a handle raised %s" % type(e).__name__]
    if outcome.get("kind") == "IndexError":
        return ["no IndexError for a pick outside the view"]
    view = outcome["view"]
    rows = [r for g in view for r in range(starts[g - 1], starts[g - 1] + rowcounts[g - 1])]
    cols = list(outcome["cols"]) or list(df.columns)
    ix = outcome.get("ix", "default")
    # which column the read must put into the row index: the one asked for, else the one the file records
    ixcol = ix if ix not in ("default", "false") else (df.attrs.get("written_index") if ix == "default" else None)
    # (a recorded index comes along even when it is not among the columns asked for)
    want = df.iloc[rows][cols + ([ixcol] if ixcol is not None and ixcol not in cols else [])].reset_index(drop=True)
    cols = [c for c in cols if c != ixcol]
    kind = outcome["kind"]
    probs = []
    try:
        if len(pf.row_groups) != len(view):
            probs.append("handle reports a different number of row groups")
        if [rg.num_rows for rg in pf.row_groups] != outcome["per_rg"]:
            probs.append("per-row-group row counts differ")
        if pf.count() != outcome["rows"] or pf.info["rows"] != outcome["rows"]:
            probs.append("reported total row count differs from the rows of the view")
        if kind == "count":
            return probs
        kw = {"columns": list(outcome["cols"])} if outcome["cols"] else {}
        if ix == "false":
            kw["index"] = False
        elif ix != "default":
            kw["index"] = ix
        if kind == "to_pandas":
            got = pf.to_pandas(**kw)
        elif kind == "filelike":
            if os.path.isdir(path):
                return probs
            with open(path, "rb") as f:
                pf2 = fp.ParquetFile(f)
                for st in prog[:-1]:
                    if st["op"] == "slice":
                        pf2 = pf2[sl(st["i"]):sl(st["j"]):sl(st["k"])]
                    elif st["op"] == "pick":
                        pf2 = pf2[st["i"]]
                got = pf2.to_pandas(**kw)
        elif kind == "iter":
            parts = list(pf.iter_row_groups(**kw))
            if [len(p) for p in parts] != [c for c in outcome["per_rg"] if c]:
                probs.append("iter_row_groups yields frames of other sizes than the row groups")
            if not parts:
                got = want.iloc[0:0] if ixcol is None else want.iloc[0:0].set_index(ixcol)[cols]
            else:
                got = pd.concat(parts, ignore_index=True) if ixcol is None else pd.concat(parts)
        elif kind == "head":
            got = pf.head(outcome["h"], **kw)
            want = want.iloc[:outcome["h"]]
        else:
            return probs + ["unknown read"]
        if ixcol is not None:
            if list(got.index.names) != [ixcol]:
                probs.append("row index is not the column asked for / recorded by the file")
                return probs
            if list(got.columns) != cols:
                probs.append("columns or their order differ")
                return probs
            got = got.reset_index()
            cols = cols + [ixcol]
            got = got[cols]
        else:
            got = got.reset_index(drop=True)
        if list(got.columns) != cols:
            probs.append("columns or their order differ")
        elif len(got) != len(want):
            probs.append("number of rows read differs from the rows of the view")
        else:
            for c in cols:
                a = [_cell(c, v) for v in got[c].astype(object)]
                b = [_cell(c, v) for v in want[c].astype(object)]
                if a != b:
                    probs.append("cells differ from the corresponding part of the full read")
                    break
    except BaseException as e:  # noqa
        probs.append("partial read raised %s" % type(e).__name__)
    return probs


def _cell(c, v):
    """comparable form of a cell: text, float, or - for the time column - the instant AND whether it carries a zone"""
    import pandas as pd
    if v is None or v is pd.NA or v is pd.NaT or v != v:
        return None
    if c in ("s", "k"):
        return v.decode() if isinstance(v, bytes) else str(v)
    if c == "t":
        v = pd.Timestamp(v)
        return ("aware" if v.tzinfo is not None else "naive", (v.tz_convert("UTC").tz_localize(None) if v.tzinfo is not None else v).value)
    return float(v)


def replay_chunk(args):
    jid, cases, rowcounts, base = args
    fp = use_repo()
    out = {"jid": jid, "viol": [], "evals": 0}
    d = os.path.join(base, "a%d" % jid)
    shutil.rmtree(d, ignore_errors=True)      # a re-run of this job (after a time-out) starts clean
    os.makedirs(d)
    try:
        sets = {s: make_dataset(fp, d, rowcounts, s) for s in ("simple", "hive")}
        sets["simple_idx"] = make_dataset(fp, d, rowcounts, "simple", written_index="x")
        sets["foreign"] = make_foreign(d, rowcounts)
        for ci, c in enumerate(cases):
            for scheme, (path, df) in sets.items():
                out["evals"] += 1
                src = c.get("src", "path")
                if src != "path" and os.path.isdir(path):
                    continue
                probs = run_program(fp, path, df, rowcounts, c["prog"], c["outcome"], src)
                for p in probs:
                    ops = [st["op"] for st in c["prog"]]
                    neg = any(st["op"] == "slice" and st["k"] not in (NONE, 1, 2) for st in c["prog"])
                    out["viol"].append(({"what": p, "ops": ops, "scheme": scheme, "source": src, "negative_step": neg,
                                         "columns": "subset" if c["outcome"].get("cols") else "all"}, ci))
    except BaseException:  # noqa
        out["error"] = traceback.format_exc()
    finally:
        shutil.rmtree(d, ignore_errors=True)
    return out


def export(work, tag, **consts):
    cfg = os.path.join(work, "acc-%s.cfg" % tag)
    c = {k: ("<- " + v if isinstance(v, str) else v) for k, v in consts.items()}
    c.setdefault("Sources", "<- SrcPath")
    c.setdefault("IndexArgs", "<- IdxDefault")
    T.write_cfg(cfg, spec="Spec", constants=c, invariants=["ViewIsSubsequenceOfDataset", "Export"], check_deadlock=False)
    res = T.run_tlc("AccessMC", cfg, work, timeout=3000, coverage=True)
    if not res.completed:
        raise T.TLCError("Access export failed:\n" + res.out[-2000:])
    return res.printed_json(), res


def run(tier, seed):
    t = Timer()
    ev = Evidence(PID, tier, seed, "model_checking")
    ev.assumptions = ["datasets: this library's single file and hive directory written without a row index, one single file "
                      "written WITH a named row index, and a foreign file; the index= argument (recorded / suppressed / a named "
                      "column) is explored on a reduced argument grid", "range-index labels are not compared",
                      "Python slice semantics transcribed from CPython's PySlice_AdjustIndices"]
    thorough = tier == "thorough"
    with scratch() as work:
        rc = _run(ev, work, thorough)
    ev.write(t.s())
    return rc


def _run(ev, work, thorough):
    verd = Verdicts(PID, os.path.join(HOME, "replays"))
    rc4 = [1, 3, 2, 1]
    c1, r1 = export(work, "d1", RowCounts="RC4", SliceArgs="ArgsAll", Steps="StepsAll",
                    Derivations="DerivAll", Reads="ReadsAll", ColumnSets="ColsAll" if thorough else "ColsFew", MaxDepth=1)
    ev.add_tlc("Access: programs with one derivation, every read kind", r1, programs=len(c1))
    c2, r2 = export(work, "d2", RowCounts="RC4", SliceArgs="ArgsTiny", Steps="StepsFew", Derivations="DerivAll",
                    Reads="ReadsTwo", ColumnSets="ColsNone", MaxDepth=3 if thorough else 2)
    ev.add_tlc("Access: compositions of derivations", r2, programs=len(c2))
    c3, r3 = export(work, "d3", RowCounts="RC4", SliceArgs="ArgsTiny", Steps="StepsFew", Derivations="DerivWarm",
                    Reads="ReadsFour", ColumnSets="ColsFew", Sources="SrcAll", MaxDepth=2)
    ev.add_tlc("Access: root handle opened from a path / an open file object / BytesIO, with earlier reads through the "
               "same handle", r3, programs=len(c3))
    c4, r4 = export(work, "d4", RowCounts="RC4", SliceArgs="ArgsTiny", Steps="StepsFew", Derivations="DerivAll",
                    Reads="ReadsFour", ColumnSets="ColsIdx", IndexArgs="IdxAll", MaxDepth=1)
    ev.add_tlc("Access: the index= argument (recorded / suppressed / a named column) on datasets written without and with a "
               "row index", r4, programs=len(c4))
    cases = c1 + c2 + c3 + c4
    chunks = [cases[i::64] for i in range(64)]
    base = os.path.join(work, "acc")
    os.makedirs(base)
    jobs = [(i, c, rc4, base) for i, c in enumerate(chunks) if c]
    results = pmap(replay_chunk, jobs, job_timeout=900)
    for j, r in zip(jobs, results):
        if isinstance(r, Crashed):
            verd.add({"what": "interpreter crashed or hung in a partial read"}, {"first_program": j[1][0]})
            continue
        if not isinstance(r, dict) or "error" in r:
            raise RuntimeError("replay machinery failed:\n%s" % (r if not isinstance(r, dict) else r["error"]))
        ev.evaluations += r["evals"]
        for sig, ci in r["viol"]:
            verd.add(sig, {"program": j[1][ci]["prog"], "expected": j[1][ci]["outcome"]}, cost=len(j[1][ci]["prog"]))
    for c in cases:
        if len(c["prog"]) >= 2:
            ev.nontrivial.add(json.dumps(c["prog"], sort_keys=True))
    ev.extra["programs"] = len(cases)
    ev.rule = ("programs = every sequence TLC enumerates: derivations {slice [i:j:k] over the argument grid, pick, pickle, copy, "
               "deepcopy} (depth 1 with every read kind / depth 2-3 with to_pandas and count) ending in a read "
               "{to_pandas, iter_row_groups, head(n) for every n, count, file-like} with column selections; executed on a "
               "single-file and a hive dataset written by the library and on a single file from an independent encoder "
               "(no pandas metadata); non-trivial = distinct programs with at least one derivation")
    ev.exhaustive = True
    ev.sample(cases[len(cases) // 3])
    n = verd.report(ev)
    return 1 if n else 0


def replay(path):
    doc = json.load(open(path))
    print(json.dumps(doc, indent=1)[:2500])
    return 1
