"""C15 - LIST (and MAP) columns are assembled into the right per-row lists (spec/Nested.tla)."""
import io
import json
import os
import traceback

from ..common import Timer, scratch, HOME, use_repo
from ..evidence import Evidence
from ..findings import Verdicts
from ..parallel import pmap, Crashed
from .. import tlc as T
from ..pqspec import writer as PW, reader as PR

PID = "C15"


def conc(v):
    return 1000 + v


def expected_rows(case, key="rows"):
    out = []
    for r in case[key]:
        if r["null"]:
            out.append(None)
        else:
            out.append([None if e == 0 else conc(e) for e in r["elems"]])
    return out


def list_spec(case, version, use_dict, kind):
    lopt, eopt = case["lopt"], case["eopt"]
    stream = case["stream"]
    n = len(stream)
    cuts = sorted(case["cuts"])
    bounds = [0] + cuts + [n]
    pages = []
    vals_all = sorted({t["val"] for t in stream if t["val"] >= 0})

    def phys(v):
        return conc(v) if kind == "int64" else ("e%d" % conc(v)).encode()
    dictionary = [phys(v) for v in vals_all] if use_dict else None
    for a, b in zip(bounds[:-1], bounds[1:]):
        trs = stream[a:b]
        if not trs:
            continue
        values = [t["val"] for t in trs if t["val"] >= 0]
        # use_dict == "mixed": dictionary fallback inside the chunk - the first page dictionary-encoded, the others plain
        as_dict = bool(use_dict) and not (use_dict == "mixed" and pages)
        pages.append({"version": version, "encoding": "DICT" if as_dict else "PLAIN",
                      "values": [vals_all.index(v) for v in values] if as_dict else [phys(v) for v in values],
                      "def_levels": [t["def"] for t in trs], "rep_levels": [t["rep"] for t in trs]})
    schema = [{"name": "l", "repetition": "OPTIONAL" if lopt else "REQUIRED", "converted_type": "LIST",
               "children": [{"name": "list", "repetition": "REPEATED",
                             "children": [{"name": "element", "type": "INT64" if kind == "int64" else "BYTE_ARRAY",
                                           "converted_type": None if kind == "int64" else "UTF8",
                                           "repetition": "OPTIONAL" if eopt else "REQUIRED"}]}]}]
    return {"created_by": "parquet-mr version 1.12.0", "schema": schema,
            "row_groups": [{"num_rows": len(case["rows"]),
                            "columns": [{"path": ["l", "list", "element"], "codec": "UNCOMPRESSED", "dictionary": dictionary,
                                         "pages": pages, "statistics": None}]}]}


def job(args):
    jid, cases = args[0], args[1]
    only = args[2] if len(args) > 2 else None          # (version, use_dict, kind): one variant only (crash bisection)
    fp = use_repo()
    out = {"jid": jid, "viol": [], "evals": 0, "machinery": 0, "skipped_v2": 0}
    for ci, case in enumerate(cases):
        want = expected_rows(case)
        stream = case["stream"]
        inside = any(stream[c]["rep"] != 0 for c in case["cuts"] if c < len(stream))     # a cut inside a row
        for version in (1, 2):
            if version == 2 and inside:
                out["skipped_v2"] += 1       # version-2 pages must start on a row boundary: such a layout is not valid
                continue
            for use_dict, kind in ((False, "int64"), (True, "int64"), (False, "utf8"), ("mixed", "int64")):
                if only is not None and (version, use_dict, kind) != tuple(only):
                    continue
                if use_dict == "mixed" and not case["cuts"]:
                    continue
                try:
                    data = PW.build_file(list_spec(case, version, use_dict, kind))
                    fv = PR.read_file(data, strict=True)
                    if fv.problems:
                        out["machinery"] += 1
                        continue
                except Exception:  # noqa
                    out["machinery"] += 1
                    continue
                out["evals"] += 1
                sig = {"version": version, "cut_inside_row": inside, "model_predicts_misassembly": not case["model_ok"]}
                if os.environ.get("VERIF_SAN_MARK"):
                    import sys
                    sys.stderr.write("@@case %s\n" % json.dumps(dict(sig, nested="LIST", dictionary=use_dict, element=kind,
                                                                     cuts=case["cuts"], rows=len(case["rows"]))))
                    sys.stderr.flush()
                try:
                    df = fp.ParquetFile(io.BytesIO(data)).to_pandas()
                    got = []
                    for v in df["l"]:
                        if v is None or (isinstance(v, float) and v != v):
                            got.append(None)
                        else:
                            got.append([None if (e is None or (isinstance(e, float) and e != e)) else e for e in list(v)])
                except BaseException as e:  # noqa
                    out["viol"].append((dict(sig, what="reading the nested column raised", exc=type(e).__name__), ci))
                    continue
                exp = want if kind == "int64" else [None if r is None else [None if e is None else "e%d" % e for e in r] for r in want]
                norm = [None if r is None else [None if e is None else (int(e) if kind == "int64" else (e.decode() if isinstance(e, bytes) else str(e))) for e in r] for r in got]
                if norm != exp:
                    if version == 1 and not case["model_ok"] and not case.get("misplaced"):
                        # the transcription of _assemble_objects says exactly what the code returns for this cut
                        mech = expected_rows(case, "mech")
                        mexp = mech if kind == "int64" else [None if r is None else [None if e is None else "e%d" % e for e in r] for r in mech]
                        sig["result_is_what_the_mechanism_model_computes"] = norm == mexp
                    out["viol"].append((dict(sig, what="rows assembled differently from standard record assembly"), ci))
    return out


# ---------------------------------------------------------------------------------------------------------
# MAP columns (spec/MapNested.tla): two leaves with independent page cuts
# ---------------------------------------------------------------------------------------------------------

def map_expected(case, key="rows"):
    return [None if r["null"] else {"k%d" % k: (None if v == 0 else conc(v)) for k, v in r["pairs"]} for r in case[key]]


def map_spec(case, version):
    def pages(stream, cuts, phys):
        bounds = [0] + sorted(cuts) + [len(stream)]
        out = []
        for a, b in zip(bounds[:-1], bounds[1:]):
            trs = stream[a:b]
            if trs:
                out.append({"version": version, "encoding": "PLAIN", "values": [phys(t["val"]) for t in trs if t["val"] >= 0],
                            "def_levels": [t["def"] for t in trs], "rep_levels": [t["rep"] for t in trs]})
        return out
    name = case["colname"]
    schema = [{"name": name, "repetition": "OPTIONAL" if case["mopt"] else "REQUIRED", "converted_type": "MAP",
               "children": [{"name": "key_value", "repetition": "REPEATED", "converted_type": "MAP_KEY_VALUE",
                             "children": [{"name": "key", "type": "BYTE_ARRAY", "converted_type": "UTF8", "repetition": "REQUIRED"},
                                          {"name": "value", "type": "INT64", "converted_type": None,
                                           "repetition": "OPTIONAL" if case["vopt"] else "REQUIRED"}]}]}]
    return {"created_by": "parquet-mr version 1.12.0", "schema": schema,
            "row_groups": [{"num_rows": len(case["rows"]), "columns": [
                {"path": [name, "key_value", "key"], "codec": "UNCOMPRESSED", "dictionary": None, "statistics": None,
                 "pages": pages(case["streamK"], case["cutsK"], lambda v: ("k%d" % v).encode())},
                {"path": [name, "key_value", "value"], "codec": "UNCOMPRESSED", "dictionary": None, "statistics": None,
                 "pages": pages(case["streamV"], case["cutsV"], conc)}]}]}


def map_job(args):
    jid, cases = args
    fp = use_repo()
    out = {"jid": jid, "viol": [], "evals": 0, "machinery": 0}
    for ci, case in enumerate(cases):
        want = map_expected(case)
        inside = (any(case["streamK"][c]["rep"] != 0 for c in case["cutsK"] if c < len(case["streamK"]))
                  or any(case["streamV"][c]["rep"] != 0 for c in case["cutsV"] if c < len(case["streamV"])))
        for version in (1, 2):
            if version == 2 and inside:
                continue
            try:
                data = PW.build_file(map_spec(case, version))
                fv = PR.read_file(data, strict=True)
                if fv.problems:
                    out["machinery"] += 1
                    continue
            except Exception:  # noqa
                out["machinery"] += 1
                continue
            out["evals"] += 1
            sig = {"column": "MAP", "version": version, "cut_inside_row": inside, "column_named_key": case["colname"] == "key",
                   "model_predicts_misassembly": not case["model_ok"]}
            try:
                df = fp.ParquetFile(io.BytesIO(data)).to_pandas()
                got = []
                for v in df[case["colname"]]:
                    if v is None or (isinstance(v, float) and v != v):
                        got.append(None)
                    else:
                        got.append({(k.decode() if isinstance(k, bytes) else k): (None if (x is None or (isinstance(x, float) and x != x))
                                                                                  else (int(x) if not isinstance(x, (str, bytes)) else x))
                                    for k, x in dict(v).items()})
            except BaseException as e:  # noqa
                out["viol"].append((dict(sig, what="reading the nested column raised", exc=type(e).__name__), ci))
                continue
            if got != want:
                if version == 1 and not case["model_ok"] and not case.get("misplaced"):
                    sig["result_is_what_the_mechanism_model_computes"] = got == map_expected(case, "mech")
                out["viol"].append((dict(sig, what="rows assembled differently from standard record assembly"), ci))
    return out


def run(tier, seed):
    t = Timer()
    ev = Evidence(PID, tier, seed, "model_checking")
    ev.assumptions = ["LIST<int64 / utf8> columns with optional/required list and element; MAP<utf8, int64> columns with optional/required map "
                      "and value, key and value leaves cut into pages independently", "files rendered by the independent encoder pqspec",
                      "version-2 pages only with cuts on row boundaries (the format requires it)"]
    with scratch() as work:
        rc = _run(ev, work, tier == "thorough")
    ev.write(t.s())
    return rc


def export_lists(work, thorough):
    cfg = os.path.join(work, "nested.cfg")
    T.write_cfg(cfg, spec="Spec", constants={"MaxRows": 3, "MaxLen": 2, "MaxPages": 3 if thorough else 2,
                                             "ListOptionals": "<- BoolBoth", "ElemOptionals": "<- BoolBoth", "Vals": "<- V2"},
                invariants=["Export"], check_deadlock=False)
    res = T.run_tlc("NestedMC", cfg, work, timeout=3000, coverage=True)
    cases = res.printed_json()
    if not res.completed or not cases:
        raise T.TLCError("Nested export failed:\n" + res.out[-2000:])
    return cases, res


def _run(ev, work, thorough):
    cases, res = export_lists(work, thorough)
    pred_bad = sum(1 for c in cases if not c["model_ok"])
    ev.add_tlc("Nested: every row structure x every cut of the triple stream, with the transcribed _assemble_objects", res,
               cases=len(cases), mechanism_predicted_misassemblies=pred_bad)
    if pred_bad == 0:
        raise T.TLCError("vacuity: the transcribed mechanism never deviates from the contract")
    if not thorough:
        cases = [c for i, c in enumerate(cases) if i % 3 == 0 or not c["model_ok"]]
    # cuts the mechanism model predicts to misplace rows can corrupt memory in the native assembler (no bounds checks):
    # they run in small batches of their own, so that a crash there cannot hide the cases the model expects to work
    calm = [c for c in cases if c["model_ok"]]
    risky = [c for c in cases if not c["model_ok"]]
    jobs = [(i, calm[i::64]) for i in range(64) if calm[i::64]]
    nr = max(1, (len(risky) + 24) // 25)
    rjobs = [(1000 + i, risky[i::nr]) for i in range(nr) if risky[i::nr]]
    results = pmap(job, jobs + rjobs, job_timeout=900)
    rresults = results[len(jobs):]
    results = results[:len(jobs)]
    verd = Verdicts(PID, os.path.join(HOME, "replays"))
    mach = sk = 0
    disagreements = 0
    def collect(r, cs):
        nonlocal mach, sk
        ev.evaluations += r["evals"]
        mach += r["machinery"]
        sk += r["skipped_v2"]
        for sig, ci in r["viol"]:
            verd.add(sig, {"case": cs[ci]}, cost=len(cs[ci]["stream"]))

    for j, r in zip(jobs, results):
        if isinstance(r, Crashed):
            # a crash takes the whole batch with it: re-run its cases one variant per process
            singles = [(k, [c], (v, d, kd)) for k, c in enumerate(j[1]) for v in (1, 2)
                       for d, kd in ((False, "int64"), (True, "int64"), (False, "utf8"), ("mixed", "int64"))]
            sres = pmap(job, singles, job_timeout=300)
            # a single that only timed out (machine under load) gets one more try on its own
            again = [i for i, sr in enumerate(sres) if isinstance(sr, Crashed) and sr.timed_out]
            for i in again:
                sres[i] = pmap(job, [singles[i]], job_timeout=600)[0]
            for sj, sr in zip(singles, sres):
                c, (v, d, kd) = sj[1][0], sj[2]
                if isinstance(sr, Crashed):
                    inside = any(c["stream"][x]["rep"] != 0 for x in c["cuts"] if x < len(c["stream"]))
                    if v == 2 and inside:
                        continue
                    verd.add({"version": v, "cut_inside_row": inside, "model_predicts_misassembly": not c["model_ok"],
                              "what": "interpreter crashed or hung assembling a nested column"},
                             {"case": c, "dictionary": d, "element": kd}, cost=len(c["stream"]))
                elif isinstance(sr, dict):
                    collect(sr, sj[1])
            continue
        if not isinstance(r, dict):
            raise RuntimeError("machinery failed: %s" % (r,))
        collect(r, j[1])
    for j, r in zip(rjobs, rresults):
        if isinstance(r, Crashed):
            verd.add({"version": 1, "cut_inside_row": True, "model_predicts_misassembly": True,
                      "what": "interpreter crashed or hung assembling a nested column"},
                     {"batch_of_predicted_misassemblies": len(j[1]), "first": j[1][0]}, cost=len(j[1][0]["stream"]))
        elif isinstance(r, dict):
            collect(r, j[1])
        else:
            raise RuntimeError("machinery failed: %s" % (r,))
    # ---- MAP columns ----
    mcfg = os.path.join(work, "mapn.cfg")
    mconst = {"MaxRows": 2, "MaxLen": 2, "MaxPages": 2, "MapOptionals": "<- BoolBoth", "ValOptionals": "<- BoolBoth",
              "Keys": "<- K2", "Vals": "<- V2", "ColumnNames": "<- NamesBoth"}
    # the mechanism as the code has it since the repair (KF-C15-fix): the LEAF's name decides which list holds the keys
    T.write_cfg(mcfg, spec="Spec", constants=dict(mconst, KeyTestOnColumnName=False), invariants=["Export"], check_deadlock=False)
    mres = T.run_tlc("MapNestedMC", mcfg, work, timeout=3000)
    mcases = mres.printed_json()
    if not mres.completed or not mcases:
        raise T.TLCError("MapNested export failed:\n" + mres.out[-2000:])
    ev.add_tlc("MapNested: every row structure x independent cuts of the key and value streams x column name", mres,
               cases=len(mcases), mechanism_predicted_misassemblies=sum(1 for c in mcases if not c["model_ok"]))
    # single pages: the contract holds; with the key test on the COLUMN's name (as found) a column called 'key' comes back swapped
    T.write_cfg(mcfg, spec="Spec", constants=dict(mconst, KeyTestOnColumnName=False, MaxPages=1),
                invariants=["Assembled"], check_deadlock=False)
    m2 = T.run_tlc("MapNestedMC", mcfg, work, timeout=3000)
    if not m2.ok:
        raise T.TLCError("MapNested with single pages and the leaf-name key test must satisfy Assembled: %s" % m2.violated)
    ev.add_tlc("MapNested, single pages, key decided by the leaf name: Assembled holds", m2)
    T.write_cfg(mcfg, spec="Spec", constants=dict(mconst, KeyTestOnColumnName=True, MaxPages=1),
                invariants=["Assembled"], check_deadlock=False)
    m3 = T.run_tlc("MapNestedMC", mcfg, work, timeout=3000)
    if m3.violated != "Assembled":
        raise T.TLCError("MapNested with the key test on the column name must violate Assembled")
    ev.add_tlc("MapNested mutant KeyTestOnColumnName (as found before the repair): Assembled violated", m3)
    if not thorough:
        mcases = [c for i, c in enumerate(mcases) if i % 7 == 0 or (not c["model_ok"] and i % 3 == 0)]
    mjobs = [(i, mcases[i::64]) for i in range(64) if mcases[i::64]]
    for j, r in zip(mjobs, pmap(map_job, mjobs, job_timeout=900)):
        if isinstance(r, Crashed):
            verd.add({"what": "interpreter crashed or hung assembling a nested column", "column": "MAP"}, {"first": j[1][0]})
            continue
        if not isinstance(r, dict):
            raise RuntimeError("machinery failed: %s" % (r,))
        ev.evaluations += r["evals"]
        mach += r["machinery"]
        for sig, ci in r["viol"]:
            verd.add(sig, {"map_case": j[1][ci]}, cost=len(j[1][ci]["streamK"]))
    for c in mcases:
        if c["cutsK"] or c["cutsV"]:
            ev.nontrivial.add(json.dumps(c, sort_keys=True))
    ev.extra["map_cases"] = len(mcases)
    for c in cases:
        if c["cuts"]:
            ev.nontrivial.add(json.dumps(c, sort_keys=True))
    ev.extra.update(cases=len(cases), excluded_machinery=mach, v2_layouts_skipped_as_invalid=sk)
    ev.rule = ("every sequence of <= 3 rows (null row, empty list, lists of <= 2 elements incl. null elements) x optional/"
               "required list and element x every cut of the triple stream into <= 2 (3) pages, as v1 and (row-aligned) v2, "
               "plain int64 / dictionary int64 / plain utf8; quick replays every third case plus every case the mechanism "
               "model predicts to fail; non-trivial = distinct cases with at least one page cut")
    ev.exhaustive = thorough
    ev.sample(cases[len(cases) // 2])
    n = verd.report(ev)
    return 1 if n else 0


def replay(path):
    doc = json.load(open(path))
    r = job((0, [doc["replay"]["case"]]))
    print(json.dumps(r, indent=1, default=str)[:2500])
    return 1 if r["viol"] else 0
