"""Binding of spec/SingleFile.tla to the real code (shared by C16, C07, C18).

spec -> code : histories exported by TLC (SingleFileExport) are replayed on real files; after every
               operation the contract is evaluated on the real file (independent tail parser + the
               library's own reader + byte comparison of the data region).
code -> spec : the file-handle calls of every replayed operation are recorded (hook-free) and validated
               by TLC against SingleFileTrace; TLC reports the contract predicates on the reconstructed
               state of each trace.
"""
import json
import os
import re
import shutil
import struct
import traceback

from ..common import NCPU, scratch, use_repo
from ..parallel import pmap, Crashed
from .. import tlc as T
from ..observe.iorec import Recorder
from ..project import tail_view, user_kv

KEYS = ["a", "b"]
NCOLS = 3
ROWS_PER_RG = 2

CONST_BASE = dict(Keys={"a", "b"}, KeyCost=6, FootBase=5, RgCost=3, NCols=NCOLS, MaxNewRgs=2)


# ----------------------------------------------------------------------------------------------
# TLC side
# ----------------------------------------------------------------------------------------------

def model_cfg(path, *, vals, maxops, kv, app, fail, meta, trunc_kv, trunc_app, restore, chunk_sizes=(1, 3), restore_truncates=True,
              ncols=2, invariants=(), properties=(), spec="Spec", keys=("a", "b"), fail_kinds=("encode", "codec")):
    c = dict(CONST_BASE)
    c["FailKinds"] = set(fail_kinds)
    c.update(Keys=set(keys), Vals=set(vals), NCols=ncols, ChunkSizes=set(chunk_sizes), MaxOps=maxops,
             MetaFileAllowed=meta, EnableKv=kv, EnableAppend=app, EnableFail=fail,
             TruncateAfterKv=trunc_kv, TruncateAfterAppend=trunc_app, RestoreOnFailure=restore,
             RestoreTruncates=restore_truncates)
    return T.write_cfg(path, spec=spec, constants=c, invariants=invariants, properties=properties,
                       check_deadlock=False)


CONTRACT_INV = ["Openable", "RowsReadable"]
CONTRACT_PROP = ["DataIntact", "AppendOnly", "KvExact", "FailureKeepsVersion"]


def export_histories(work, *, vals, maxops, kv, app, fail, meta, keys=("a", "b"), fail_kinds=("encode", "codec")):
    """TLC enumerates all histories (repaired variant: the expectations are the contract's)."""
    cfg = os.path.join(work, "export.cfg")
    model_cfg(cfg, vals=vals, maxops=maxops, kv=kv, app=app, fail=fail, meta=meta, trunc_kv=True,
              trunc_app=True, restore=True, chunk_sizes=(1,), ncols=NCOLS, invariants=["Export"], spec="ESpec",
              keys=keys, fail_kinds=fail_kinds)
    res = T.run_tlc("SingleFileExport", cfg, work, timeout=3000)
    if not res.completed:
        raise T.TLCError("export did not complete:\n" + res.out[-3000:])
    hs = res.printed_json()
    return hs, res


# ----------------------------------------------------------------------------------------------
# real side
# ----------------------------------------------------------------------------------------------

CATS = ["xxx", "yyy", "zzz", "www", "unused"]


def cell_text(row, c, kind):
    # categorical columns use one fixed category list in every batch (differing lists are KF-C07-1's subject)
    return "xyzw"[(row + c) % 4] * 3 if kind == "cat" else "r%04dc%d-%s" % (row, c, "xyzw"[(row + c) % 4] * 3)


def _frame(pd, first_row, nrows, bad=None, badval=None, kinds=None):
    """rows first_row..first_row+nrows-1, three text columns with distinctive cells (kinds: per column "str" | "cat").
    bad = (row_index_within_frame, col) puts an un-encodable object (or badval[0], e.g. a missing value) there."""
    kinds = kinds or ["str"] * NCOLS
    cols = {}
    for c in range(1, NCOLS + 1):
        vals = [cell_text(first_row + i, c, kinds[c - 1]) for i in range(nrows)]
        if bad is not None and bad[1] == c:
            vals[bad[0]] = {} if badval is None else badval[0]
            cols["c%d" % c] = (pd.Series(pd.Categorical(vals, categories=CATS)) if kinds[c - 1] == "cat" and badval is not None
                               else pd.Series(vals, dtype=object))
        elif kinds[c - 1] == "cat":
            cols["c%d" % c] = pd.Series(pd.Categorical(vals, categories=CATS))
        else:
            cols["c%d" % c] = pd.Series(vals, dtype="str")
    return pd.DataFrame(cols)


def rid_of(row):
    """label of a row in histories whose frames carry a WRITTEN row index (distinct, not an arithmetic progression)"""
    return row * row * 3 + row + 7000


def expected_rows(nrows, kinds=None, widx=False):
    kinds = kinds or ["str"] * NCOLS
    out = []
    for i in range(nrows):
        out.append(tuple(cell_text(i, c, kinds[c - 1]) for c in range(1, NCOLS + 1)) + ((str(rid_of(i)),) if widx else ()))
    return out


def conc_value(step, key, length):
    ch = "ABCDEFGHJKLMNPQRSTUVWXYZ"[(step * 5 + KEYS.index(key) * 11) % 24]
    s = ch * length
    return s.encode() if (step + KEYS.index(key)) % 2 else s


def read_state(fp, path, datapath=None):
    """What the library's reader and the independent tail parser see."""
    target = datapath or path
    with open(path, "rb") as f:
        data = f.read()
    st = {"bytes": data, "tail": tail_view(data), "open_exc": None, "rows": None, "kv": None}
    try:
        pf = fp.ParquetFile(target)
        df = pf.to_pandas()
        cols = ["c%d" % c for c in range(1, NCOLS + 1)]
        st["rows"] = [tuple(None if v is None or v != v else str(v) for v in (df[c].iloc[i] for c in cols))
                      for i in range(len(df))]
        if df.index.name == "rid":
            # the dataset carries a written row index: its labels are part of every row
            st["rows"] = [r + (str(int(v)),) for r, v in zip(st["rows"], df.index)]
        st["kv"] = user_kv(pf.key_value_metadata)
        # the handle exposes text: every key and value that is valid UTF-8 comes back as str (also the empty one)
        def _is_text(x):
            if isinstance(x, str):
                return True
            try:
                x.decode("utf8")
                return False          # decodable bytes exposed as bytes
            except Exception:         # noqa  (not text at all: bytes are what it is)
                return True
        st["kv_text"] = all(_is_text(k) and _is_text(v) for k, v in pf.key_value_metadata.items()
                            if k not in ("pandas", b"pandas"))
        st["rg_rows"] = [rg.num_rows for rg in pf.row_groups]
    except BaseException as e:   # noqa  (a broken file may raise anything, including from C code)
        st["open_exc"] = "%s: %s" % (type(e).__name__, str(e)[:120])
    return st


def replay_history(args):
    """Replay one exported history.  Returns dict(results=[...per op...], traces=[...])."""
    hid, hist, base = args
    fp = use_repo()
    import pandas as pd
    d = os.path.join(base, "h%d" % hid)
    shutil.rmtree(d, ignore_errors=True)      # a re-run of this job (after a time-out) starts clean
    os.makedirs(d)
    out = {"hid": hid, "ops": [], "traces": [], "evals": 0}
    try:
        init = hist[0]
        kv0 = {k: conc_value(0, k, init["kv"][k]) for k in KEYS if init["kv"][k] >= 0}
        nrows = init["nrg"] * ROWS_PER_RG
        kinds = init.get("kinds")
        # every third single-file history writes its frames WITH a named row index (stored as a column, announced in
        # the pandas metadata; an append then has to store the appended frame's index the same way)
        widx = (hid % 3 == 1) and not init["meta"]

        def frame(pd_, first_row, n, *a, **k):
            dfx = _frame(pd_, first_row, n, *a, **k)
            if widx:
                dfx.index = pd_.Index([rid_of(first_row + j) for j in range(n)], name="rid", dtype="int64")
            return dfx
        df0 = frame(pd, 0, nrows, kinds=kinds)
        if init["meta"]:
            ds = os.path.join(d, "ds")
            fp.write(ds, frame(pd, 0, 2, kinds=kinds), file_scheme="hive", custom_metadata=dict(kv0))
            path = os.path.join(ds, "_metadata")
            datapath = ds
            nrows = 2
        else:
            path = os.path.join(d, "f.parquet")
            datapath = None
            # "required": the file declares its columns non-nullable (a later append with a missing value must be refused)
            fp.write(path, df0, row_group_offsets=([0] if nrows else None), custom_metadata=dict(kv0),
                     has_nulls=(False if init.get("required") else True))
        conc = dict((k.encode(), (v.encode() if isinstance(v, str) else v)) for k, v in kv0.items())
        st = read_state(fp, path, datapath)
        if st["open_exc"] or not st["tail"]["strict"]:
            out["ops"].append({"step": 0, "viol": [{"what": "initial write unreadable", "exc": st["open_exc"]}]})
            return out
        exp_rows = expected_rows(nrows, kinds, widx)
        prev_model_flen = init.get("flen")
        i = 1
        step = 0
        while i < len(hist):
            opr, end = hist[i], hist[i + 1]
            i += 2
            step += 1
            obs = end["obs"]
            if opr["kind"] == "refuse" and opr["why"] == "scheme" and nrows == 0:
                # a file without row groups has no scheme yet: the library may accept either (minimal reading)
                out["ops"].append({"step": step, "op": opr, "viol": [], "warn": [], "na": True})
                break
            before = st
            rec = Recorder(root=d)
            info = {"step": step, "op": opr, "viol": [], "warn": [], "abs_pre": None}
            raised = None
            new_conc = dict(conc)
            try:
                if opr["kind"] == "kv":
                    upd = {}
                    for k in (KEYS if not opr.get("ord") else KEYS[::-1]):
                        u = opr["upd"][k]
                        if u == -1:
                            continue
                        if u == -2:
                            upd[k] = None
                            new_conc.pop(k.encode(), None)
                        else:
                            cv = conc_value(step, k, u)
                            upd[k] = cv
                            new_conc[k.encode()] = cv.encode() if isinstance(cv, str) else cv
                    import fastparquet.writer as W
                    W.open = rec.open_with           # shadow the builtin for this module only (no source change)
                    try:
                        W.update_file_custom_metadata(path, upd)
                    finally:
                        try:
                            del W.open
                        except AttributeError:
                            pass
                elif opr["kind"] == "refuse":
                    dfa = frame(pd, nrows, ROWS_PER_RG, kinds=kinds)
                    if opr["why"] == "columns":
                        variant = (hid + step) % 3
                        if variant == 0:
                            dfa["extra"] = 1
                        elif variant == 1:
                            dfa = dfa.drop(columns=["c2"])
                        else:
                            dfa = dfa.rename(columns={"c3": "c9"})
                        fp.write(path, dfa, append=True, open_with=rec.open_with)
                    else:
                        fp.write(path, dfa, append=True, file_scheme="hive", open_with=rec.open_with)
                else:
                    k = opr["k"]
                    bad = None
                    comp = None
                    rp = 400 if opr.get("big") else ROWS_PER_RG      # "big": more bytes than the footer they overwrite
                    badval = None
                    if opr["failg"] and opr.get("why", "encode") in ("encode", "null"):
                        bad = ((opr["failg"] - 1) * rp + 1, opr["failc"])
                        badval = (None,) if opr["why"] == "null" else None
                    elif opr["failg"]:
                        comp = {"c%d" % c: ("NOSUCHCODEC" if c == opr["failc"] else None) for c in range(1, NCOLS + 1)}
                    dfa = frame(pd, nrows, k * rp, bad, badval, kinds=kinds)
                    if (hid + step) % 2:
                        # the appended frame may list its columns in another order than the file (matched by name)
                        dfa = dfa[list(reversed(dfa.columns))]
                    offs = [j * rp for j in range(max(k, 1))]
                    fp.write(path, dfa, append=True, row_group_offsets=offs, open_with=rec.open_with, compression=comp)
            except BaseException as e:  # noqa
                raised = e
            out["evals"] += 1
            for ev in rec.events:
                if ev["ev"] != "close" and not getattr(rec, "_dummy", False):
                    pass
            st = read_state(fp, path, datapath)
            tv, tv0 = st["tail"], before["tail"]
            # ---------------- contract on the real file ----------------
            want_raise = obs["outcome"] == "raised"
            fdelta = None
            fw = [e for e in rec.events if e["ev"] == "write"]
            if len(fw) >= 3 and fw[-1]["kind"] == "magic" and fw[-2]["n"] == 4:
                fdelta = fw[-3]["n"] - tv0["declared"]
            sig = {"op": opr["kind"], "meta": bool(init["meta"])}
            if opr["kind"] == "kv":
                sig["footer_delta"] = fdelta
            elif opr["kind"] == "refuse":
                sig["why"] = opr["why"]
            else:
                sig.update(k=opr["k"], failc=opr["failc"], failg=opr["failg"], why=opr.get("why", "none"),
                           big=bool(opr.get("big")))
            if want_raise and raised is None:
                info["viol"].append(dict(sig, what="no exception for an operation that must be refused"))
            if not want_raise and raised is not None:
                info["viol"].append(dict(sig, what="unexpected exception", exc=type(raised).__name__))
                want_rows, want_kv = None, None
            if raised is None and not want_raise:
                if opr["kind"] == "app" and opr["k"] > 0:
                    exp_rows = exp_rows + expected_rows(nrows + opr["k"] * ROWS_PER_RG, kinds, widx)[nrows:]
                    nrows += opr["k"] * ROWS_PER_RG
                conc = new_conc
            if not tv["lenient"] or st["open_exc"]:
                info["viol"].append(dict(sig, what="unopenable after " + ("failed " if raised else "") + opr["kind"],
                                         reader=("both" if (not tv["lenient"] and st["open_exc"]) else
                                                 "independent" if not tv["lenient"] else "library")))
                info["detail"] = {"tail_why": tv["why"], "open_exc": st["open_exc"]}
                out["ops"].append(_strip(info))
                break
            if not tv["strict"]:
                info["warn"].append("stale bytes after footer: declared %s parsed %s" % (tv["declared"], tv["parsed"]))
            if st["rows"] != exp_rows:
                info["viol"].append(dict(sig, what="rows differ from the model after " + opr["kind"]))
                info["detail"] = {"rows": st["rows"][:8], "expected": exp_rows[:8]}
            if st["kv"] != conc:
                info["viol"].append(dict(sig, what="key-value metadata differ from the model after " + opr["kind"]))
                info["detail"] = {"kv": repr(st["kv"]), "expected": repr(conc)}
            elif st.get("kv_text") is False:
                info["viol"].append(dict(sig, what="a key or value that is valid text is exposed as bytes after " + opr["kind"]))
            de = tv0["footer_start"]
            if st["bytes"][:de] != before["bytes"][:de]:
                info["viol"].append(dict(sig, what="bytes of existing row groups changed by " + opr["kind"]))
            if opr["kind"] == "kv" or raised is not None:
                if tv["fmd"].get(2) != tv0["fmd"].get(2) or tv["fmd"].get(4) != tv0["fmd"].get(4):
                    info["viol"].append(dict(sig, what="schema or row-group metadata changed by " + opr["kind"]))
            # model agreement (drift only)
            absd = None if fdelta is None else fdelta
            info["fdelta"] = absd
            if raised is None and not want_raise and opr["kind"] == "kv" and prev_model_flen is not None:
                md = obs["flen"] - prev_model_flen
                rd = tv["size"] - tv0["size"]
                if md != rd:
                    info["drift"] = "model file-length delta %d, real %d" % (md, rd)
            prev_model_flen = obs["flen"]
            # ---------------- trace for TLC ----------------
            # (histories with a written row index have one more column chunk per row group than the trace specification's
            #  NCols: they are judged by the contract on the real file above, their call traces are not submitted)
            if tv0["strict"] and opr["kind"] != "refuse" and not widx:
                tr = abstract_trace(opr, rec.events, tv0, tv, init, before, raised, step)
                if tr is not None:
                    tr["hid"], tr["step"] = hid, step
                    tr["real_ok"] = not info["viol"]
                    out["traces"].append(tr)
            out["ops"].append(_strip(info))
    except BaseException:  # noqa
        out["error"] = traceback.format_exc()
    finally:
        shutil.rmtree(d, ignore_errors=True)
    return out


def _strip(info):
    return info


def abstract_trace(opr, events, tv0, tv, init, before, raised, step):
    """File-handle calls -> one event per mechanism action of SingleFile (only calls on rb+ handles)."""
    # abstract pre-state: current kv lengths by key
    kvabs = {}
    for k in KEYS:
        v = (before["kv"] or {}).get(k.encode())
        kvabs[k] = -1 if v is None else len(v)
    tinit = {"meta": bool(init["meta"]), "dataEnd": tv0["footer_start"], "n0": tv0["declared"], "kv": kvabs}
    evs = []
    # locate the read/write handle
    opens = [e for e in events if e["ev"] == "open" and "+" in e["mode"]]
    if not opens:
        if raised is not None:
            return None
        return {"init": tinit, "events": [{"ev": "no_rw_open"}]}
    start = events.index(opens[0])
    calls = events[start + 1:]
    if opr["kind"] == "kv":
        evs.append({"ev": "kv_begin", "upd": {k: opr["upd"][k] for k in KEYS}, "ord": opr.get("ord", 0)})
        seeks = [e for e in calls if e["ev"] == "seek"]
        reads = [e for e in calls if e["ev"] == "read"]
        writes = [e for e in calls if e["ev"] == "write"]
        truncs = [e for e in calls if e["ev"] == "truncate"]
        closes = [e for e in calls if e["ev"] == "close"]
        if init["meta"]:
            loc = seeks[0]["pos"] if seeks else -1
            evs.append({"ev": "kv_tail", "hsize": tv0["size"] - 12, "loc": loc})
        else:
            hs = reads[0]["u32"] if reads and reads[0]["u32"] is not None else -1
            loc = seeks[1]["pos"] if len(seeks) > 1 else -1
            evs.append({"ev": "kv_tail", "hsize": hs, "loc": loc})
        big = [r for r in reads if r["u32"] is None or r["n"] != 4]
        evs.append({"ev": "kv_parse", "n": big[0]["n"] if big else -1})
        if len(writes) >= 1:
            evs.append({"ev": "kv_footer", "at": writes[0]["at"], "n": writes[0]["n"]})
        if len(writes) >= 2:
            evs.append({"ev": "kv_len", "at": writes[1]["at"], "val": writes[1]["u32"] if writes[1]["u32"] is not None else -1})
        if len(writes) >= 3:
            evs.append({"ev": "kv_magic" if writes[2]["kind"] == "magic" else "kv_notmagic", "at": writes[2]["at"]})
        for w in writes[3:]:
            evs.append({"ev": "kv_extra_write", "at": w["at"], "n": w["n"]})
        for t in truncs:
            evs.append({"ev": "kv_trunc", "size": t["size"]})
        if closes:
            evs.append({"ev": "kv_close", "size": closes[-1]["size"]})
    else:
        evs.append({"ev": "app_begin", "k": opr["k"], "failg": opr["failg"], "failc": opr["failc"],
                    "why": opr.get("why", "none")})
        seeks = [e for e in calls if e["ev"] == "seek"]
        writes = [e for e in calls if e["ev"] == "write"]
        truncs = [e for e in calls if e["ev"] == "truncate"]
        closes = [e for e in calls if e["ev"] == "close"]
        if len(seeks) >= 2:
            evs.append({"ev": "app_tail", "pos": seeks[1]["pos"]})
        if raised is None:
            # chunk extents from the new footer (independent parse): row groups beyond the old count
            fmd, fmd0 = tv["fmd"], tv0["fmd"]
            newrgs = fmd[4][len(fmd0[4]):]
            tailw = writes[-3:] if len(writes) >= 3 else []
            body = writes[:-3] if len(writes) >= 3 else writes
            bi = 0
            for rg in newrgs:
                for cc in rg[1]:
                    md = cc[3]
                    cstart = md.get(11) if md.get(11) else md[9]
                    cend = cstart + md[7]
                    n = 0
                    at = None
                    while bi < len(body) and cstart <= body[bi]["at"] < cend:
                        at = body[bi]["at"] if at is None else at
                        n += body[bi]["n"]
                        bi += 1
                    evs.append({"ev": "app_chunk", "at": at if at is not None else -1, "n": n})
            for w in body[bi:]:
                evs.append({"ev": "app_stray_write", "at": w["at"], "n": w["n"]})
            if tailw:
                evs.append({"ev": "app_footer", "at": tailw[0]["at"], "n": tailw[0]["n"]})
                evs.append({"ev": "app_len", "at": tailw[1]["at"], "val": tailw[1]["u32"] if tailw[1]["u32"] is not None else -1})
                evs.append({"ev": "app_magic" if tailw[2]["kind"] == "magic" else "app_notmagic", "at": tailw[2]["at"]})
            for t in truncs:
                evs.append({"ev": "app_trunc", "size": t["size"]})
            if closes:
                evs.append({"ev": "app_close", "size": closes[-1]["size"]})
        else:
            # failed append: the model writes whole chunks before the failing one; group the writes evenly is
            # impossible without a footer, so the chunks before the failure are bound by count only
            nchunks = (opr["failg"] - 1) * NCOLS + (opr["failc"] - 1) if opr["failg"] else 0
            per = _split_writes(writes, nchunks)
            if per is None:
                return None
            for at, n in per:
                evs.append({"ev": "app_chunk", "at": at, "n": n})
            if closes:
                evs.append({"ev": "app_fail", "size": closes[-1]["size"]})
    return {"init": tinit, "events": evs}


def _split_writes(writes, nchunks):
    """Group the data writes of a failed append into `nchunks` contiguous chunks.  Every chunk written by
    write_column starts with its own header write; we only need contiguous groups with the right total, so
    the first nchunks-1 groups take one write each... that would misplace boundaries, so instead each chunk
    is located by the 'PAR1'-free structure: a chunk of a text column here is dictionary-free and consists of
    exactly two writes (page header, page body)."""
    if nchunks == 0:
        return [] if not writes else None
    if len(writes) != 2 * nchunks:
        return None
    out = []
    for i in range(nchunks):
        a, b = writes[2 * i], writes[2 * i + 1]
        if b["at"] != a["at"] + a["n"]:
            return None
        out.append((a["at"], a["n"] + b["n"]))
    return out


# ----------------------------------------------------------------------------------------------
# orchestration
# ----------------------------------------------------------------------------------------------

def run_replays(histories, work):
    base = os.path.join(work, "replay")
    os.makedirs(base, exist_ok=True)
    jobs = [(i, h, base) for i, h in enumerate(histories)]
    results = pmap(replay_history, jobs, job_timeout=60)
    shutil.rmtree(base, ignore_errors=True)
    return results


def validate_traces(traces, work, batch=4000):
    """Batch traces through TLC.  Returns dict index -> verdict dict."""
    verdicts = {}
    last = None
    for b0 in range(0, len(traces), batch):
        chunk = traces[b0:b0 + batch]
        tf = os.path.join(work, "traces-%d.json" % b0)
        with open(tf, "w") as f:
            json.dump([{"init": t["init"], "events": t["events"]} for t in chunk], f)
        res = T.run_tlc("SingleFileTrace", "SingleFileTrace.cfg", work, env={"TRACE_FILE": tf}, workers=1,
                        timeout=1800)
        if res.generated == 0:
            raise T.TLCError("trace validation did not run:\n" + res.out[-3000:])
        done, prog = {}, {}
        for m in re.finditer(r'<<\s*"DONE",\s*(\d+),((?:\s*(?:TRUE|FALSE)\s*,?)+)\s*>>', res.out):
            done[int(m.group(1))] = [x == "TRUE" for x in re.findall(r"TRUE|FALSE", m.group(2))]
        for m in re.finditer(r'<<\s*"PROG",\s*(\d+),\s*(\d+)\s*>>', res.out):
            prog[int(m.group(1)) - 1] = int(m.group(2))
        for i, t in enumerate(chunk):
            v = {"accepted": (i + 1) in done, "states": None}
            if v["accepted"]:
                o, r, s, intact, idle = done[i + 1]
                v.update(openable=o, rows_readable=r, strict=s, intact=intact, idle=idle)
            elif prog and i in prog:
                v["matched"] = prog[i] - 1
                v["next_event"] = t["events"][prog[i] - 1] if 0 < prog[i] <= len(t["events"]) else None
            verdicts[b0 + i] = v
        os.remove(tf)
        if last is not None:
            res.distinct += last.distinct
            res.generated += last.generated
        last = res
    return verdicts, last
