"""C05 - filtered reads never lose a qualifying row: row-group pruning is sound (spec/Filters.tla)."""
import json
import os

from ..common import Timer, scratch, HOME, use_repo
from ..evidence import Evidence
from ..findings import Verdicts
from ..parallel import Crashed
from .. import tlc as T
from . import filters as F

PID = "C05"
OTHER = "C13"


def run(tier, seed):
    t = Timer()
    ev = Evidence(PID, tier, seed, "model_checking")
    ev.assumptions = ["statistics written by the library are exact (C04) - the row groups are written by the real writer, "
                      "so inexact statistics would show up here as pruning violations",
                      "NULL under != / not in may be kept or dropped", "values 0..3, constants -1..4 mapped order-"
                      "preservingly into int (nullable), float, text and timestamp columns"]
    with scratch() as work:
        rc = _run(ev, work, tier == "thorough", PID)
    ev.write(t.s())
    return rc


def _run(ev, work, thorough, pid):
    mine = pid
    inv = ["PruneSound"] if pid == "C05" else ["RowFilterExact"]
    # ---- 1. design level ----
    for rgs, progs in (("RGsSingle3" if thorough else "RGsSingle2", "ProgsSingle"), ("RGsPair2" if thorough else "RGsPairQ", "ProgsPair"),
                       ("RGsPairCols", "ProgsPair")):
        res = F.model_check(work, rgs, progs, F.VARIANT_REPAIRED, inv, "ok-" + progs)
        if not res.ok:
            print(res.out[-3000:])
            raise T.TLCError("Filters (repaired variant) violates %s" % res.violated)
        ev.add_tlc("Filters %s x %s, repaired variant: %s holds" % (rgs, progs, inv[0]), res)
    res = F.model_check(work, "RGsSingle2", "ProgsSingle", F.VARIANT_ASFOUND, inv, "mut1") if pid == "C05" else \
        F.model_check(work, "RGsPairQ", "ProgsPair", F.VARIANT_ASFOUND, inv, "mut1")
    if res.violated != inv[0]:
        raise T.TLCError("the as-found variant must violate %s" % inv[0])
    ev.add_tlc("Filters, as-found variant (before the fixes): %s violated as it must be" % inv[0], res)
    verd = Verdicts(pid, os.path.join(HOME, "replays"))
    # ---- 2. the pruner's decision function, point by point (mechanism conformance: drift only) ----
    fp = use_repo()
    if pid == "C05":
        fv, res = F.filter_val_cases(work)
        ev.add_tlc("FiltersExport: (op, constants, min, max) lattice of filter_val", res, cases=len(fv))
        bad = 0
        for c in fv:
            val = list(c["c"]) if c["op"] in ("in", "not in") else (c["c"][0] if c["c"] else None)
            if val is None and c["op"] not in ("in", "not in"):
                continue
            if c["op"] not in ("in", "not in") and len(c["c"]) != 1:
                continue
            vmin = None if c["vmin"] == -8 else c["vmin"]
            vmax = None if c["vmax"] == -8 else c["vmax"]
            try:
                got = bool(fp.api.filter_val(c["op"], val, vmin, vmax))
            except Exception:
                got = None
            ev.evaluations += 1
            if got and not c["sound"]:
                # contract on the real decision function: it excludes a range that holds a qualifying value
                verd.add({"what": "filter_val excludes a value range that holds a qualifying value", "ops": [c["op"]],
                          "bound_state": ("min only" if vmax is None else "max only" if vmin is None else "both")
                          if (vmin is not None or vmax is not None) else "none",
                          "explained_by_not_in_bound_rule": bool(c["outb"]) and c["op"] == "not in"},
                         {"op": c["op"], "constants": c["c"], "vmin": vmin, "vmax": vmax}, cost=len(c["c"]))
            if got is not None and got != bool(c["out"]):
                bad += 1
                if len(ev.drift) < 10:
                    ev.drift.append({"what": "filter_val differs from its transcription", "case": c, "real": got})
        ev.extra["filter_val_points"] = len(fv)
        ev.extra["filter_val_disagreements"] = bad
    # ---- 3. end to end ----
    total_cases = 0
    for rgs, progs, classes, zero, masked in (("RGsSingle2", "ProgsSingle", ["int", "int~f"], False, True),
                                              ("RGsSingle2", "ProgsSingle", ["float", "ts"], False, False),
                                              ("RGsSingle2", "ProgsSingle", ["str"], True, True),
                                              ("RGsPair2" if thorough else "RGsPairQ", "ProgsPair", ["int"], False, True),
                                              ("RGsPairCols", "ProgsPair", ["int"], False, True),
                                              ("RGsParts", "ProgsPartOnly", ["int|phalf", "int|pstr", "int|pobj", "int|pnumstr", "int|pnumobj"], False, True)):
        pool, cases, res = F.export(work, rgs, progs, dict(F.VARIANT_CURRENT, ZeroIsEmpty=zero, MaskedNulls=masked),
                                    progs + str(zero) + str(masked))
        ev.add_tlc("FiltersExport %s x %s: contract verdicts and mechanism predictions" % (rgs, progs), res,
                   programs=len(cases), pool=len(pool))
        total_cases += len(cases)
        jobs, results = F.run_filters(work, pool, cases, classes)
        for j, r in zip(jobs, results):
            if isinstance(r, Crashed):
                verd.add({"what": "interpreter crashed or hung in a filtered read", "class": j[4]}, {"dataset": j[1]["path"]})
                continue
            if "error" in r:
                raise RuntimeError("filter machinery failed:\n" + r["error"])
            ev.evaluations += r["evals"]
            ev.extra["typeerror_refusals"] = ev.extra.get("typeerror_refusals", 0) + r["refused"]
            for d in r["drift"]:
                if len(ev.drift) < 30:
                    ev.drift.append(d)
            for (p, sig, ci) in r["viol"]:
                if p != mine:
                    continue
                case = j[3][ci] if isinstance(ci, int) and ci < len(j[3]) else None
                verd.add(sig, {"program": case["prog"] if case else None, "class": j[4],
                               "dataset": {"stats": j[1]["stats"], "partitioned": j[1]["part"]},
                               "real_filters": repr(F.real_filters(case["prog"], j[4])) if case else None,
                               "pool": [pool[i] for i in j[1]["idx"]][:12]},
                         cost=sig.get("atoms", 1))
            for ci, case in enumerate(j[3]):
                ev.nontrivial.add((progs, json.dumps(case["prog"], sort_keys=True), j[4], j[1]["stats"], j[1]["part"]))
        for c in cases[:1]:
            ev.sample({"program": c["prog"], "pool_size": len(pool)})
    if pid == "C13":
        from ..parallel import pmap
        mdir = os.path.join(work, "masks")
        os.makedirs(mdir)
        mr = pmap(F.mask_job, [(0, mdir)], job_timeout=600)[0]
        if isinstance(mr, Crashed) or "error" in mr:
            raise RuntimeError("mask machinery failed: %r" % (mr if isinstance(mr, Crashed) else mr["error"]))
        ev.evaluations += mr["evals"]
        ev.extra["row_masks"] = mr["evals"]
        for (p, sig, m) in mr["viol"]:
            verd.add(sig, {"mask_bits": m})
    if ev.drift:
        print("DRIFT: %d mechanism disagreements recorded (see evidence)" % len(ev.drift))
    ev.extra["programs"] = total_cases
    ev.rule = ("programs = every single atom (9 operators x scalar constants -1..4 / sets of size <= 2 incl. the empty set, on "
               "a value column and on the partition column) and pairs as flat list, AND group and OR groups; each is "
               "evaluated against every row group of the pool (all 1..2(3)-row contents over {0..3, NULL}, statistics "
               "on/off, partition value none/0/1) through the real reader; distinct non-trivial = distinct (program, "
               "column class, statistics, partitioning) combinations executed")
    ev.exhaustive = True
    n = verd.report(ev)
    return 1 if n else 0


def replay(path):
    doc = json.load(open(path))
    print(json.dumps(doc["replay"], indent=1)[:3000])
    return 1
