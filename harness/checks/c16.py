"""C16 - user key-value metadata verbatim; in-place updates touch nothing else (spec/SingleFile.tla)."""
import json
import os

from ..common import Timer, scratch, HOME
from ..evidence import Evidence
from ..findings import Verdicts
from .. import tlc as T
from . import singlefile as SF

PID = "C16"


def run(tier, seed):
    t = Timer()
    ev = Evidence(PID, tier, seed, "model_checking")
    ev.assumptions = [
        "footer bytes are modelled symbolically (equal content = equal bytes); coincidences between stale and new "
        "real bytes are judged on the real file, not by the model",
        "independent tail parser harness/minithrift.py and the library's own reader both have to open the file",
        "local files only"]
    thorough = tier == "thorough"
    with scratch() as work:
        rc = _run(ev, work, thorough, seed)
    ev.write(t.s())
    return rc


def _run(ev, work, thorough, seed):
    # ---- 1. design level: TLC on the mechanism, both variants -------------------------------------
    vals = (0, 1, 4, 8, 9) if thorough else (0, 1, 4, 8)
    cfg = SF.model_cfg(os.path.join(work, "kv_fixed.cfg"), vals=vals, maxops=3 if not thorough else 3, kv=True,
                       app=False, fail=False, meta=True, trunc_kv=True, trunc_app=False, restore=False,
                       invariants=SF.CONTRACT_INV + ["NoStaleTail"], properties=SF.CONTRACT_PROP,
                       keys=("a", "b") if not thorough else ("a", "b"))
    res = T.run_tlc("SingleFile", cfg, work, coverage=True, timeout=3000)
    if not res.ok:
        print(res.out[-3000:])
        raise T.TLCError("SingleFile (truncating variant) does not satisfy the contract: %s" % res.violated)
    ev.add_tlc("SingleFile kv, TruncateAfterKv=TRUE: contract invariants hold", res)
    for act in ("DoKvBegin", "KvTail", "KvParse", "DoKvWriteFooter", "KvWriteLen", "KvWriteMagic", "KvTruncate", "KvClose"):
        if not res.covered(act):
            raise T.TLCError("vacuity: action %s never taken" % act)
    cfg = SF.model_cfg(os.path.join(work, "kv_mut.cfg"), vals=(0, 1, 4, 8), maxops=2, kv=True, app=False, fail=False,
                       meta=True, trunc_kv=False, trunc_app=False, restore=False, invariants=["Openable"])
    res = T.run_tlc("SingleFile", cfg, work, timeout=1200)
    if res.violated != "Openable":
        raise T.TLCError("model mutant (no truncation) should violate Openable; the invariant is vacuous")
    ev.add_tlc("SingleFile kv, TruncateAfterKv=FALSE (model mutant): Openable violated as it must be", res)
    # ---- 2. spec -> code: replay the history tree -------------------------------------------------
    hists, res = SF.export_histories(work, vals=(0, 1, 8) if thorough else (1, 8), maxops=2, kv=True,
                                     app=False, fail=False, meta=True)
    ev.add_tlc("SingleFileExport: two-key kv histories of length 2", res, histories=len(hists))
    h1, res1 = SF.export_histories(work, vals=tuple(range(0, 13 if thorough else 10)), maxops=2, kv=True, app=False,
                                   fail=False, meta=True, keys=("a",))
    _pad(h1)
    ev.add_tlc("SingleFileExport: single-key kv histories of length 2, every value length", res1, histories=len(h1))
    hists = hists + h1
    extra = []
    if thorough:
        h3, res3 = SF.export_histories(work, vals=(0, 1, 3, 8), maxops=3, kv=True, app=False, fail=False, meta=False,
                                       keys=("a",))
        _pad(h3)
        ev.add_tlc("SingleFileExport: single-key kv histories of length 3", res3, histories=len(h3))
        extra = h3
    hists = hists + extra
    results = SF.run_replays(hists, work)
    verd = Verdicts(PID, os.path.join(HOME, "replays"))
    traces = []
    tmeta = []
    for hid, r in enumerate(results):
        if isinstance(r, SF.Crashed):
            verd.add({"op": "kv", "what": "interpreter crashed or hung while replaying a history",
                      "timeout": r.timed_out}, {"history": hists[hid], "status": r.status}, cost=len(hists[hid]))
            continue
        if "error" in r:
            raise RuntimeError("replay machinery failed:\n" + r["error"])
        ev.evaluations += r["evals"]
        for o in r["ops"]:
            if o.get("op"):
                fd = o.get("fdelta")
                if fd:
                    ev.nontrivial.add((json.dumps(o["op"], sort_keys=True), fd))
            for v in o["viol"]:
                verd.add(v, {"history": hists[r["hid"]], "failing_step": o["step"], "detail": o.get("detail"),
                             "how": "./check C16 --replay <this file>"}, cost=len(hists[r["hid"]]))
            if o.get("drift"):
                ev.drift.append({"history": r["hid"], "step": o["step"], "what": o["drift"]})
            for w in o.get("warn", []):
                ev.extra["stale_tail_warnings"] = ev.extra.get("stale_tail_warnings", 0) + 1
        for tr in r["traces"]:
            traces.append(tr)
    from ..common import use_repo
    nv, badv = verbatim(use_repo(), work)
    ev.evaluations += nv
    ev.extra["verbatim_write_read_cases"] = nv
    for b in badv:
        verd.add(b, {"case": repr(verbatim_cases()[b["case"]])[:300]})
    # ---- 3. code -> spec: validate the recorded call traces ----------------------------------------
    verdicts, tres = SF.validate_traces(traces, work)
    if tres is not None:
        ev.add_tlc("SingleFileTrace: recorded file-handle call traces", tres)
    rejected = 0
    for i, tr in enumerate(traces):
        v = verdicts[i]
        if v["accepted"]:
            ev.traces += 1
            bad = [k for k in ("openable", "rows_readable", "intact") if not v[k]]
            if bad and tr["real_ok"]:
                # contract predicate false on the state reconstructed from the real calls, real file looked fine
                verd.add({"op": "kv", "what": "trace violates " + ",".join(bad), "via": "trace"},
                         {"trace": tr}, cost=len(tr["events"]))
        else:
            rejected += 1
            ev.drift.append({"trace": {"hid": tr["hid"], "step": tr["step"]}, "matched": v.get("matched"),
                             "next_event": v.get("next_event"), "real_ok": tr["real_ok"]})
    ev.extra["traces_rejected_as_drift"] = rejected
    # ---- binding self-test: a tampered copy of an accepted trace must NOT be a behaviour of the specification ----
    acc = [traces[i] for i in range(len(traces)) if verdicts[i]["accepted"] and len(traces[i]["events"]) >= 6][:40]
    tampered = []
    for k, tr in enumerate(acc):
        evs = [dict(e) for e in tr["events"]]
        widx = [i for i, e in enumerate(evs) if e.get("ev") == "write"]
        if not widx:
            continue
        if k % 3 == 0:
            del evs[widx[0]]                                  # a write that the code made is missing from the log
        elif k % 3 == 1 and "n" in evs[widx[0]]:
            evs[widx[0]]["n"] = evs[widx[0]]["n"] + 1         # one recorded byte count is off by one
        else:
            evs[widx[0]], evs[widx[-1]] = evs[widx[-1]], evs[widx[0]]     # first and last write swapped
            if evs == tr["events"]:
                del evs[widx[0]]
        tampered.append(dict(tr, events=evs))
    if tampered:
        tv, tr2 = SF.validate_traces(tampered, work)
        nacc = sum(1 for i in range(len(tampered)) if tv[i]["accepted"])
        ev.add_tlc("SingleFileTrace binding self-test: %d tampered traces (dropped write / byte count +1 / writes swapped), "
                   "%d accepted" % (len(tampered), nacc), tr2)
        ev.extra["tampered_traces"] = {"submitted": len(tampered), "accepted": nacc}
        if nacc > len(tampered) // 4:
            raise T.TLCError("the trace specification accepts %d of %d tampered traces: it does not bind the code" % (nacc, len(tampered)))
    if rejected:
        print("DRIFT: %d of %d recorded traces are not behaviours of the mechanism model (contract judged on the real file)"
              % (rejected, len(traces)))
    ev.rule = ("histories = every sequence of key-value updates TLC enumerates from SingleFileExport (each key untouched/"
               "removed/set to a value of each abstract length, data file and _metadata file); non-trivial = distinct "
               "(update, real footer size delta != 0) pairs actually executed")
    ev.exhaustive = True
    for h in hists[:3]:
        ev.sample(h)
    ev.extra["histories_replayed"] = len(hists)
    deltas = sorted({o.get("fdelta") for r in results if isinstance(r, dict) for o in r["ops"] if o.get("fdelta") is not None})
    ev.extra["real_footer_deltas_seen"] = deltas
    n = verd.report(ev)
    return 1 if n else 0


def _pad(hs):
    # single-key histories are exported over Keys={"a"}; key b is absent / untouched for the replayer
    for h in hs:
        for r in h:
            if "kv" in r and r["kind"] == "init":
                r["kv"].setdefault("b", -1)
            if r.get("kind") == "kv":
                r["upd"].setdefault("b", -1)
            if r.get("kind") == "end":
                r["obs"]["kv"].setdefault("b", -1)


def verbatim_cases():
    big = "v" * 70000
    return [
        {"k": "v"}, {"": ""}, {"unicode-\u00e9\u4e2d": "\u00e9\u4e2d\U0001F600"}, {b"bk": b"bv"},
        {"a": "", "b": " ", "c": "\n"}, {"big": big}, {"k%d" % i: "v%d" % i for i in range(20)},
        {"json": '{"x": [1, 2, {"y": null}]}'}, {"k": "x" * 127}, {"k": "x" * 128}, {"k" * 128: "v"},
    ]


def verbatim(fp, work):
    """write-time key-value metadata returned verbatim, single file and hive (data file, _metadata, _common_metadata)"""
    import pandas as pd
    bad = []
    n = 0
    for i, kv in enumerate(verbatim_cases()):
        for scheme in ("simple", "hive"):
            p = os.path.join(work, "vb-%d-%s" % (i, scheme))
            df = pd.DataFrame({"x": [1, 2, 3]})
            try:
                fp.write(p, df, file_scheme=scheme, custom_metadata=dict(kv))
                targets = [p] if scheme == "simple" else [p, os.path.join(p, "_metadata"), os.path.join(p, "part.0.parquet")]
                for tpath in targets:
                    n += 1
                    got = SF.user_kv(fp.ParquetFile(tpath).key_value_metadata)
                    want = SF.user_kv(kv)
                    if got != want:
                        bad.append({"what": "write-time key-value metadata not returned verbatim", "op": "write",
                                    "scheme": scheme, "case": i, "target": os.path.basename(tpath)})
                    data = open(tpath if os.path.isfile(tpath) else os.path.join(tpath, "_metadata"), "rb").read()
                    tv = SF.tail_view(data)
                    if not tv["strict"] or SF.user_kv(tv["kv"]) != want:
                        bad.append({"what": "independent parser does not find the written key-value metadata",
                                    "op": "write", "scheme": scheme, "case": i, "target": os.path.basename(tpath)})
            except Exception as e:   # noqa
                bad.append({"what": "write with custom_metadata raised", "op": "write", "scheme": scheme, "case": i,
                            "exc": type(e).__name__})
    return n, bad


def replay(path):
    doc = json.load(open(path))
    h = doc["replay"]["history"]
    with scratch() as work:
        r = SF.replay_history((0, h, work))
    print(json.dumps(r["ops"], indent=1, default=str))
    return 1 if any(o["viol"] for o in r["ops"]) else 0
