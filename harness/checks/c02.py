"""C02 - see harness/checks/colwriter.py (spec/ColumnWriter.tla); shares the replay with C01."""
from . import c01

PID = "C02"


def run(tier, seed):
    return c01.run(tier, seed, PID)


def replay(path):
    return c01.replay(path, PID)
