"""C18 - rejected operations raise and leave an existing dataset exactly as it was.
   spec/SingleFile.tla (AppFail / AppRefuse), spec/Dataset.tla (an exception inside a part-file write = Fault at that
   write step), plus the catalogue of refusals of the statement executed against every dataset state."""
import json
import os
import shutil
import traceback

from ..common import Timer, scratch, HOME, use_repo
from ..evidence import Evidence
from ..findings import Verdicts
from ..parallel import pmap, Crashed
from .. import tlc as T
from ..observe.iorec import Recorder
from . import singlefile as SF
from . import dataset as D

PID = "C18"


# ------------------------------------------------------------------------------------------------------
# hive: a value that cannot be encoded, placed in the row group TLC's Fault hits
# ------------------------------------------------------------------------------------------------------

def hive_reject_job(args):
    jid, hist, base = args
    fp = use_repo()
    D.WIDX = False
    import pandas as pd
    d = os.path.join(base, "r%d" % jid, "ds")
    shutil.rmtree(os.path.dirname(d), ignore_errors=True)      # a re-run of this job starts clean
    os.makedirs(os.path.dirname(d))
    out = {"jid": jid, "viol": [], "evals": 0, "skipped": None}
    try:
        part = bool(hist[0]["part"])
        ops = [(hist[i], hist[i + 1]) for i in range(0, len(hist), 2)]
        for opr, end in ops[:-1]:
            D.do_op(fp, pd, d, opr, Recorder(root=d), part)
        opr, end = ops[-1]
        prev = ops[-2][1]["obs"]
        # which planned call does the fault hit?
        k = opr["fault"]
        countable = [s for s in opr["steps"] if s["c"] in ("mkdirroot", "mkdir", "openw", "write", "close")]
        st = countable[k - 1]
        if not (st["c"] == "write" and st["p"]["k"] >= 0):
            out["skipped"] = "fault not inside a part-file write"
            return out
        badg = st["g"]
        groups = opr["newgroups"]
        cm, nch = D.chunk_map(opr, part)
        df, offs = D.build_frame(pd, groups, cm, part, nch)
        # the offending cell: the text column of the first row of group badg becomes an un-encodable object
        col = df["s"].astype(object)
        idx = [i for i in range(len(df)) if int(df["x"].iloc[i]) // 100 == badg][0]
        col.iloc[idx] = {}
        df["s"] = col
        raised = None
        try:
            fp.write(d, df, file_scheme="hive", row_group_offsets=offs, partition_on=["p"] if part else [],
                     append=True, write_index=False)
        except BaseException as e:  # noqa
            raised = e
        out["evals"] = 1
        sig = {"op": "append", "scheme": "hive", "partitioned": part, "why": "encode",
               "position": "first" if badg == min(g["g"] for g in groups) else "later"}
        if raised is None:
            out["viol"].append(dict(sig, what="no exception for a value that cannot be encoded"))
        viol, _ = D.evaluate(fp, d, prev["model"], prev["ordered"], False, part)
        for v in viol:
            out["viol"].append(dict(sig, what="rejected append left the dataset changed: " + v))
    except BaseException:  # noqa
        out["error"] = traceback.format_exc()
    finally:
        shutil.rmtree(os.path.dirname(d), ignore_errors=True)
    return out


# ------------------------------------------------------------------------------------------------------
# catalogue of refusals x existing dataset state
# ------------------------------------------------------------------------------------------------------

def states():
    return [("simple", 1, False), ("simple", 2, False), ("hive", 1, False), ("hive", 2, False), ("hive", 2, True)]


def base_frame(pd, n0, n):
    return pd.DataFrame({"p": pd.Series([1 + (i % 2) for i in range(n0, n0 + n)], dtype="int64"),
                         "a": pd.Series([1000 + i for i in range(n0, n0 + n)], dtype="int64"),
                         "b": pd.Series(["t%04d" % i for i in range(n0, n0 + n)], dtype="str"),
                         "c": pd.Series([0.5 + i for i in range(n0, n0 + n)], dtype="float64")})


def catalogue():
    """(name, needs_existing, callable(fp, pd, path, scheme, part) performing the operation that must be refused)"""
    import numpy as np

    def app(fp, pd, path, scheme, part, df, **kw):
        kw.setdefault("file_scheme", scheme)
        if scheme == "hive":
            kw.setdefault("partition_on", ["p"] if part else [])
        fp.write(path, df, append=True, write_index=False, **kw)

    def mk(mod):
        def f(fp, pd, path, scheme, part):
            df = base_frame(pd, 100, 4)
            return mod(fp, pd, path, scheme, part, df)
        return f
    C = []
    C.append(("append: extra column", mk(lambda fp, pd, p, s, pt, df: app(fp, pd, p, s, pt, df.assign(z=1)))))
    C.append(("append: missing column", mk(lambda fp, pd, p, s, pt, df: app(fp, pd, p, s, pt, df.drop(columns=["b"])))))
    C.append(("append: renamed column", mk(lambda fp, pd, p, s, pt, df: app(fp, pd, p, s, pt, df.rename(columns={"c": "cc"})))))
    C.append(("append: other file scheme", mk(lambda fp, pd, p, s, pt, df: app(
        fp, pd, p, s, pt, df, file_scheme=("hive" if s == "simple" else "simple")))))
    C.append(("append: other partitioning", mk(lambda fp, pd, p, s, pt, df: app(
        fp, pd, p, s, pt, df, partition_on=([] if pt else ["p"])) if s == "hive" else (_ for _ in ()).throw(ValueError("n/a")))))
    for pos, colname in (("first", "a"), ("middle", "b"), ("last", "c")):
        def badval(fp, pd, p, s, pt, df, colname=colname):
            col = df[colname].astype(object)
            col.iloc[len(df) - 1] = {"not": "encodable"}
            df[colname] = col
            app(fp, pd, p, s, pt, df, row_group_offsets=[0, 2])
        C.append(("append: value not encodable as declared, %s column, later row group" % pos, mk(badval)))

        def badval0(fp, pd, p, s, pt, df, colname=colname):
            col = df[colname].astype(object)
            col.iloc[0] = {"not": "encodable"}
            df[colname] = col
            app(fp, pd, p, s, pt, df, row_group_offsets=[0, 2])
        C.append(("append: value not encodable as declared, %s column, first row group" % pos, mk(badval0)))

        def badcodec(fp, pd, p, s, pt, df, colname=colname):
            app(fp, pd, p, s, pt, df, compression={c: ("NOSUCHCODEC" if c == colname else None) for c in df.columns})
        C.append(("append: unknown codec for the %s column" % pos, mk(badcodec)))
    C.append(("append: unknown codec", mk(lambda fp, pd, p, s, pt, df: app(fp, pd, p, s, pt, df, compression="NOSUCHCODEC"))))
    C.append(("append: unsupported column type", mk(lambda fp, pd, p, s, pt, df: app(
        fp, pd, p, s, pt, df.assign(c=np.array([1j] * len(df))))))) 
    C.append(("read: unknown column in selection", lambda fp, pd, p, s, pt: fp.ParquetFile(p).to_pandas(columns=["nope"])))
    C.append(("read: unknown column in filter", lambda fp, pd, p, s, pt: fp.ParquetFile(p).to_pandas(
        filters=[("nope", "==", 1)], row_filter=True)))
    return C


def fresh_catalogue(scheme=None):
    import numpy as np

    def w(fp, pd, path, df, **kw):
        if scheme:
            kw.setdefault("file_scheme", scheme)      # replace an existing dataset by one of the same layout
        fp.write(path, df, **kw)
    F = [("write: unsupported column type (complex)", lambda fp, pd, p: w(fp, pd, p, pd.DataFrame({"x": np.array([1j, 2j])}))),
         ("write: non-text column name", lambda fp, pd, p: w(fp, pd, p, pd.DataFrame({1: [1, 2]}))),
         ("write: duplicate column names", lambda fp, pd, p: w(fp, pd, p, pd.DataFrame([[1, 2]], columns=["a", "a"]))),
         ("write: missing value in a column declared non-nullable",
          lambda fp, pd, p: w(fp, pd, p, pd.DataFrame({"x": pd.Series(["a", None], dtype=object)}), has_nulls=False)),
         ("write: value not encodable as declared", lambda fp, pd, p: w(
             fp, pd, p, pd.DataFrame({"x": pd.Series(["a", "b"], dtype=object)}), object_encoding="int")),
         ("write: unknown codec", lambda fp, pd, p: w(fp, pd, p, pd.DataFrame({"x": [1, 2]}), compression="NOSUCHCODEC")),
         ("write: unknown file scheme", lambda fp, pd, p: w(fp, pd, p, pd.DataFrame({"x": [1, 2]}), file_scheme="nope")),
         ("write: all columns used for partitioning", lambda fp, pd, p: w(
             fp, pd, p, pd.DataFrame({"x": [1, 2]}), file_scheme="hive", partition_on=["x"]))]
    return F


def catalogue_job(args):
    jid, si, ci, base = args
    fp = use_repo()
    import pandas as pd
    root = os.path.join(base, "k%d" % jid)
    shutil.rmtree(root, ignore_errors=True)      # a re-run of this job (after a time-out) starts clean
    os.makedirs(root)
    out = {"jid": jid, "viol": [], "evals": 1, "na": False}
    try:
        scheme, nrg, part = states()[si]
        name, fn = catalogue()[ci]
        path = os.path.join(root, "ds" if scheme == "hive" else "f.parquet")
        df0 = base_frame(pd, 0, 2 * nrg)
        fp.write(path, df0, file_scheme=scheme, row_group_offsets=[2 * j for j in range(nrg)],
                 partition_on=(["p"] if part else []), write_index=False)
        before = _content(fp, path)
        raised = None
        try:
            fn(fp, pd, path, scheme, part)
        except ValueError as e:
            if str(e) == "n/a":
                out["na"] = True
                return out
            raised = e
        except BaseException as e:  # noqa
            raised = e
        sig = {"rejection": name, "scheme": scheme, "row_groups": nrg, "partitioned": part}
        if raised is None:
            out["viol"].append(dict(sig, what="operation was not refused (no exception)"))
        try:
            after = _content(fp, path)
            if after != before:
                out["viol"].append(dict(sig, what="content changed by a refused operation"))
        except BaseException as e:  # noqa
            out["viol"].append(dict(sig, what="dataset unreadable after a refused operation", exc=type(e).__name__))
    except BaseException:  # noqa
        out["error"] = traceback.format_exc()
    finally:
        shutil.rmtree(root, ignore_errors=True)
    return out


def fresh_job(args):
    jid, ci, base = args[:3]
    over = args[3] if len(args) > 3 else None        # None: nothing at the target; "simple" | "hive": a dataset exists there
    fp = use_repo()
    import pandas as pd
    root = os.path.join(base, "w%d" % jid)
    shutil.rmtree(root, ignore_errors=True)      # a re-run of this job (after a time-out) starts clean
    os.makedirs(root)
    out = {"jid": jid, "viol": [], "evals": 1}
    try:
        name, fn = fresh_catalogue(over)[ci]
        target = os.path.join(root, "out")
        before = None
        if over:
            fp.write(target, base_frame(pd, 0, 4), file_scheme=over, row_group_offsets=[0, 2], write_index=False)
            before = _content(fp, target)
        raised = None
        try:
            fn(fp, pd, target)
        except BaseException as e:  # noqa
            raised = e
        sig = {"rejection": name, "op": "write (append=False)" + (" over an existing %s dataset" % ("single-file" if over == "simple" else "multi-file") if over else "")}
        if raised is None:
            out["viol"].append(dict(sig, what="operation was not refused (no exception)"))
        elif over:
            try:
                if _content(fp, target) != before:
                    out["viol"].append(dict(sig, what="content changed by a refused operation"))
            except BaseException as e:  # noqa
                out["viol"].append(dict(sig, what="dataset unreadable after a refused operation", exc=type(e).__name__))
    except BaseException:  # noqa
        out["error"] = traceback.format_exc()
    finally:
        shutil.rmtree(root, ignore_errors=True)
    return out


def _content(fp, path):
    pf = fp.ParquetFile(path)
    df = pf.to_pandas()
    cols = sorted(df.columns)
    rows = sorted(tuple(str(df[c].iloc[i]) for c in cols) for i in range(len(df)))
    return cols, rows, pf.count(), len(pf.row_groups)


# ------------------------------------------------------------------------------------------------------

def run(tier, seed):
    t = Timer()
    ev = Evidence(PID, tier, seed, "model_checking")
    ev.assumptions = ["orphan part files left by a refused multi-file operation are allowed (content is what is compared)",
                      "a mid-write rejection in a part file is modelled as the Fault action at that write step"]
    thorough = tier == "thorough"
    with scratch() as work:
        rc = _run(ev, work, thorough)
    ev.write(t.s())
    return rc


def _run(ev, work, thorough):
    verd = Verdicts(PID, os.path.join(HOME, "replays"))
    # ---- 1. design level: single file ----
    for restore, rtrunc, label in ((True, True, "ok"), (False, True, "mut"), (True, False, "mut2")):
        cfg = SF.model_cfg(os.path.join(work, "fail-%s.cfg" % label), vals=(1,), maxops=2, kv=False, app=True, fail=True,
                           meta=False, trunc_kv=False, trunc_app=False, restore=restore, keys=("a",), ncols=3,
                           chunk_sizes=(1, 30), restore_truncates=rtrunc,
                           invariants=SF.CONTRACT_INV, properties=SF.CONTRACT_PROP)
        res = T.run_tlc("SingleFile", cfg, work, coverage=restore and rtrunc, timeout=3000)
        if restore and not rtrunc:
            if res.violated != "Openable":
                raise T.TLCError("model mutant (restore without truncate) must violate Openable, got %s" % res.violated)
            ev.add_tlc("SingleFile, RestoreTruncates=FALSE (model mutant): Openable violated by a big failed append", res)
        elif restore:
            if not res.ok:
                print(res.out[-3000:])
                raise T.TLCError("SingleFile with RestoreOnFailure violates %s" % res.violated)
            for a in ("AppFail", "AppRefuse"):
                if not res.covered(a):
                    raise T.TLCError("vacuity: %s never taken" % a)
            ev.add_tlc("SingleFile, failing appends, RestoreOnFailure=TRUE: Openable/RowsReadable/FailureKeepsVersion hold", res)
        else:
            if res.violated != "Openable":
                raise T.TLCError("model mutant (no restore) must violate Openable, got %s" % res.violated)
            ev.add_tlc("SingleFile, failing appends, RestoreOnFailure=FALSE (as found before the fix): Openable violated", res)
    # ---- 2. single-file replay ----
    hists, res = SF.export_histories(work, vals=(1,), maxops=2, kv=False, app=True, fail=True, meta=False, keys=("a",))
    C16 = __import__("harness.checks.c16", fromlist=["_pad"])
    C16._pad(hists)
    hists = [h for h in hists if any(r.get("kind") == "refuse" or r.get("failg") for r in h)]
    ev.add_tlc("SingleFileExport: histories containing a refused or failing append", res, histories=len(hists))
    # files whose columns are declared non-nullable: an append with a missing value in column c of row group g is refused
    nh, nres = SF.export_histories(work, vals=(1,), maxops=2, kv=False, app=True, fail=True, meta=False, keys=("a",),
                                   fail_kinds=("null",))
    C16._pad(nh)
    nh = [h for h in nh if any(r.get("why") == "null" for r in h)]
    for i, h in enumerate(nh):
        h[0]["required"] = True
        # the kind of the three text columns rotates over the histories: every failing column is met as a categorical
        # one (the writer's own missing-value test) and as plain text (refused by the encoder)
        fc = [r["failc"] for r in h if r.get("why") == "null"][0]
        h[0]["kinds"] = [("cat" if (c == fc) == (i % 3 != 2) else "str") for c in (1, 2, 3)]
    ev.add_tlc("SingleFileExport, FailKinds = {null}: appends with a missing value in a non-nullable column", nres, histories=len(nh))
    hists = hists + nh
    results = SF.run_replays(hists, work)
    straces = []
    for hid, r in enumerate(results):
        if isinstance(r, Crashed):
            verd.add({"op": "app", "scheme": "simple", "what": "interpreter crashed or hung"}, {"history": hists[hid]})
            continue
        if "error" in r:
            raise RuntimeError("replay machinery failed:\n" + r["error"])
        ev.evaluations += r["evals"]
        for o in r["ops"]:
            opr = o.get("op") or {}
            if opr.get("kind") == "refuse" or opr.get("failg"):
                ev.nontrivial.add(("simple", json.dumps(opr, sort_keys=True), hid))
            for v in o["viol"]:
                verd.add(dict(v, scheme="simple"), {"history": hists[hid], "failing_step": o["step"],
                                                    "detail": o.get("detail")}, cost=len(hists[hid]))
        straces.extend(r["traces"])
    sv, sres = SF.validate_traces(straces, work)
    if sres is not None:
        ev.add_tlc("SingleFileTrace: call traces incl. failing appends", sres)
    rej = 0
    for i, tr in enumerate(straces):
        v = sv[i]
        if v["accepted"]:
            ev.traces += 1
            bad = [k for k in ("openable", "rows_readable", "intact") if not v[k]]
            if bad and tr["real_ok"]:
                verd.add({"op": "app", "scheme": "simple", "what": "trace violates " + ",".join(bad), "via": "trace"},
                         {"trace": tr})
        else:
            rej += 1
            ev.drift.append({"trace": {"hid": tr["hid"], "step": tr["step"]}, "matched": v.get("matched"),
                             "next_event": v.get("next_event")})
    # ---- 3. hive: TLC's Fault at a part-file write = an un-encodable value in that row group ----
    dh, res = D.export_histories(work, frames="FramesSmall" if thorough else "FramesTiny", maxops=3, ops="OpsAppend",
                                 fault=True)
    dh = [h for h in dh if h[-2]["kind"] == "append" and h[-2]["fault"] > 0
          and all(h[i].get("fault", 0) == 0 for i in range(0, len(h) - 2, 2))]
    ev.add_tlc("DatasetExport with Fault: histories whose last append fails", res, histories=len(dh))
    # ... and the same after a removal: the dataset the refused append meets has a hole in its part numbers
    dh2, res2 = D.export_histories(work, frames="FramesTiny", maxops=3, ops="OpsAppendRemove", fault=True)
    dh2 = [h for h in dh2 if h[-2]["kind"] == "append" and h[-2]["fault"] > 0
           and all(h[i].get("fault", 0) == 0 for i in range(0, len(h) - 2, 2))
           and any(h[i]["kind"] == "remove" for i in range(0, len(h) - 2, 2))]
    ev.add_tlc("DatasetExport with Fault, Ops = {append, remove}: a failing append after a removal", res2, histories=len(dh2))
    dh = dh + dh2
    base = os.path.join(work, "hive")
    os.makedirs(base)
    hr = pmap(hive_reject_job, [(i, h, base) for i, h in enumerate(dh)], job_timeout=120)
    skipped = 0
    for jid, r in enumerate(hr):
        if isinstance(r, Crashed):
            verd.add({"op": "append", "scheme": "hive", "what": "interpreter crashed or hung"}, {"history": dh[jid]})
            continue
        if "error" in r:
            raise RuntimeError("hive rejection machinery failed:\n" + r["error"])
        if r["skipped"]:
            skipped += 1
            continue
        ev.evaluations += r["evals"]
        ev.nontrivial.add(("hive", jid))
        for v in r["viol"]:
            verd.add(v, {"history": dh[jid]}, cost=len(dh[jid]))
    # ---- 4. catalogue ----
    cbase = os.path.join(work, "cat")
    os.makedirs(cbase)
    jobs = [(n, si, ci, cbase) for n, (si, ci) in
            enumerate((si, ci) for si in range(len(states())) for ci in range(len(catalogue())))]
    cr = pmap(catalogue_job, jobs, job_timeout=120)
    ncat = 0
    for j, r in zip(jobs, cr):
        if isinstance(r, Crashed):
            verd.add({"rejection": catalogue()[j[2]][0], "what": "interpreter crashed or hung"}, {"state": states()[j[1]]})
            continue
        if "error" in r:
            raise RuntimeError("catalogue machinery failed:\n" + r["error"])
        if r["na"]:
            continue
        ncat += 1
        ev.evaluations += 1
        ev.nontrivial.add(("cat", j[1], j[2]))
        for v in r["viol"]:
            verd.add(v, {"state": states()[j[1]], "rejection": catalogue()[j[2]][0]})
    fbase = os.path.join(work, "fresh")
    os.makedirs(fbase)
    fjobs = [(len(fresh_catalogue()) * k + n, n, fbase, over) for k, over in enumerate((None, "simple", "hive"))
             for n in range(len(fresh_catalogue()))]
    fr = pmap(fresh_job, fjobs, job_timeout=120)
    for fj, r in zip(fjobs, fr):
        n = fj[1]
        if isinstance(r, Crashed):
            verd.add({"rejection": fresh_catalogue()[n][0], "what": "interpreter crashed or hung"}, {})
            continue
        if "error" in r:
            raise RuntimeError("catalogue machinery failed:\n" + r["error"])
        ev.evaluations += 1
        for v in r["viol"]:
            verd.add(v, {"rejection": fresh_catalogue()[n][0], "existing_dataset": fj[3]})
    ev.extra.update(single_file_histories=len(hists), hive_fault_histories=len(dh), hive_skipped_not_a_part_write=skipped,
                    catalogue_cases=ncat, fresh_write_refusals=len(fr), traces_rejected_as_drift=rej)
    if rej:
        print("DRIFT: %d recorded traces are not behaviours of the mechanism model" % rej)
    ev.rule = ("SingleFileExport histories with AppFail at every (row group, column) position x {encode, codec} and AppRefuse "
               "x {columns, scheme}; DatasetExport histories whose Fault hits a part-file write (replayed as an un-encodable "
               "value in that row group); catalogue of refusals x {simple 1|2 rgs, hive 1|2 rgs, hive partitioned}; "
               "non-trivial = distinct refused operations executed against an existing dataset")
    ev.exhaustive = True
    ev.sample(hists[0])
    ev.sample({"state": states()[4], "rejection": catalogue()[5][0]})
    # ---- traces of the repository's own test-suite against the per-call contract clauses (harness/checks/suite.py) ----
    if thorough:
        from . import suite as SUITE
        SUITE.stage(ev, verd, work, 'C18', True)
    n = verd.report(ev)
    return 1 if n else 0


def replay(path):
    doc = json.load(open(path))
    rp = doc["replay"]
    with scratch() as work:
        if "history" in rp and rp["history"][0].get("kind") == "init":
            r = SF.replay_history((0, rp["history"], work))
            print(json.dumps(r["ops"], indent=1, default=str))
            return 1 if any(o["viol"] for o in r["ops"]) else 0
        if "history" in rp:
            os.makedirs(os.path.join(work, "hive"))
            r = hive_reject_job((0, rp["history"], os.path.join(work, "hive")))
            print(json.dumps(r, indent=1, default=str))
            return 1 if r.get("viol") else 0
        names = [c[0] for c in catalogue()]
        if rp.get("rejection") in names and "state" in rp:
            os.makedirs(os.path.join(work, "cat"))
            r = catalogue_job((0, states().index(tuple(rp["state"])), names.index(rp["rejection"]), os.path.join(work, "cat")))
            print(json.dumps(r, indent=1, default=str))
            return 1 if r.get("viol") else 0
    return 2
