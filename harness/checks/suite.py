"""Traces of the repository's own test-suite, judged against the contract clauses of Dataset.tla / SingleFile.tla that
speak about one call and its before/after states (observation: harness/observe/suiteplugin.py, no change to /repo).

  C07  a successful append: rows after = rows before + rows appended (partitioned: rows with a missing key are not
       stored), every data file that existed before is byte-identical (AppendKeepsFiles / DataIntact), no existing
       data file is opened for writing, renamed or removed (NeverOpensReferenced)
  C19  the summary file is opened for writing only after every new part file of the call is closed (PartsBeforeSummary)
  C18  an append that raised: a fresh open finds the previous rows
  C09  a successful write / overwrite leaves something a fresh open can read, with the rows it was given (write)"""
import json
import os
import subprocess

from ..common import REPO, HOME

QUICK_FILES = ["fastparquet/test/test_output.py", "fastparquet/test/test_overwrite.py", "fastparquet/test/test_api.py"]


def run_suite(work, files=None, timeout=1500):
    log = os.path.join(work, "suite-%d.log" % (len(files) if files else 0))
    if os.path.exists(log):
        os.remove(log)
    env = dict(os.environ, VERIF_SUITE_LOG=log, PYTHONPATH=HOME + os.pathsep + REPO, PYTHONHASHSEED="0")
    cmd = ["/venv/bin/python", "-m", "pytest", "-q", "-p", "no:cacheprovider", "-p", "harness.observe.suiteplugin",
           "--timeout=600"] + (files or [])
    p = subprocess.run(cmd, cwd=REPO, env=env, stdout=subprocess.PIPE, stderr=subprocess.STDOUT, text=True, timeout=timeout)
    recs = []
    if os.path.exists(log):
        with open(log) as f:
            for line in f:
                try:
                    recs.append(json.loads(line))
                except ValueError:
                    pass
    return recs, p.stdout[-600:]


SUMMARY = ("_metadata", "_common_metadata")


def judge(rec):
    """-> list of (property id, signature dict)"""
    out = []
    kind, pre, post = rec["kind"], rec["pre"], rec["post"]
    base = {"source": "repository test-suite", "op": kind, "scheme": rec["scheme"], "partitioned": rec["partitioned"]}
    ok = rec["raised"] is None
    if kind == "write" and ok:
        if post.get("exc"):
            out.append(("C09", dict(base, what="a fresh open of what a successful write left raises", exc=post["exc"])))
        elif rec["rows_in"] is not None and post.get("rows") is not None and (
                post["rows"] != rec["rows_in"] if not rec["partitioned"] else post["rows"] > rec["rows_in"]):
            out.append(("C09", dict(base, what="rows found after a successful write differ from the rows written")))
    if kind == "append" and pre.get("exists") and pre.get("exc") is None and pre.get("rows") is not None:
        if ok:
            if post.get("exc"):
                out.append(("C07", dict(base, what="dataset unreadable after a successful append", exc=post["exc"])))
            elif rec["rows_in"] is not None and (post["rows"] != pre["rows"] + rec["rows_in"] if not rec["partitioned"]
                                                 else not (pre["rows"] <= post["rows"] <= pre["rows"] + rec["rows_in"])):
                out.append(("C07", dict(base, what="rows after the append are not the previous rows plus the appended rows")))
            if rec["scheme"] == "simple":
                if post.get("old_body_intact") is False:
                    out.append(("C07", dict(base, what="bytes of the existing row groups changed by an append")))
            else:
                for name, meta in pre["files"].items():
                    if os.path.basename(name) in SUMMARY:
                        continue
                    if post["files"].get(name, {}).get("sha1") != meta["sha1"]:
                        out.append(("C07", dict(base, what="append changed, replaced or removed an existing data file")))
                        break
                old = {n for n in pre["files"] if os.path.basename(n) not in SUMMARY}
                for e in rec["events"]:
                    if e["ev"] == "open" and any(c in e.get("mode", "") for c in "wa+x") and e.get("path") in old:
                        out.append(("C07", dict(base, what="append opened an existing data file for writing")))
                        break
                    if e["ev"] == "rename" and (e.get("src") in old or e.get("dst") in old):
                        out.append(("C07", dict(base, what="append renamed an existing data file")))
                        break
                    if e["ev"] == "remove" and any(p in old for p in e.get("paths", [])):
                        out.append(("C07", dict(base, what="append removed an existing data file")))
                        break
                # PartsBeforeSummary
                open_parts = set()
                for e in rec["events"]:
                    pth = e.get("path")
                    if e["ev"] == "open" and any(c in e.get("mode", "") for c in "wa+x"):
                        if os.path.basename(pth or "") in SUMMARY:
                            if open_parts:
                                out.append(("C19", dict(base, what="summary file opened for writing while a new part file is "
                                                                   "still open")))
                                break
                        else:
                            open_parts.add(pth)
                    elif e["ev"] == "close" and pth in open_parts:
                        open_parts.discard(pth)
                seen_summary = False
                for e in rec["events"]:
                    pth = e.get("path")
                    if e["ev"] == "open" and any(c in e.get("mode", "") for c in "wa+x"):
                        if os.path.basename(pth or "") in SUMMARY:
                            seen_summary = True
                        elif seen_summary:
                            out.append(("C19", dict(base, what="a part file is written after the summary rewrite began")))
                            break
        else:
            if post.get("exc"):
                out.append(("C18", dict(base, what="dataset unreadable after an append that raised", exc=post["exc"])))
            elif post.get("rows") != pre["rows"]:
                out.append(("C18", dict(base, what="rows changed by an append that raised")))
    if kind == "overwrite" and ok and post.get("exc"):
        out.append(("C09", dict(base, what="dataset unreadable after a successful overwrite", exc=post["exc"])))
    return out


def stage(ev, verd, work, pid, thorough):
    """run the (selected) test files under observation and add this property's verdicts; returns number of records"""
    recs, tail = run_suite(work, None if thorough else QUICK_FILES)
    if not recs:
        raise RuntimeError("the observed test-suite run produced no record:\n" + tail)
    mine = 0
    kinds = {}
    for r in recs:
        kinds[r["kind"]] = kinds.get(r["kind"], 0) + 1
        for p, sig in judge(r):
            if p == pid:
                verd.add(sig, {"test": r["test"], "record": {k: r[k] for k in r if k != "events"}, "events": r["events"][:60]})
        mine += 1
    ev.evaluations += mine
    ev.traces += sum(1 for r in recs if r["kind"] != "write")
    ev.extra["suite_records"] = kinds
    ev.extra["suite_scope"] = "whole test-suite" if thorough else ", ".join(os.path.basename(f) for f in QUICK_FILES)
    return len(recs)
