"""C11 - primitive codecs agree with the specification on their bounded domain (spec/Codec.tla).

1. TLC checks the refill/extract cursor machine of read_bitpacked / delta_read_bitpacked against the contract
   (EmittedPrefix, OutWithinCapacity, InWithinInput, ExactCount, Terminates): it holds up to width 24 (32-bit
   accumulator) and 28 (64-bit accumulator with refill-before-drop) and is violated beyond - the thresholds
   at which the real decoders go wrong.
2. The FORMAT layer of Codec.tla computes test vectors bit by bit (bit-packed runs, RLE runs, hybrid streams, varints
   of every length, boolean packing, delta-binary-packed blocks); they are replayed into the real functions of
   fastparquet.cencoding / encoding / speedups: values, number of values produced, both cursors, a guard zone behind
   the output; the real encoders' output is decoded back by the independent implementation (pqspec).
3. pqspec's own codecs are checked against the same vectors (shrinks the trusted base).
"""
import json
import os

from ..common import Timer, scratch, HOME, use_repo
from ..evidence import Evidence
from ..findings import Verdicts
from ..parallel import pmap, Crashed
from .. import tlc as T

PID = "C11"
GUARD = 0xAB


def bits_to_int(b):
    v = 0
    for i, x in enumerate(b):
        v |= (x & 1) << i
    return v


def export_vectors(work, thorough):
    cfg = os.path.join(work, "cv.cfg")
    T.write_cfg(cfg, spec="Spec", constants={"AccBits": 32, "CtrMax": 255, "FirstByteEager": True, "Widths": {1},
                                             "Pats": {"zeros"}, "Groups": {1}}, check_deadlock=False)
    res = T.run_tlc("CodecVectors", cfg, work, workers=1, timeout=3000,
                    env={"CODEC_VECTORS": "thorough" if thorough else "quick"})
    vs = res.printed_json()
    if not vs:
        raise T.TLCError("no vectors exported:\n" + res.out[-2000:])
    return vs, res


def machine_check(ev, work, acc, ctr, eager, widths, expect_violation, label):
    cfg = os.path.join(work, "cm-%s.cfg" % label)
    T.write_cfg(cfg, spec="Spec", constants={"AccBits": acc, "CtrMax": ctr, "FirstByteEager": eager,
                                             "Widths": "<- " + widths, "Pats": "<- PatsAll", "Groups": "<- G12"},
                invariants=["EmittedPrefix", "OutWithinCapacity", "InWithinInput", "ExactCount"],
                properties=["Terminates"], check_deadlock=False)
    res = T.run_tlc("CodecMC", cfg, work, timeout=1800, coverage=not expect_violation)
    if expect_violation:
        if not res.violated:
            raise T.TLCError("cursor machine %s must violate the contract" % label)
        ev.add_tlc("Codec cursor machine %s: %s violated (the threshold the real decoder has)" % (label, res.violated), res)
    else:
        if not res.ok:
            print(res.out[-2000:])
            raise T.TLCError("cursor machine %s violates %s" % (label, res.violated))
        for a in ("Refill", "Emit", "Drop", "Stop"):
            if not res.covered(a):
                raise T.TLCError("vacuity: %s never taken (%s)" % (a, label))
        ev.add_tlc("Codec cursor machine %s: contract holds" % label, res)


def io_pair(np, CE, data, cap_items, itemsize):
    """input NumpyIO over `data`, output NumpyIO over exactly cap_items*itemsize bytes followed by a guard zone"""
    buf = np.full(cap_items * itemsize + 64, GUARD, dtype="uint8")
    out = CE.NumpyIO(buf[:cap_items * itemsize])
    inp = CE.NumpyIO(np.frombuffer(bytes(data) + b"\x00" * 16, dtype="uint8"))    # slack: decoders read whole bytes ahead
    return inp, out, buf


def replay_vectors(args):
    jid, vectors = args
    use_repo()
    import numpy as np
    from fastparquet import cencoding as CE
    from fastparquet import encoding as EN
    from ..pqspec import encodings as PE
    out = {"jid": jid, "viol": [], "evals": 0, "pq": []}

    def bad(v, what, **kw):
        sig = {"kind": v["kind"], "what": what}
        if "w" in v:
            sig["w"] = v["w"]
        sig.update(kw)
        out["viol"].append((sig, {k: v[k] for k in v if k not in ("values", "deltas")}))

    for v in vectors:
        kind = v["kind"]
        data = bytes(v["bytes"])
        try:
            if kind in ("bitpack", "rle", "hybrid"):
                w = v["w"]
                want = [bits_to_int(b) for b in v["values"]]
                n = len(want)
                # independent implementation against the TLA+ vector
                try:
                    got_pq, used = PE.hybrid_decode(data, w, n)
                    if list(got_pq) != want:
                        out["pq"].append({"kind": kind, "w": w, "what": "pqspec decodes the vector differently"})
                except Exception as e:  # noqa
                    out["pq"].append({"kind": kind, "w": w, "what": "pqspec raised %r" % (e,)})
                for itemsize in ((4, 1) if w <= 8 else (4,)):
                    for cap in sorted({n, max(n - 1, 0), n + 1}):
                        out["evals"] += 1
                        inp, o, buf = io_pair(np, CE, data, cap, itemsize)
                        CE.read_rle_bit_packed_hybrid(inp, w, len(data), o, itemsize)
                        produced = o.tell() // itemsize
                        arr = buf[:cap * itemsize].view("uint32" if itemsize == 4 else "uint8")[:produced]
                        exp_n = min(n, cap)
                        if (buf[cap * itemsize:] != GUARD).any():
                            bad(v, "decoder wrote behind the output it was given", itemsize=itemsize)
                        elif produced != exp_n and not (kind != "rle" and produced == min(cap, ((n + 7) // 8) * 8)):
                            bad(v, "decoder produced a wrong number of values", itemsize=itemsize)
                        elif [int(x) for x in arr[:exp_n]] != [x & (0xFFFFFFFF if itemsize == 4 else 0xFF) for x in want[:exp_n]]:
                            bad(v, "decoded values differ", itemsize=itemsize)
                        elif cap >= n and inp.tell() != len(data) and not (kind == "hybrid" and 0 in v.get("runs", [])):
                            bad(v, "input cursor is not at the end of the stream", itemsize=itemsize)
                # the real encoder, decoded by the independent implementation
                if kind == "bitpack" and w <= 31 and n:
                    vals = np.array(want, dtype="int32")
                    ob = np.zeros(len(vals) * 4 + 64, dtype="uint8")
                    oo = CE.NumpyIO(ob)
                    CE.encode_bitpacked(vals, w, oo)
                    enc = bytes(ob[:oo.tell()])
                    out["evals"] += 1
                    try:
                        dec, _ = PE.hybrid_decode(enc, w, n, lenient=True)   # the encoder does not pad its last group of 8
                        if list(dec) != want:
                            bad(v, "encoder output does not decode back to its input")
                    except Exception as e:  # noqa
                        bad(v, "encoder output cannot be decoded", exc=type(e).__name__)
                if kind in ("rle", "hybrid") and w <= 31 and n:
                    vals = np.array(want, dtype="int32")
                    ob = np.zeros(len(vals) * 5 + 64, dtype="uint8")
                    oo = CE.NumpyIO(ob)
                    CE.encode_rle_bp(vals, w, oo)
                    enc = bytes(ob[:oo.tell()])
                    out["evals"] += 1
                    try:
                        dec, _ = PE.hybrid_decode(enc, w, n, lenient=True)   # the encoder does not pad its last group of 8
                        if list(dec) != want:
                            bad(v, "encoder output does not decode back to its input", encoder="encode_rle_bp")
                    except Exception as e:  # noqa
                        bad(v, "encoder output cannot be decoded", exc=type(e).__name__, encoder="encode_rle_bp")
            elif kind == "varint":
                want = bits_to_int(v["bits"])
                out["evals"] += 2
                inp = CE.NumpyIO(np.frombuffer(data + b"\x00" * 8, dtype="uint8"))
                got = CE.read_unsigned_var_int(inp)
                if int(got) != want or inp.tell() != len(data):
                    bad(v, "varint decoded wrongly or cursor wrong", len=v["len"])
                ob = np.zeros(16, dtype="uint8")
                oo = CE.NumpyIO(ob)
                CE.encode_unsigned_varint(want, oo)
                if bytes(ob[:oo.tell()]) != data:
                    bad(v, "varint encoded differently from the specification", len=v["len"])
                if PE.varint_decode(data, 0)[0] != want if hasattr(PE, "varint_decode") else False:
                    out["pq"].append({"kind": kind, "what": "pqspec varint differs"})
            elif kind == "dictpage":
                import pandas as pd
                import fastparquet.writer as WR
                from fastparquet import parquet_thrift as PT
                codes = [bits_to_int(b) for b in v["values"]]
                ncat = {8: 100, 16: 300, 32: 40000}[v["w"]]
                ser = pd.Series(pd.Categorical.from_codes(codes, categories=pd.RangeIndex(ncat)))
                out["evals"] += 1
                if ser.cat.codes.dtype.itemsize * 8 != v["w"]:
                    out["pq"].append({"kind": kind, "what": "harness: code width %d expected %d" % (ser.cat.codes.dtype.itemsize * 8, v["w"])})
                else:
                    try:
                        got = bytes(WR.encode_dict(ser.cat.codes, PT.SchemaElement(type=PT.Type.INT64)))
                        h = 1
                        while data[h] & 0x80:
                            h += 1
                        h += 1                      # width byte + run header varint
                        # the writer does not pad the last group of 8 values (tolerated, a W-VALUES warning of the
                        # independent reader): header exact, body a prefix of the specification's
                        if got[:h] != data[:h] or got[h:] != data[h:len(got)] or len(got) - h != v["n"] * v["w"] // 8:
                            bad(v, "dictionary index page written differently from the specification (header %s, expected %s)"
                                % (got[:h].hex(), data[:h].hex()), n=v["n"])
                    except Exception as e:  # noqa
                        bad(v, "writing the dictionary indices raised", exc=type(e).__name__, n=v["n"])
            elif kind == "levelblock":
                n = bits_to_int(v["countbits"])
                out["evals"] += 2
                import fastparquet.core as CORE
                import fastparquet.writer as WR
                inp = CE.NumpyIO(np.frombuffer(data + b"\xee" * 8, dtype="uint8"))
                CORE.skip_definition_bytes(inp, n)
                if inp.tell() != len(data):
                    bad(v, "skip over a null-free level block stops at byte %d of %d" % (inp.tell(), len(data)), len=v["len"])

                class Counted:            # make_definitions(no_nulls=True) only takes the length of its data
                    def __len__(self):
                        return n
                try:
                    block, _ = WR.make_definitions(Counted(), True)
                    if bytes(block) != data:
                        bad(v, "level block of a null-free page written differently from the specification", len=v["len"])
                except Exception as e:  # noqa
                    bad(v, "writing the level block of a null-free page raised", exc=type(e).__name__, len=v["len"])
            elif kind == "bool":
                want = list(v["bits"])
                n = len(want)
                out["evals"] += 1
                for cap in sorted({n, max(n - 1, 0), n + 1}):
                    inp, o, buf = io_pair(np, CE, data, cap, 1)
                    CE.read_bitpacked1(inp, n, o)
                    produced = o.tell()
                    if (buf[cap:] != GUARD).any():
                        bad(v, "decoder wrote behind the output it was given")
                    elif produced != min(n, cap) or [int(x) for x in buf[:produced]] != want[:produced]:
                        bad(v, "boolean bits decoded wrongly")
                if n:
                    got = EN.read_plain(np.frombuffer(data + b"\x00" * 8, dtype="uint8"), 0, n)     # Type.BOOLEAN = 0
                    if [int(bool(x)) for x in got[:n]] != want:
                        bad(v, "read_plain(BOOLEAN) decoded wrongly")
            elif kind == "delta":
                w = v["w"]
                md, first, n = v["min_delta"], v["first"], v["n"]
                deltas = [bits_to_int(b) for b in v["deltas"]]
                for bits, longval in ((64, 1), (32, 0)):
                    if bits == 32 and w > 32:
                        continue
                    mod = 1 << bits
                    vals = [first % mod]
                    for dlt in deltas:
                        vals.append((vals[-1] + md + dlt) % mod)
                    want = [x - mod if x >= mod // 2 else x for x in vals]
                    out["evals"] += 1
                    arr = np.full(n + 8, -7777, dtype="int64" if longval else "int32")
                    oo = CE.NumpyIO(arr[:n].view("uint8"))
                    inp = CE.NumpyIO(np.frombuffer(data + b"\x00" * 16, dtype="uint8"))
                    CE.delta_binary_unpack(inp, oo, longval)
                    if (arr[n:] != -7777).any():
                        bad(v, "decoder wrote behind the output it was given", bits=bits)
                    elif [int(x) for x in arr[:n]] != want:
                        bad(v, "decoded values differ", bits=bits)
                    try:
                        dq, _ = PE.delta_decode(data, bits=bits)
                        if list(dq) != want:
                            out["pq"].append({"kind": kind, "w": w, "what": "pqspec decodes the delta vector differently"})
                    except Exception as e:  # noqa
                        out["pq"].append({"kind": kind, "w": w, "what": "pqspec raised %r" % (e,)})
        except BaseException as e:  # noqa
            bad(v, "codec raised", exc=type(e).__name__)
    return out


def byte_array_job(args):
    """length-prefixed byte arrays: speedups.pack_byte_array / unpack_byte_array and array_encode_utf8"""
    use_repo()
    import numpy as np
    from fastparquet import speedups as SP
    from ..pqspec import encodings as PE
    out = {"viol": [], "evals": 0}
    cases = [[], [b""], [b"a"], [b"", b"", b""], [b"abc", b"", b"\x00\xff", "é中".encode()], [b"x" * 300, b"y" * 70000],
             [bytes([i]) * i for i in range(0, 40)]]
    for items in cases:
        out["evals"] += 1
        try:
            packed = bytes(SP.pack_byte_array(list(items)))
            want = PE.plain_encode("BYTE_ARRAY", list(items))
            if packed != want:
                out["viol"].append(({"kind": "byte_array", "what": "pack_byte_array differs from PLAIN BYTE_ARRAY"}, {"n": len(items)}))
            un = SP.unpack_byte_array(np.frombuffer(packed, dtype="uint8"), len(items))
            if [bytes(x) for x in un] != list(items):
                out["viol"].append(({"kind": "byte_array", "what": "unpack_byte_array does not invert pack_byte_array"}, {"n": len(items)}))
        except BaseException as e:  # noqa
            out["viol"].append(({"kind": "byte_array", "what": "byte-array codec raised", "exc": type(e).__name__}, {"n": len(items)}))
    return out


def run(tier, seed, pid=PID, sanitized=False):
    t = Timer()
    ev = Evidence(pid, tier, seed, "model_checking")
    ev.assumptions = ["values are bit sequences (LSB first) in the specification; the harness turns them into Python integers",
                      "delta-binary-packed expected values are prefix sums computed by the harness modulo 2^64 / 2^32",
                      "a guard zone behind every output buffer stands in for a memory checker (C12 uses the sanitizer build)"]
    thorough = tier == "thorough"
    with scratch() as work:
        rc = _run(ev, work, thorough, pid)
    ev.write(t.s())
    return rc


def _run(ev, work, thorough, pid):
    machine_check(ev, work, 32, 255, True, "W1to24", False, "read_bitpacked acc=32 widths 1..24")
    machine_check(ev, work, 32, 255, True, "W25to32", True, "read_bitpacked acc=32 widths 25..32")
    machine_check(ev, work, 64, 255, True, "W1to32", False, "read_bitpacked acc=64 (repaired) widths 1..32")
    machine_check(ev, work, 64, 127, False, "W1to28", False, "delta_read_bitpacked acc=64 widths 1..28")
    machine_check(ev, work, 64, 127, False, "W29to64", True, "delta_read_bitpacked acc=64 widths 29..64")
    vectors, res = export_vectors(work, thorough)
    ev.add_tlc("CodecVectors: test vectors computed by the FORMAT layer", res, vectors=len(vectors))
    chunks = [vectors[i::64] for i in range(64)]
    results = pmap(replay_vectors, [(i, c) for i, c in enumerate(chunks) if c], job_timeout=600)
    verd = Verdicts(pid, os.path.join(HOME, "replays"))
    pq_bad = []
    # a crashed chunk is bisected to single vectors
    retry = []
    for (i, c), r in zip([(i, c) for i, c in enumerate(chunks) if c], results):
        if isinstance(r, Crashed):
            retry.extend(c)
            continue
        _collect(ev, verd, r, pq_bad)
    if retry:
        single = pmap(replay_vectors, [(i, [v]) for i, v in enumerate(retry)], job_timeout=120)
        for v, r in zip(retry, single):
            if isinstance(r, Crashed):
                sig = {"kind": v["kind"], "what": "interpreter crashed or hung in a codec", "signal": r.status}
                if "w" in v:
                    sig["w"] = v["w"]
                verd.add(sig, {k: v[k] for k in v if k not in ("values", "deltas")})
            else:
                _collect(ev, verd, r, pq_bad)
    ba = pmap(byte_array_job, [0], job_timeout=300)[0]
    if isinstance(ba, Crashed):
        verd.add({"kind": "byte_array", "what": "interpreter crashed or hung in a codec"}, {})
    else:
        ev.evaluations += ba["evals"]
        for sig, rp in ba["viol"]:
            verd.add(sig, rp)
    ev.extra.update(vectors=len(vectors), pqspec_disagreements_with_the_specification=pq_bad[:10],
                    kinds={k: sum(1 for v in vectors if v["kind"] == k) for k in sorted({v["kind"] for v in vectors})})
    if pq_bad:
        print("DRIFT: the independent implementation pqspec disagrees with Codec.tla on %d vectors" % len(pq_bad))
        ev.drift.extend(pq_bad[:20])
    for v in vectors:
        ev.nontrivial.add((v["kind"], v.get("w"), v.get("pat"), v.get("n"), v.get("len"), json.dumps(v.get("runs"))))
    ev.rule = ("vectors = every point of the lattice the FORMAT layer of Codec.tla is evaluated on (kind x width x pattern "
               "x count; varint lengths 1..10; delta widths x miniblocks used x first x min delta); each is decoded by the "
               "real function with capacities count-1, count, count+1 and item sizes 1 and 4 where applicable")
    ev.exhaustive = True
    ev.sample({k: vectors[0][k] for k in vectors[0] if k != "values"})
    n = verd.report(ev)
    return 1 if n else 0


def _collect(ev, verd, r, pq_bad):
    ev.evaluations += r["evals"]
    pq_bad.extend(r["pq"])
    for sig, rp in r["viol"]:
        verd.add(sig, rp, cost=rp.get("n", 0) if isinstance(rp.get("n"), int) else 0)


def replay(path):
    doc = json.load(open(path))
    print(json.dumps(doc, indent=1)[:2000])
    return 1
