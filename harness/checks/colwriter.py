"""Binding of spec/ColumnWriter.tla to the real writer and reader (shared by C01, C02, C04).

For every case TLC enumerates (class x rows x null pattern x value pattern x nullability mode x page budget x page
version x row-group split x statistics mode) the frame is concretised, written with fastparquet.write under the
page budget / page version the case asks for, and then
  C01: read back with the library and compared cell by cell (+ dtype, names, row count);
  C02: parsed by the independent reader pqspec: structural problems, layout against the spec's pages/row groups,
       values (NULL vs in-band sentinel per nullability mode);
  C04: the raw Statistics structs and ParquetFile.statistics against the spec's min / max / null count."""
import os
import shutil
import traceback

from ..common import use_repo
from ..parallel import pmap, Crashed
from .. import tlc as T
from .. import concretise as CZ
from ..pqspec import reader as PR

# structural deviations of the writer that are recorded as known findings of C02 (matched by signature there)
KNOWN_THRIFT = "list element wire type 0"


def export_cases(work, consts, tag):
    cfg = os.path.join(work, "cw-%s.cfg" % tag)
    T.write_cfg(cfg, spec="Spec", constants={k: "<- " + v for k, v in consts.items()}, invariants=["Export"],
                check_deadlock=False)
    res = T.run_tlc("ColumnWriterMC", cfg, work, timeout=3000)
    if not res.completed:
        raise T.TLCError("ColumnWriter export failed:\n" + res.out[-3000:])
    return res.printed_json(), res


def model_check(work, consts, tag):
    cfg = os.path.join(work, "cwmc-%s.cfg" % tag)
    T.write_cfg(cfg, spec="Spec", constants={k: "<- " + v for k, v in consts.items()},
                invariants=["RowGroupsTileFrame", "PagesTileChunk", "NullCountsExact", "StatsExact", "RejectOrPreserve"],
                check_deadlock=False)
    return T.run_tlc("ColumnWriterMC", cfg, work, timeout=3000, coverage=True)


QUICK = dict(Classes="ClassesCore", RowCounts="RowsQuick", NullPats="PatsQuick", ValPats="ValsQuick", Modes="ModesAll",
             RppWants="RppQuick", Versions="V12", RgOffsets="RgoQuick", StatsModes="StatsQuick", Codecs="CodecNone", WriteOpts="OptDefault")
BIG = dict(Classes="ClassesBig", RowCounts="RowsBig", NullPats="PatsBig", ValPats="ValsBig", Modes="ModesBig",
           RppWants="RppBig", Versions="V12", RgOffsets="Rgo0", StatsModes="StatsLists", Codecs="CodecNone", WriteOpts="OptDefault")
TYPES = dict(Classes="ClassesAll", RowCounts="RowsTypes", NullPats="PatsTypes", ValPats="ValsBig", Modes="ModesBig",
             RppWants="RppTypes", Versions="V12", RgOffsets="Rgo0", StatsModes="StatsTrue", Codecs="CodecsAll", WriteOpts="OptsAll")
HUGE = dict(BIG, RowCounts="RowsHuge", RppWants="RppHuge", StatsModes="StatsTrue")
THOROUGH = dict(Classes="ClassesAll", RowCounts="RowsThorough", NullPats="PatsAll", ValPats="ValsQuick", Modes="ModesAll",
                RppWants="RppQuick", Versions="V12", RgOffsets="RgoThorough", StatsModes="StatsAll", Codecs="CodecsSome", WriteOpts="OptDefault")


def case_sig(case):
    n = case["n"]
    npages = max([len(g["pages"]) for g in case["rgs"]] + [0])
    return {"class": case["cls"], "mode": case["mode"], "v": case["v"], "nullpat": case["nullpat"],
            "pages": "multi" if npages > 1 else "one", "rgs": "multi" if len(case["rgs"]) > 1 else "one",
            "rows": "0" if n == 0 else "some", "opt": case.get("opt", "default")}


def replay_chunk(args):
    jid, cases, base = args
    fp = use_repo()
    import pandas as pd
    import numpy as np
    import fastparquet.writer as W
    out = {"jid": jid, "viol": [], "drift": [], "evals": 0, "raised": 0, "rejected_ok": 0}
    d = os.path.join(base, "cw%d" % jid)
    shutil.rmtree(d, ignore_errors=True)      # a re-run of this job (after a time-out) starts clean
    os.makedirs(d)
    try:
        for ci, case in enumerate(cases):
            cls = case["cls"]
            cells = case["cells"]
            sig = case_sig(case)
            try:
                ser = CZ.series(cls, cells)
            except Exception as e:   # noqa  (a class the installed pandas cannot build)
                out["drift"].append({"what": "cannot concretise", "class": cls, "exc": repr(e)[:100]})
                continue
            # the name of the neighbouring column is not something the table depends on: every other case calls it by a
            # name that ends like the reader's internal "<column>-catdef" entries
            zname = "z" if ci % 2 == 0 else "z-catdef"
            z = pd.Series(np.arange(len(cells), dtype="int64") * 7 + 91000, name=zname)
            df = pd.DataFrame({"x": ser, zname: z})
            opt = case.get("opt")
            ycat = None
            if cls.startswith("cat_") and len(cells) and opt in (None, "default", "hive"):
                # a second categorical column with the same categories but the OPPOSITE order flag and other codes: what is
                # remembered about one categorical column (dtype, flag, dictionary) must not leak into its neighbour
                cats_x = list(ser.cat.categories)
                ycat = pd.Categorical([cats_x[(i * 2 + 1) % len(cats_x)] for i in range(len(cells))], categories=cats_x,
                                      ordered=not bool(ser.cat.ordered))
                df.insert(1, "y", ycat)
            widx = False
            if opt == "index":
                # x is the frame's named row index (categorical / datetime / text / ... index as the class says)
                df = pd.DataFrame({zname: z.values}, index=pd.Index(ser, name="x"))
                widx = None
            elif opt == "index2":
                # x is the first level of a two-level index; the second level repeats three integers
                w = np.arange(len(cells), dtype="int64") % 3 + 40
                df = pd.DataFrame({zname: z.values}, index=pd.MultiIndex.from_arrays([ser, w], names=["x", "w"]))
                widx = None
            elif opt == "rangeidx":
                widx = True                       # the automatic range index is written as a column named "index"
            elif opt == "rangestep":
                df.index = pd.RangeIndex(start=len(cells) + 10, stop=10, step=-1)
                widx = None                       # recorded as (start, stop, step) in the pandas metadata
            path = os.path.join(d, "c%d.parquet" % ci)
            has_nulls = {"true": True, "false": False, "infer": "infer"}[case["mode"]]
            stats = {"true": True, "false": False, "auto": "auto", "list": ["x"], "listother": None}[case["stats"]]
            old_page, old_v = W.MAX_PAGE_SIZE, W.DATAPAGE_VERSION
            raised = None
            try:
                # the page budget applies to column x; z (8 bytes/row, REQUIRED or OPTIONAL) gets what it gets
                W.MAX_PAGE_SIZE, W.DATAPAGE_VERSION = case["pagebytes"], case["v"]
                okw = {}
                if case.get("opt") == "int96":
                    okw["times"] = "int96"
                elif case.get("opt") == "hive":
                    okw["file_scheme"] = "hive"          # the same table as a multi-file dataset (one part file per row group)
                elif case.get("opt") == "fixed":
                    okw["fixed_text"] = {"x": 8}          # no value of the text / bytes classes is longer than 8 bytes
                elif case.get("opt") == "explicit":
                    okw["object_encoding"] = {"x": "bytes" if cls == "obj_bytes" else "utf8", zname: "infer"}
                if stats is None:
                    stats = [zname]                  # statistics asked for the neighbouring column only
                fp.write(path, df, has_nulls=has_nulls, row_group_offsets=(case["rgo"] or None), stats=stats,
                         write_index=widx, compression=(None if case.get("codec", "none") == "none" else case["codec"]),
                         **okw)
            except BaseException as e:  # noqa
                raised = e
            finally:
                W.MAX_PAGE_SIZE, W.DATAPAGE_VERSION = old_page, old_v
            out["evals"] += 1
            if raised is not None:
                # "or else the write raises": acceptable for C01; recorded
                out["raised"] += 1
                if case["rejected"]:
                    out["rejected_ok"] += 1
                elif len(out["drift"]) < 10:
                    out["drift"].append({"what": "write raised where the model writes", "sig": sig,
                                         "exc": "%s: %s" % (type(raised).__name__, str(raised)[:80])})
                continue
            hive = case.get("opt") == "hive"
            data = None
            if not hive:
                with open(path, "rb") as f:
                    data = f.read()
            # ------------------------------------------------ C01
            try:
                pf = fp.ParquetFile(path)
                got = pf.to_pandas()
                if opt == "rangestep":
                    if [int(v) for v in got.index] != [int(v) for v in df.index]:
                        out["viol"].append(("C01", dict(sig, what="labels of a range index with its own start and step changed "
                                                                  "on read-back", opt=opt), ci))
                    got = got.reset_index(drop=True)
                if opt in ("index", "index2", "rangeidx"):
                    # the row index that was written comes back as the row index, with its name(s), and the written
                    # column(s) as columns; from here on "x" is looked at as a column of the re-set frame
                    names = {"index": ["x"], "index2": ["x", "w"], "rangeidx": ["index"]}[opt]
                    if list(got.index.names) != names:
                        out["viol"].append(("C01", dict(sig, what="names of the written row index changed on read-back",
                                                        opt=opt), ci))
                        got = None
                    elif opt == "rangeidx":
                        if [int(v) for v in got.index] != list(range(len(cells))):
                            out["viol"].append(("C01", dict(sig, what="labels of the written range index changed on read-back",
                                                            opt=opt), ci))
                        got = got.reset_index(drop=True)
                    else:
                        if opt == "index2" and [int(v) for v in got.index.get_level_values("w")] != \
                                [i % 3 + 40 for i in range(len(cells))]:
                            out["viol"].append(("C01", dict(sig, what="second level of the written row index changed on "
                                                                      "read-back", opt=opt), ci))
                        gi = got.index.get_level_values("x")
                        got = pd.DataFrame({"x": pd.Series(gi.array if hasattr(gi, "array") else gi), zname: got[zname].values})
                if got is not None and ycat is not None:
                    if "y" not in got.columns or str(got["y"].dtype) != "category" or \
                            list(got["y"].astype(object)) != list(pd.Series(ycat).astype(object)) or \
                            list(got["y"].cat.categories) != list(ycat.categories) or \
                            bool(got["y"].cat.ordered) != bool(ycat.ordered):
                        out["viol"].append(("C01", dict(sig, what="a neighbouring categorical column (same categories, opposite "
                                                                  "order flag) changed on read-back"), ci))
                    got = got.drop(columns=["y"], errors="ignore")
                if got is None:
                    pass
                elif list(got.columns) != ["x", zname]:
                    out["viol"].append(("C01", dict(sig, what="column names or order changed"), ci))
                elif len(got) != len(cells):
                    out["viol"].append(("C01", dict(sig, what="row count changed"), ci))
                else:
                    if [int(v) for v in got[zname]] != [int(v) for v in z]:
                        out["viol"].append(("C01", dict(sig, what="cells of a neighbouring column changed"), ci))
                    gx = got["x"]
                    vals = list(gx.astype(object)) if str(gx.dtype) == "category" else list(gx)
                    bad = [i for i, (g, w) in enumerate(zip(vals, cells)) if not CZ.cell_equal(cls, g, w)]
                    if bad:
                        kind = "missingness" if any((cells[i] < 0) for i in bad) else "value"
                        out["viol"].append(("C01", dict(sig, what="cell %s changed on read-back" % kind), ci))
                    elif opt in ("index", "index2"):
                        # the row index: its labels (above), its names, and for a categorical index the categories and the
                        # order flag; the storage dtype of index labels (Int32 vs int64, level dtypes of a MultiIndex)
                        # is not something the property speaks about
                        if opt == "index" and cls.startswith("cat_") and len(cells):
                            if str(gx.dtype) != "category" or list(gx.cat.categories) != list(ser.cat.categories) or \
                                    bool(gx.cat.ordered) != bool(ser.cat.ordered):
                                out["viol"].append(("C01", dict(sig, what="categories or order flag of a categorical row "
                                                                          "index changed on read-back"), ci))
                    elif not CZ.dtype_ok(cls, gx.dtype) and len(cells) and not (
                            case.get("opt") == "int96" and str(gx.dtype).startswith("datetime64[")):
                        # (INT96 has one resolution: a timestamp column stored that way comes back as datetime64[ns],
                        #  the same dtype KIND, which is what the property asks for)
                        out["viol"].append(("C01", dict(sig, what="dtype changed on read-back", got=str(gx.dtype)), ci))
                    elif cls.startswith("cat_") and len(cells):
                        want_cats = list(ser.cat.categories)
                        if list(gx.cat.categories) != want_cats or bool(gx.cat.ordered) != bool(ser.cat.ordered):
                            out["viol"].append(("C01", dict(sig, what="categories or order flag changed on read-back"), ci))
            except BaseException as e:  # noqa
                out["viol"].append(("C01", dict(sig, what="file written without error cannot be read back",
                                                exc=type(e).__name__), ci))
                pf = None
            if hive:
                # the files of a multi-file dataset are C02's codec/scheme sweep and C08/C09's business; here: the round trip
                shutil.rmtree(path, ignore_errors=True)
                continue
            # ------------------------------------------------ C02
            fv = PR.read_file(data, strict=True)
            # statistics are C04's business (and an in-band NaT/NaN in a REQUIRED column is a "value" only to pqspec)
            probs = [p for p in fv.problems if KNOWN_THRIFT not in p and not p.startswith("E-STATS")]
            known_thrift = len([p for p in fv.problems if KNOWN_THRIFT in p])
            if known_thrift:
                out["viol"].append(("C02", {"what": "empty list serialised with element type 0 (not the IDL's type)",
                                            "code": "E-THRIFT-EMPTYLIST"}, ci))
            for p in sorted({p.split(":")[0].split()[0] for p in probs}):
                out["viol"].append(("C02", dict(sig, what="structural problem reported by the independent reader", code=p), ci))
            leaf = None
            try:
                leaf = fv.leaf("x")
            except Exception:
                pass
            # a chunk null_count that disagrees with the pages (E-NULLCOUNT) is reported above for C02 and must not keep
            # C04's own comparison below from running
            if fv.meta is not None and leaf is not None and not [p for p in probs if not p.startswith("E-NULLCOUNT")]:
                # layout vs the specification
                real_rgs = []
                for rg in fv.row_groups:
                    ch = [c for c in rg.chunks if c.path == ("x",)][0]
                    pages = [p for p in ch.pages if p.kind != "DICTIONARY_PAGE"]
                    real_rgs.append({"len": rg.num_rows, "dict": any(p.kind == "DICTIONARY_PAGE" for p in ch.pages),
                                     "pages": [(p.num_values, p.num_nulls or 0) for p in pages],
                                     "v": sorted({2 if p.kind == "DATA_PAGE_V2" else 1 for p in pages}),
                                     "optional": leaf.max_def == 1})
                want_rgs = [{"len": g["len"], "dict": bool(g["dict"]), "pages": [(p["nvals"], p["nnulls"]) for p in g["pages"]],
                             "v": [case["v"]], "optional": bool(g["optional"])} for g in case["rgs"]]
                if real_rgs != want_rgs and len(out["drift"]) < 10 and cls != "obj_str_e":
                    out["drift"].append({"what": "layout differs from the specification's", "sig": sig,
                                         "real": real_rgs[:3], "spec": want_rgs[:3], "pagebytes": case["pagebytes"]})
                # values, NULL vs in-band sentinel
                try:
                    col = fv.column("x")
                    if len(col) != len(cells):
                        out["viol"].append(("C02", dict(sig, what="independent reader finds a different number of rows"), ci))
                    else:
                        for i, (pv, want) in enumerate(zip(col, cells)):
                            if want == CZ.NULL:
                                ok = pv is None
                            elif want == CZ.SENT:
                                ok = pv is not None and _is_sentinel(leaf, pv)
                            else:
                                ok = pv is not None and _logical_eq(_unpad(case, CZ.logical_from_physical(leaf, pv)),
                                                                    CZ.expected_logical(cls, want))
                            if not ok:
                                out["viol"].append(("C02", dict(sig, what="independent reader decodes a different "
                                                                 + ("NULL/NaN state" if want < 0 or pv is None else "value")), ci))
                                break
                except Exception as e:  # noqa
                    out["viol"].append(("C02", dict(sig, what="independent reader cannot decode the values",
                                                    exc=type(e).__name__), ci))
                # ------------------------------------------------ C04
                for gi, (rg, g) in enumerate(zip(fv.row_groups, case["rgs"])):
                    if gi >= len(case["rgs"]):
                        break
                    ch = [c for c in rg.chunks if c.path == ("x",)][0]
                    st = ch.meta.get("statistics") or {}
                    rmin = st.get("min_value") if st.get("min_value") is not None else st.get("min")
                    rmax = st.get("max_value") if st.get("max_value") is not None else st.get("max")
                    nnull_true = sum(1 for c in cells[g["start"]:g["start"] + g["len"]] if c == CZ.NULL)
                    if st.get("null_count") is not None and st["null_count"] != nnull_true:
                        out["viol"].append(("C04", dict(sig, what="null_count differs from the number of missing cells"), ci))
                    chunk_cells = [c for c in cells[g["start"]:g["start"] + g["len"]] if c >= 0]
                    if (rmin is None) != (rmax is None):
                        out["viol"].append(("C04", dict(sig, what="only one of min/max present"), ci))
                    elif rmin is not None:
                        if not chunk_cells:
                            out["viol"].append(("C04", dict(sig, what="min/max present although the chunk has no non-null value"), ci))
                        else:
                            try:
                                unsigned = leaf.is_unsigned()
                                dmin = _unpad(case, CZ.logical_from_physical(leaf, PR._stat_decode(leaf, rmin, unsigned)))
                                dmax = _unpad(case, CZ.logical_from_physical(leaf, PR._stat_decode(leaf, rmax, unsigned)))
                                emin = CZ.expected_logical(cls, min(chunk_cells))
                                emax = CZ.expected_logical(cls, max(chunk_cells))
                                if not (_logical_eq(dmin, emin) and _logical_eq(dmax, emax)):
                                    out["viol"].append(("C04", dict(sig, what="min/max are not the extreme stored values",
                                                                    stats=case["stats"]), ci))
                            except Exception as e:  # noqa
                                out["viol"].append(("C04", dict(sig, what="min/max cannot be decoded", exc=type(e).__name__), ci))
                    if bool(g["hasmm"]) != (rmin is not None) and len(out["drift"]) < 10:
                        out["drift"].append({"what": "presence of min/max differs from the specification's", "sig": sig,
                                             "spec": g["hasmm"], "real": rmin is not None, "stats": case["stats"]})
                # the statistics exposed to users
                if pf is not None and case["rgs"]:
                    try:
                        S = pf.statistics
                        nrg = len(case["rgs"])
                        # a list that is not one entry per row group ([None] collapse) exposes nothing: accepted
                        exposed = all(len(S[k]["x"]) == nrg for k in ("min", "max", "null_count"))
                        raw_all = all(_raw_minmax(fv, gi) for gi in range(min(nrg, len(fv.row_groups))))
                        if raw_all and nrg and (not exposed or None in S["min"]["x"] or None in S["max"]["x"]):
                            out["viol"].append(("C04", dict(sig, what="every chunk stores min/max but ParquetFile.statistics "
                                                            "does not expose them per row group"), ci))
                        try:
                            sp = fp.api.sorted_partitioned_columns(pf)
                        except BaseException as e:  # noqa
                            sp = None
                            out["viol"].append(("C04", dict(sig, what="sorted_partitioned_columns raised", exc=type(e).__name__), ci))
                        if sp is not None and raw_all and nrg:
                            mins = [min(c for c in cells[g["start"]:g["start"] + g["len"]] if c >= 0) for g in case["rgs"]]
                            maxs = [max(c for c in cells[g["start"]:g["start"] + g["len"]] if c >= 0) for g in case["rgs"]]
                            strictly = all(maxs[i] < mins[i + 1] for i in range(nrg - 1))
                            overlap = any(maxs[i] > mins[i + 1] for i in range(nrg - 1))
                            if strictly and "x" not in sp:
                                out["viol"].append(("C04", dict(sig, what="column sorted across row groups is missing from "
                                                                "sorted_partitioned_columns"), ci))
                            if overlap and "x" in sp:
                                out["viol"].append(("C04", dict(sig, what="column NOT sorted across row groups is listed by "
                                                                "sorted_partitioned_columns"), ci))
                        if nrg >= 2:
                            # a call sequence on one handle: a FILTERED sorted_partitioned_columns in between must not change
                            # what the handle exposes afterwards
                            snap = repr(S)
                            zcut = int(z.iloc[case["rgs"][0]["len"] - 1]) if case["rgs"][0]["len"] else int(z.iloc[0])
                            try:
                                fp.api.sorted_partitioned_columns(pf, filters=[(zname, ">", zcut)])
                            except BaseException:  # noqa  (what a filtered call may answer is not the subject here)
                                pass
                            if repr(pf.statistics) != snap:
                                out["viol"].append(("C04", dict(sig, what="ParquetFile.statistics changed after a filtered "
                                                                "sorted_partitioned_columns on the same handle"), ci))
                            elif sp is not None and fp.api.sorted_partitioned_columns(pf) != sp:
                                out["viol"].append(("C04", dict(sig, what="sorted_partitioned_columns answers differently after a "
                                                                "filtered call on the same handle"), ci))
                        for gi, g in enumerate(case["rgs"] if exposed else []):
                            chunk_cells = [c for c in cells[g["start"]:g["start"] + g["len"]] if c >= 0]
                            umin, umax = S["min"]["x"][gi], S["max"]["x"][gi]
                            unull = S["null_count"]["x"][gi]
                            ch = [c for c in fv.row_groups[gi].chunks if c.path == ("x",)][0]
                            st = ch.meta.get("statistics") or {}
                            has_raw = (st.get("min_value") is not None) or (st.get("min") is not None)
                            if has_raw and chunk_cells and umin is not None and umax is not None:
                                if not (CZ.stat_equal(cls, umin, min(chunk_cells)) and CZ.stat_equal(cls, umax, max(chunk_cells))):
                                    out["viol"].append(("C04", dict(sig, what="ParquetFile.statistics min/max decode to "
                                                                    "different logical values"), ci))
                                    break
                            nn = sum(1 for c in cells[g["start"]:g["start"] + g["len"]] if c == CZ.NULL)
                            if unull is not None and int(unull) != nn:
                                out["viol"].append(("C04", dict(sig, what="ParquetFile.statistics null_count wrong"), ci))
                                break
                    except BaseException as e:  # noqa
                        out["viol"].append(("C04", dict(sig, what="ParquetFile.statistics raised", exc=type(e).__name__), ci))
            try:
                os.remove(path)
            except OSError:
                pass
    except BaseException:  # noqa
        out["error"] = traceback.format_exc()
    finally:
        shutil.rmtree(d, ignore_errors=True)
    return out


def _raw_minmax(fv, gi):
    ch = [c for c in fv.row_groups[gi].chunks if c.path == ("x",)][0]
    st = ch.meta.get("statistics") or {}
    return (st.get("min_value") is not None or st.get("min") is not None) and \
           (st.get("max_value") is not None or st.get("max") is not None)


def _unpad(case, lv):
    """fixed_text stores a value as a fixed-length string padded with NUL bytes (the option's documented representation):
    compare without the padding"""
    if case.get("opt") == "fixed" and lv[0] == "bytes":
        return ("bytes", lv[1].rstrip(b"\x00"))
    return lv


def _is_sentinel(leaf, pv):
    if leaf.physical_type in ("FLOAT", "DOUBLE"):
        return pv != pv
    if leaf.physical_type == "INT64":
        return pv == -2 ** 63            # NaT
    if leaf.physical_type == "INT96":    # NaT stored in band: the (nanoseconds, Julian day) pair of -2**63 ns
        return CZ.logical_from_physical(leaf, pv) == ("ns", -2 ** 63)
    return False


def _logical_eq(a, b):
    if a[0] != b[0]:
        return False
    if a[0] == "float":
        return a[1] == b[1] or (a[1] != a[1] and b[1] != b[1])
    return a[1] == b[1]


def append_chunk(args):
    """The case's frame arrives as an APPEND (write(append=True), simple and hive) to a file that already holds the same
    column without missing cells, written with the same options: the schema - REQUIRED or OPTIONAL - is then the existing
    file's, not one derived from the frame.  The contract is the same as for a first write: the append raises, or the file
    is valid and an independent reader finds base rows + the case's cell table."""
    jid, cases, base = args
    fp = use_repo()
    import pandas as pd
    import numpy as np
    out = {"jid": jid, "viol": [], "evals": 0, "raised": 0}
    d = os.path.join(base, "ap%d" % jid)
    shutil.rmtree(d, ignore_errors=True)
    os.makedirs(d)
    try:
        for ci, case in enumerate(cases):
            cls, cells = case["cls"], case["cells"]
            sig = dict(case_sig(case), via="append")
            try:
                ser = CZ.series(cls, cells)
                base_cells = [3 if c < 0 else c for c in cells]
                bser = CZ.series(cls, base_cells)
                if cls.startswith("cat_"):
                    cats = list(dict.fromkeys(list(bser.cat.categories) + list(ser.cat.categories)))
                    bser = pd.Series(pd.Categorical(list(bser.astype(object)), categories=cats, ordered=bool(ser.cat.ordered)), name="x")
                    ser = pd.Series(pd.Categorical(list(ser.astype(object)), categories=cats, ordered=bool(ser.cat.ordered)), name="x")
            except Exception:   # noqa
                continue
            has_nulls = {"true": True, "false": False, "infer": "infer"}[case["mode"]]
            for scheme in ("simple", "hive"):
                path = os.path.join(d, "a%d-%s" % (ci, scheme))
                n = len(cells)
                z0 = pd.Series(np.arange(n, dtype="int64") * 7 + 91000, name="z")
                try:
                    fp.write(path, pd.DataFrame({"x": bser, "z": z0}), has_nulls=has_nulls, write_index=False, file_scheme=scheme,
                             stats=True)
                except BaseException:  # noqa
                    continue
                out["evals"] += 1
                try:
                    fp.write(path, pd.DataFrame({"x": ser, "z": z0 + 7 * n}), has_nulls=has_nulls, write_index=False,
                             file_scheme=scheme, append=True, stats=True)
                except BaseException:  # noqa
                    out["raised"] += 1          # "or else the write raises" (what a refused append leaves behind is C18's)
                    shutil.rmtree(path, ignore_errors=True) if os.path.isdir(path) else os.remove(path)
                    continue
                files = {}
                if scheme == "simple":
                    files[""] = open(path, "rb").read()
                else:
                    for root, _, fns in os.walk(path):
                        for fn in fns:
                            files[os.path.relpath(os.path.join(root, fn), path)] = open(os.path.join(root, fn), "rb").read()
                got = []
                bad = False
                for rel in sorted(k for k in files if not k.endswith("metadata")):
                    fv = PR.read_file(files[rel], strict=True, other_files=files)
                    probs = [p for p in fv.problems if KNOWN_THRIFT not in p and not p.startswith("E-STATS")]
                    for p in sorted({p.split(":")[0].split()[0] for p in probs}):
                        out["viol"].append(("C02", dict(sig, what="structural problem reported by the independent reader", code=p,
                                                        scheme=scheme), ci))
                        bad = True
                    if probs:
                        continue
                    try:
                        leaf = fv.leaf("x")
                        zs = fv.column("z")
                        for pv, zv in zip(fv.column("x"), zs):
                            got.append((zv, leaf, pv))
                    except Exception as e:  # noqa
                        out["viol"].append(("C02", dict(sig, what="independent reader cannot decode the values",
                                                        exc=type(e).__name__, scheme=scheme), ci))
                        bad = True
                if not bad:
                    got.sort(key=lambda t: t[0])
                    want = base_cells + list(cells)
                    if len(got) != len(want):
                        out["viol"].append(("C02", dict(sig, what="independent reader finds a different number of rows",
                                                        scheme=scheme), ci))
                    else:
                        for (zv, leaf, pv), w in zip(got, want):
                            if w == CZ.NULL:
                                ok = pv is None
                            elif w == CZ.SENT:
                                ok = pv is not None and _is_sentinel(leaf, pv)
                            else:
                                ok = pv is not None and _logical_eq(CZ.logical_from_physical(leaf, pv), CZ.expected_logical(cls, w))
                            if not ok:
                                out["viol"].append(("C02", dict(sig, what="independent reader decodes a different "
                                                                + ("NULL/NaN state" if w < 0 or pv is None else "value"),
                                                                scheme=scheme), ci))
                                break
                # C01: the library's own read of base + appended rows
                try:
                    gx = list(fp.ParquetFile(path).to_pandas()["x"].astype(object))
                    wantc = base_cells + list(cells)
                    if len(gx) != len(wantc) or any(not CZ.cell_equal(cls, g, w) for g, w in zip(gx, wantc)):
                        out["viol"].append(("C01", dict(sig, what="cells changed on read-back of an appended frame", scheme=scheme), ci))
                except BaseException as e:  # noqa
                    out["viol"].append(("C01", dict(sig, what="file appended to without error cannot be read back",
                                                    exc=type(e).__name__, scheme=scheme), ci))
                shutil.rmtree(path, ignore_errors=True) if os.path.isdir(path) else os.remove(path)
    except BaseException:  # noqa
        out["error"] = traceback.format_exc()
    finally:
        shutil.rmtree(d, ignore_errors=True)
    return out


def run_appends(cases, work, chunk=60):
    """the cases that hold a missing cell, on a stride, replayed as appends"""
    sel = [c for c in cases if any(x < 0 for x in c["cells"]) and c.get("opt", "default") == "default"
           and c.get("codec", "none") == "none" and c["rgo"] == 0 and c["n"] <= 9]
    seen, pick = set(), []
    for c in sel:
        k = (c["cls"], c["mode"], c["nullpat"], c["v"])
        if k not in seen:
            seen.add(k)
            pick.append(c)
    base = os.path.join(work, "cwappend")
    os.makedirs(base, exist_ok=True)
    jobs = [(i, pick[c0:c0 + chunk], base) for i, c0 in enumerate(range(0, len(pick), chunk))]
    res = pmap(append_chunk, jobs, job_timeout=900)
    shutil.rmtree(base, ignore_errors=True)
    return jobs, res


def run_cases(cases, work, chunk=120):
    base = os.path.join(work, "cwreplay-%d" % len(os.listdir(work)))
    os.makedirs(base)
    jobs = [(i, cases[c0:c0 + chunk], base) for i, c0 in enumerate(range(0, len(cases), chunk))]
    res = pmap(replay_chunk, jobs, job_timeout=900)
    shutil.rmtree(base, ignore_errors=True)
    return jobs, res


# ---------------------------------------------------------------------------------------------------------------
# C02 beyond one column: codecs x file schemes, every file of a multi-file dataset incl. the summary files
# ---------------------------------------------------------------------------------------------------------------

def sweep_job(args):
    jid, codec, scheme, v, base = args
    fp = use_repo()
    import pandas as pd
    import numpy as np
    import fastparquet.writer as W
    out = {"jid": jid, "viol": [], "evals": 0, "files": 0}
    d = os.path.join(base, "s%d" % jid)
    shutil.rmtree(d, ignore_errors=True)      # a re-run of this job (after a time-out) starts clean
    os.makedirs(d)
    try:
        n = 12
        df = pd.DataFrame({
            "i": np.arange(n, dtype="int64") * 1000003 - 5, "f": [np.nan if i % 5 == 0 else i * 0.25 - 1 for i in range(n)],
            "s": pd.Series([None if i % 4 == 1 else "t%03dé" % (i * 3) for i in range(n)], dtype=object),
            "b": [bool(i % 3) for i in range(n)], "t": pd.date_range("2021-03-01", periods=n, freq="h"),
            "k": pd.Categorical(["u", "v", "w"] * 4), "p": [i % 2 for i in range(n)]})
        path = os.path.join(d, "out")
        comp = codec if not isinstance(codec, tuple) else {"i": codec[0], "s": codec[1], "_default": None}
        old_v = W.DATAPAGE_VERSION
        try:
            W.DATAPAGE_VERSION = v
            fp.write(path, df, file_scheme=scheme, compression=comp, row_group_offsets=[0, 5, 9],
                     partition_on=(["p"] if scheme != "simple" else []), write_index=False)
        finally:
            W.DATAPAGE_VERSION = old_v
        out["evals"] = 1
        files = {}
        if scheme == "simple":
            files[os.path.basename(path)] = open(path, "rb").read()
        else:
            for root, _, fns in os.walk(path):
                for fn in fns:
                    rel = os.path.relpath(os.path.join(root, fn), path)
                    files[rel] = open(os.path.join(root, fn), "rb").read()
        sig0 = {"codec": str(codec), "scheme": scheme, "v": v}
        total = 0
        for rel, data in sorted(files.items()):
            out["files"] += 1
            fv = PR.read_file(data, strict=True, other_files=files)
            kind = "summary" if rel.endswith("metadata") else "data"
            for p in fv.problems:
                if KNOWN_THRIFT in p:
                    out["viol"].append(("C02", {"what": "empty list serialised with element type 0 (not the IDL's type)",
                                                "code": "E-THRIFT-EMPTYLIST"}, rel))
                    continue
                if p.startswith("E-STATS"):
                    continue
                out["viol"].append(("C02", dict(sig0, what="structural problem reported by the independent reader",
                                                code=p.split()[0], file=("_common_metadata" if rel == "_common_metadata" else kind)), rel))
            if kind == "data" and not [p for p in fv.problems if KNOWN_THRIFT not in p and not p.startswith("E-STATS")]:
                xs = fv.column("i")
                total += len(xs)
                ss = fv.column("s")
                for x, sv in zip(xs, ss):
                    i = (x + 5) // 1000003
                    want = None if i % 4 == 1 else ("t%03dé" % (i * 3)).encode("utf8")
                    if sv != want:
                        out["viol"].append(("C02", dict(sig0, what="independent reader decodes a different value"), rel))
                        break
        if total != n:
            out["viol"].append(("C02", dict(sig0, what="rows found by the independent reader in the data files differ "
                                                      "from the rows written"), "all"))
    except BaseException:  # noqa
        out["error"] = traceback.format_exc()
    finally:
        shutil.rmtree(d, ignore_errors=True)
    return out


def run_sweep(work):
    base = os.path.join(work, "sweep")
    os.makedirs(base)
    codecs = [None, "SNAPPY", "GZIP", "ZSTD", "LZ4", "BROTLI", ("GZIP", "SNAPPY")]
    jobs = [(i, c, s, v, base) for i, (c, s, v) in
            enumerate((c, s, v) for c in codecs for s in ("simple", "hive", "drill") for v in (1, 2))]
    return jobs, pmap(sweep_job, jobs, job_timeout=300)
