"""C07 - append adds rows at the end and leaves existing data untouched.
   spec/SingleFile.tla (simple scheme), spec/Dataset.tla (hive), spec/Categorical.tla (per-batch dictionaries)."""
import json
import os

from ..common import Timer, scratch, HOME
from ..evidence import Evidence
from ..findings import Verdicts
from .. import tlc as T
from . import singlefile as SF
from . import dataset as D
from . import categorical as C

PID = "C07"


def run(tier, seed):
    t = Timer()
    ev = Evidence(PID, tier, seed, "model_checking")
    ev.assumptions = ["single files: symbolic byte model (SingleFile.tla); multi-file: one action per filesystem call "
                      "(Dataset.tla)", "existing files are compared by bytes and inode before/after every append",
                      "categorical batches: labels from a 4-element family of category lists"]
    thorough = tier == "thorough"
    with scratch() as work:
        rc = _run(ev, work, thorough)
    ev.write(t.s())
    return rc


def _run(ev, work, thorough):
    verd = Verdicts(PID, os.path.join(HOME, "replays"))
    # ---------------- single file ----------------
    cfg = SF.model_cfg(os.path.join(work, "app.cfg"), vals=(1,), maxops=3 if thorough else 2, kv=False, app=True, fail=False,
                       meta=False, trunc_kv=False, trunc_app=False, restore=False, keys=("a",),
                       invariants=SF.CONTRACT_INV + ["NoStaleTail"], properties=SF.CONTRACT_PROP)
    res = T.run_tlc("SingleFile", cfg, work, coverage=True, timeout=3000)
    if not res.ok:
        print(res.out[-3000:])
        raise T.TLCError("SingleFile append mechanism violates %s" % res.violated)
    for a in ("DoAppBegin", "AppTail", "DoAppWriteChunk", "DoAppWriteFooter", "AppWriteLen", "AppWriteMagic", "AppClose"):
        if not res.covered(a):
            raise T.TLCError("vacuity: action %s never taken" % a)
    ev.add_tlc("SingleFile, appends only: DataIntact/AppendOnly/RowsReadable/Openable hold", res)
    hists, res = SF.export_histories(work, vals=(1,), maxops=3 if thorough else 2, kv=False, app=True, fail=False,
                                     meta=False, keys=("a",))
    C16 = __import__("harness.checks.c16", fromlist=["_pad"])
    C16._pad(hists)
    ev.add_tlc("SingleFileExport: append histories", res, histories=len(hists))
    results = SF.run_replays(hists, work)
    straces = []
    for hid, r in enumerate(results):
        if isinstance(r, SF.Crashed):
            verd.add({"op": "app", "scheme": "simple", "what": "interpreter crashed or hung"}, {"history": hists[hid]})
            continue
        if "error" in r:
            raise RuntimeError("replay machinery failed:\n" + r["error"])
        ev.evaluations += r["evals"]
        for o in r["ops"]:
            if o.get("op") and o["op"].get("k", 0) > 0:
                ev.nontrivial.add(("simple", hid, o["step"]))
            for v in o["viol"]:
                verd.add(dict(v, scheme="simple"), {"history": hists[hid], "failing_step": o["step"],
                                                    "detail": o.get("detail")}, cost=len(hists[hid]))
        straces.extend(r["traces"])
    sv, sres = SF.validate_traces(straces, work)
    if sres is not None:
        ev.add_tlc("SingleFileTrace: recorded append call traces", sres)
    srej = 0
    for i, tr in enumerate(straces):
        v = sv[i]
        if v["accepted"]:
            ev.traces += 1
            bad = [k for k in ("openable", "rows_readable", "intact") if not v[k]]
            if bad and tr["real_ok"]:
                verd.add({"op": "app", "scheme": "simple", "what": "trace violates " + ",".join(bad), "via": "trace"},
                         {"trace": tr})
        else:
            srej += 1
            ev.drift.append({"trace": {"hid": tr["hid"], "step": tr["step"]}, "matched": v.get("matched"),
                             "next_event": v.get("next_event")})
    # ---------------- multi-file ----------------
    cfg = os.path.join(work, "dsapp.cfg")
    T.write_cfg(cfg, spec="Spec", constants={
        "NK": 3, "Frames": "<- " + ("FramesWide" if thorough else "FramesSmall"), "MaxOps": 3,
        "Partitioned": "<- BoolBoth", "EnableFault": False, "Ops": "<- OpsAppend", "PartIdsByPath": True,
        "SummaryFirst": False},
        invariants=["ModelContent", "NoOrphans", "NeverOpensReferenced", "PartsBeforeSummary"],
        properties=["AppendKeepsFiles"], check_deadlock=False)
    res = T.run_tlc("DatasetMC", cfg, work, coverage=True, timeout=3000)
    if not res.ok:
        print(res.out[-3000:])
        raise T.TLCError("Dataset append mechanism violates %s" % res.violated)
    ev.add_tlc("Dataset, appends only: ordered ModelContent, AppendKeepsFiles, NeverOpensReferenced hold", res)
    dh, res = D.export_histories(work, frames="FramesSmall" if thorough else "FramesTiny", maxops=4 if thorough else 3,
                                 ops="OpsAppend")
    ev.add_tlc("DatasetExport: write/append histories", res, histories=len(dh))
    hl, resl = D.export_histories(work, frames="FramesLong", maxops=2, ops="OpsAppend")
    hl = [h for h in hl if len(h[0]["groups"]) >= 11]
    ev.add_tlc("DatasetExport: appends to an 11-row-group dataset (part ids reach 10)", resl, histories=len(hl))
    hg, resg = D.export_histories(work, frames="FramesGap", maxops=3, ops="OpsAppend", partitioned="OnlyPartitioned")
    hg = [h for h in hg if any(len(c) == 0 for r in h for c in (r.get("frame") or []))]
    ev.add_tlc("DatasetExport: appends across an empty chunk (gap in the part ids)", resg, histories=len(hg))
    # appends through write(append=True) with a change made through a handle in between (the library must not reuse
    # what an earlier call learned about the dataset)
    hm, resm = D.export_histories(work, frames="FramesOne", maxops=4, ops="OpsMixed")
    hm = [h for h in hm if [r["kind"] for r in h[::2]][1] == "append" and [r["kind"] for r in h[::2]][3] == "append"
          and [r["kind"] for r in h[::2]][2] in ("wrg", "remove")]
    if not thorough:
        hm = hm[::3]
    ev.add_tlc("DatasetExport: write, append, <write_row_groups | remove_row_groups through a handle>, append", resm,
               histories=len(hm))
    dh = dh + hl + hg + hm
    dres = D.run_replays(dh, work)
    dtraces = []
    for hid, r in enumerate(dres):
        if isinstance(r, D.Crashed):
            verd.add({"op": "append", "scheme": "hive", "what": "interpreter crashed or hung"}, {"history": dh[hid]})
            continue
        if "error" in r:
            raise RuntimeError("replay machinery failed:\n" + r["error"])
        ev.evaluations += r["evals"]
        for o in r["ops"]:
            if o["step"] > 1:
                ev.nontrivial.add(("hive", hid, o["step"]))
            if o.get("drift"):
                ev.drift.append({"history": hid, "step": o["step"], "what": o["drift"]})
            for v in o["viol"]:
                verd.add(dict(v, scheme="hive"), {"history": dh[hid], "failing_step": o["step"]}, cost=len(dh[hid]))
        dtraces.extend(r["traces"])
    dv, dtres = D.validate_traces(dtraces, work)
    if dtres is not None:
        ev.add_tlc("DatasetTrace: recorded append call traces", dtres)
    drej = 0
    for i, tr in enumerate(dtraces):
        v = dv[i]
        if v["accepted"]:
            ev.traces += 1
            bad = [k for k in ("readable", "bag_ok", "order_ok", "no_bad_open", "kept") if not v[k]]
            if bad and tr["real_ok"]:
                verd.add({"op": tr["kind"], "scheme": "hive", "what": "trace violates " + ",".join(bad), "via": "trace"},
                         {"trace": tr})
        else:
            drej += 1
            ev.drift.append({"trace": {"hid": tr["hid"], "step": tr["step"]}, "matched": v.get("matched"),
                             "next_event": v.get("next_event")})
    # ---------------- categorical batches ----------------
    r1 = C.model_check(work, True)
    if not r1.ok:
        raise T.TLCError("Categorical (remapping variant) violates %s" % r1.violated)
    ev.add_tlc("Categorical, RemapCodes=TRUE: LabelsPreserved holds", r1)
    r0 = C.model_check(work, False)
    if r0.violated != "LabelsPreserved":
        raise T.TLCError("Categorical last-dictionary-wins variant must violate LabelsPreserved")
    ev.add_tlc("Categorical, RemapCodes=FALSE (as found): LabelsPreserved violated", r0)
    cases, cres = C.export_cases(work, 3 if thorough else 2, 2)
    if thorough:
        # every sequence of one or two batches, every fourth of the three-batch sequences
        cases = [c for i, c in enumerate(cases) if len(c["rgs"]) < 3 or i % 4 == 0]
    ev.add_tlc("CategoricalMC export: batch sequences with contract and mechanism prediction", cres, cases=len(cases))
    jobs, cr = C.run_cases(cases, work, ("simple", "hive"))
    mech_disagree = 0
    for j, r in zip(jobs, cr):
        if isinstance(r, Crashed_):
            verd.add({"op": "append", "what": "interpreter crashed or hung", "column": "categorical", "scheme": j[3],
                      "model_predicts_misread": list(j[1]["decoded"]) != list(j[1]["written"])},
                     {"case": j[1], "scheme": j[3]})
            continue
        if "error" in r:
            raise RuntimeError("categorical replay failed:\n" + r["error"])
        ev.evaluations += 1
        if len(j[1]["rgs"]) > 1:
            ev.nontrivial.add(("cat", json.dumps(j[1]["rgs"], sort_keys=True), j[3]))
        if not r.get("real_equals_model_mechanism", True):
            mech_disagree += 1
        if r["viol"]:
            sig = dict(r["viol"], column="categorical", scheme=j[3],
                       model_predicts_misread=bool(r.get("model_predicts_misread")))
            verd.add(sig, {"case": j[1], "scheme": j[3]}, cost=sum(len(g["codes"]) for g in j[1]["rgs"]))
    if mech_disagree:
        ev.drift.append({"what": "real categorical decode differs from the last-dictionary-wins mechanism model",
                         "cases": mech_disagree})
    ev.extra.update(single_file_histories=len(hists), dataset_histories=len(dh), categorical_cases=len(jobs),
                    traces_rejected_as_drift=srej + drej)
    if srej + drej:
        print("DRIFT: %d recorded traces are not behaviours of the mechanism models" % (srej + drej))
    ev.rule = ("append histories enumerated by TLC (SingleFileExport: 0..2 row groups per append; DatasetExport: frames x "
               "partitioned/unpartitioned; CategoricalMC: per-batch category lists and codes); non-trivial = distinct "
               "(history, step) that actually appended rows, and distinct multi-batch categorical cases")
    ev.exhaustive = True
    ev.sample(hists[1] if len(hists) > 1 else hists[0])
    ev.sample([{k: v for k, v in r.items() if k != "steps"} for r in dh[-1]])
    ev.sample(cases[-1])
    # ---- traces of the repository's own test-suite against the per-call contract clauses (harness/checks/suite.py) ----
    from . import suite as SUITE
    nrec = SUITE.stage(ev, verd, work, 'C07', thorough)
    ev.extra['suite_records_total'] = nrec
    n = verd.report(ev)
    return 1 if n else 0


from ..parallel import Crashed as Crashed_   # noqa: E402


def replay(path):
    doc = json.load(open(path))
    rp = doc["replay"]
    with scratch() as work:
        if "case" in rp:
            os.makedirs(os.path.join(work, "c"))
            r = C.replay_case((0, rp["case"], os.path.join(work, "c"), rp.get("scheme", "simple")))
            print(json.dumps(r, indent=1, default=str))
            return 1 if r.get("viol") else 0
        h = rp["history"]
        if h[0].get("kind") == "init":
            r = SF.replay_history((0, h, work))
        else:
            r = D.replay_history((0, h, work, {}))
    print(json.dumps(r["ops"], indent=1, default=str))
    return 1 if any(o["viol"] for o in r["ops"]) else 0
