"""C13 - row-level filtering returns exactly the rows that satisfy the predicate (spec/Filters.tla)."""
from ..common import Timer, scratch
from ..evidence import Evidence
from . import c05

PID = "C13"


def run(tier, seed):
    t = Timer()
    ev = Evidence(PID, tier, seed, "model_checking")
    ev.assumptions = ["NULL/NaN cells under != / not in may be kept or dropped",
                      "values 0..3, constants -1..4 mapped order-preservingly into int (nullable), float, text and "
                      "timestamp columns", "boolean masks: all masks of <= 6 rows over 1..3 row groups, v1 and v2 pages"]
    with scratch() as work:
        rc = c05._run(ev, work, tier == "thorough", PID)
    ev.write(t.s())
    return rc


replay = c05.replay
