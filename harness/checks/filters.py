"""Binding of spec/Filters.tla to the real code (shared by C05 and C13).

TLC (FiltersExport) gives, for every program, the contract's verdicts over a pool of row groups (MayOmit per row
group, DefSat/MaySat per row) and the mechanism's predictions (Keep, row selection).  The pool is written with the
real writer as four datasets (statistics on/off x hive-partitioned or not), one row group per pool element, and the
library is asked the same questions: filter_row_groups(as_idx), to_pandas(filters), count(filters), and the same
with row_filter=True."""
import json
import os
import shutil
import traceback

from ..common import use_repo
from ..parallel import pmap, Crashed
from .. import tlc as T

NULL = -9
CLASSES = ["int", "float", "str", "ts"]


def pconc(pkind, v):
    """concrete partition value / partition constant for abstract integer v (see FiltersMC: PartsDoubled)"""
    if pkind == "phalf":          # partition values are the even abstract values halved; odd constants fall between two of them
        return v // 2 if v % 2 == 0 else v / 2.0
    if pkind in ("pstr", "pobj"):
        return "k%d" % v          # "k-1" < "k0" < "k1" < "k2" < "k3": text order = abstract order
    if pkind in ("pnumstr", "pnumobj"):
        return "%03d" % (v + 5)   # zero-padded digits: text that looks like a number but is not its canonical spelling
    return v


def conc(cls, k):
    cls = cls.partition("|")[0].partition("~")[0]
    """abstract value k in -1..MaxV+1 -> concrete constant / cell of the class (orders preserved)"""
    import numpy as np
    if cls == "int":
        return 10 + 3 * k
    if cls == "float":
        return k + 0.5
    if cls == "str":
        # value 0 is the EMPTY string: its statistic b'' is falsy for the reader ("partial" statistics)
        return "" if k == 0 else ("!" if k == -1 else "v" + "abcdefgh"[k + 1])
    if cls == "ts":
        return np.datetime64("2020-01-10") + np.timedelta64(k, "D")
    raise ValueError(cls)


def column(pd, cls, cells):
    import numpy as np
    cls = cls.partition("|")[0].partition("~")[0]
    if cls == "int":
        return pd.array([pd.NA if c == NULL else conc(cls, c) for c in cells], dtype="Int64")
    if cls == "float":
        return pd.Series([np.nan if c == NULL else conc(cls, c) for c in cells], dtype="float64")
    if cls == "str":
        return pd.Series([None if c == NULL else conc(cls, c) for c in cells], dtype=object)
    if cls == "ts":
        return pd.Series([np.datetime64("NaT") if c == NULL else conc(cls, c) for c in cells], dtype="datetime64[ns]")
    raise ValueError(cls)


def export(work, rgs, progs, variant, tag):
    cfg = os.path.join(work, "fexp-%s.cfg" % tag)
    c = {"MaxV": 3, "RowGroups": "<- " + rgs, "Programs": "<- " + progs}
    c.update(variant)
    T.write_cfg(cfg, spec="ESpec", constants=c, invariants=["Emit"], check_deadlock=False)
    res = T.run_tlc("FiltersExport", cfg, work, timeout=3000)
    if not res.completed:
        raise T.TLCError("Filters export failed:\n" + res.out[-3000:])
    recs = res.printed_json()
    pool = [r for r in recs if "pool" in r][0]["pool"]
    cases = [r for r in recs if "prog" in r]
    return pool, cases, res


def cat_of(rid):
    return None if rid % 5 == 4 else "L%d" % (rid % 3)


def wide_of(rid):
    return None if rid % 7 == 3 else "W%03d" % ((rid * 13) % 200)


def build_datasets(fp, pd, base, pool, cls):
    """-> list of datasets: dict(path, idx=[pool index per row group], rids=[[row ids] per row group])"""
    out = []
    import fastparquet.writer as W
    for stats, only, tiny, pv in ((False, "both", False, 1), (True, "both", False, 1), (True, "x", False, 1),
                                  (True, "y", False, 1), (True, "both", True, 1),
                                  (True, "both", False, 2), (True, "both", True, 2)):
      # tiny: a page budget of a few bytes - every row group is cut into one-row pages (the row filter works page by page)
      # pv: data page version the dataset is written with (a dimension neither pruning nor row selection may depend on)
      for part in (False, True):
            idx = [i for i, g in enumerate(pool) if g["stats"] == stats and g.get("only", "both") == only
                   and ((g["p"] != NULL) == part)]
            if not idx:
                continue
            xs, ys, ps, rid, offs = [], [], [], [], []
            for i in idx:
                offs.append(len(xs))
                for r, row in enumerate(pool[i]["rows"]):
                    xs.append(row["x"])
                    ys.append(row["y"])
                    ps.append(pool[i]["p"])
                    rid.append(i * 10 + r)
            df = pd.DataFrame({"rid": pd.Series(rid, dtype="int64"), "x": column(pd, cls, xs), "y": column(pd, "int", ys)})
            # two columns that are only ever OUTPUT: a categorical (with missing cells) and a wide one (two-byte codes),
            # functions of the row id so that their alignment with the selected rows can be checked
            df["c"] = pd.Categorical([cat_of(r) for r in rid], categories=["L0", "L1", "L2"])
            df["w"] = pd.Categorical([wide_of(r) for r in rid], categories=["W%03d" % i for i in range(200)])
            path = os.path.join(base, "ds-%s-%d-%s-%d-%d-%d" % (cls, stats, only, part, tiny, pv))
            stats_arg = stats if only == "both" else [only]
            pkind = cls.partition("|")[2]
            if part:
                if pkind in ("pstr", "pobj", "pnumstr", "pnumobj"):
                    df["p"] = pd.Series([pconc(pkind, v) for v in ps], dtype=("str" if pkind.endswith("str") else object))
                else:
                    df["p"] = pd.Series([pconc(pkind, v) for v in ps], dtype="int64")
            old_page, old_pv = W.MAX_PAGE_SIZE, W.DATAPAGE_VERSION
            try:
                W.DATAPAGE_VERSION = pv
                if tiny:
                    W.MAX_PAGE_SIZE = 9
                if part:
                    fp.write(path, df, file_scheme="hive", partition_on=["p"], row_group_offsets=offs, stats=stats_arg,
                             write_index=False)
                else:
                    fp.write(path, df, file_scheme="hive", row_group_offsets=offs, stats=stats_arg, write_index=False)
            finally:
                W.MAX_PAGE_SIZE, W.DATAPAGE_VERSION = old_page, old_pv
            pf = fp.ParquetFile(path)
            if len(pf.row_groups) != len(idx):
                raise RuntimeError("dataset does not have one row group per pool element: %d vs %d" % (len(pf.row_groups), len(idx)))
            out.append({"path": path, "idx": idx, "stats": stats, "only": only, "part": part, "pages": "one-row pages" if tiny else "one page",
                        "page_version": pv})
    return out


def real_filters(prog, cls):
    def atom(a):
        ccls = "int" if a["col"] in ("y",) else cls
        if a["col"] == "p":
            vals = [pconc(cls.partition("|")[2], c) for c in a["c"]]
        else:
            vals = [conc(ccls, k) for k in a["c"]]
            # "~f": the constants come in a different but comparable type - floats against an integer column.  (ISO text
            # against a timestamp column is NOT comparable for this library: ordered comparisons raise TypeError and
            # == / != answer as for any two values of unrelated types; it is outside the property's domain.)
            conv = cls.partition("|")[0].partition("~")[2]
            if conv == "f" and a["col"] == "x":
                vals = [float(v) for v in vals]
        if a["op"] in ("in", "not in"):
            # the constants of a set operator may come in any container: list, tuple, set, frozenset, array
            import numpy as np
            kind = (len(vals) + sum(int(c) for c in a["c"]) + len(a["col"]) + (0 if a["op"] == "in" else 2)) % 5
            if kind == 1:
                v = tuple(vals)
            elif kind == 2:
                v = set(vals)
            elif kind == 3:
                v = frozenset(vals)
            elif kind == 4 and vals and not isinstance(vals[0], str):
                try:
                    v = np.array(vals)
                except Exception:  # noqa
                    v = vals
            else:
                v = vals
        else:
            v = vals[0]
        return (a["col"], a["op"], v)
    groups = [[atom(a) for a in g] for g in prog["groups"]]
    return groups[0] if prog["flat"] else groups


def eval_job(args):
    jid, dsinfo, pool, cases, cls = args
    fp = use_repo()
    out = {"jid": jid, "viol": [], "drift": [], "evals": 0, "refused": 0}
    try:
        pf0 = fp.ParquetFile(dsinfo["path"])
        idx = dsinfo["idx"]
        nrows = [len(pool[i]["rows"]) for i in idx]
        mentions_p = lambda pg: any(a["col"] == "p" for g in pg["groups"] for a in g)   # noqa
        for ci, case in enumerate(cases):
            pg = case["prog"]
            if mentions_p(pg) and not dsinfo["part"]:
                continue
            if cls.partition("|")[0].partition("~")[0] == "str" and any(-1 in a["c"] for g in pg["groups"] for a in g if a["col"] == "x"):
                continue      # no text sorts below the empty string that stands for value 0
            filters = real_filters(pg, cls)
            sig = {"ops": sorted({a["op"] for g in pg["groups"] for a in g}), "flat": pg["flat"],
                   "groups": len(pg["groups"]), "atoms": sum(len(g) for g in pg["groups"]),
                   "partition_atom": mentions_p(pg), "class": cls, "stats": dsinfo["stats"], "stat_columns": dsinfo.get("only", "both"), "pages": dsinfo.get("pages", "one page"),
                   "page_version": dsinfo.get("page_version", 1)}
            pf = fp.ParquetFile(dsinfo["path"])
            out["evals"] += 1
            try:
                kept = fp.api.filter_row_groups(pf, filters, as_idx=True)
                df = pf.to_pandas(filters=filters)
                cnt = pf.count(filters=filters)
            except TypeError as e:
                out["refused"] += 1
                continue
            except BaseException as e:  # noqa
                out["viol"].append(("C05", dict(sig, what="filtered read raised", exc=type(e).__name__), ci))
                continue
            # ---- C05 ----
            rids = [int(v) for v in df["rid"]]
            expect_rids = [idx[j] * 10 + r for j in kept for r in range(nrows[j])]
            if rids != expect_rids:
                out["viol"].append(("C05", dict(sig, what="result is not the in-order concatenation of the kept row groups"), ci))
            if cnt != len(expect_rids):
                out["viol"].append(("C05", dict(sig, what="count(filters) differs from the rows of the kept row groups"), ci))
            for j, i in enumerate(idx):
                if j not in kept and not case["omit"][i]:
                    # is this exactly what the `not in` rule "prune when a chunk bound is in the list" predicts?
                    rule = all(not case["keepb"][ii] for jj, ii in enumerate(idx) if jj not in kept)
                    out["viol"].append(("C05", dict(sig, what="row group with a qualifying row was pruned",
                                                    explained_by_not_in_bound_rule=rule), ci))
                    break
            mk = [j for j, i in enumerate(idx) if case["keep"][i]]
            mkb = [j for j, i in enumerate(idx) if case["keepb"][i]]
            if mk != list(kept) and mkb != list(kept) and cls.partition("|")[0].partition("~")[0] != "str" and len(out["drift"]) < 5:
                out["drift"].append({"what": "pruning differs from the mechanism model", "prog": pg,
                                     "real": list(kept)[:10], "model": mk[:10],
                                     "dataset": {k: dsinfo[k] for k in ("stats", "only", "part") if k in dsinfo}})
            # ---- C13 ----
            try:
                dfr = pf.to_pandas(filters=filters, row_filter=True)
                cntr = pf.count(filters=filters, row_filter=True)
            except BaseException as e:  # noqa
                out["viol"].append(("C13", dict(sig, what="row-filtered read raised", exc=type(e).__name__), ci))
                continue
            got = [int(v) for v in dfr["rid"]]
            dset = [i * 10 + r for i in idx for r in range(len(pool[i]["rows"])) if case["def"][i][r]]
            mset = {i * 10 + r for i in idx for r in range(len(pool[i]["rows"])) if case["may"][i][r]}
            ms = [i * 10 + r for i in idx for r in range(len(pool[i]["rows"])) if case["sel"][i][r]]
            gotset = set(got)
            allrids = {i * 10 + r for i in idx for r in range(len(pool[i]["rows"]))}
            if not gotset <= allrids:
                out["viol"].append(("C13", dict(sig, what="the row-filtered read returns rows that are not in the dataset "
                                                          "(uninitialised or misplaced cells)"), ci))
                continue
            if sorted(got) != got or len(gotset) != len(got):
                out["viol"].append(("C13", dict(sig, what="rows out of order or duplicated"), ci))
            elif [r for r in dset if r not in gotset]:
                # are all missing rows in row groups the bound-in-list `not in` pruning rule drops?
                rule = all(not case["keepb"][r // 10] for r in dset if r not in gotset)
                out["viol"].append(("C13", dict(sig, what="a qualifying row is missing from the row-filtered read",
                                                explained_by_not_in_bound_rule=rule), ci))
            elif [r for r in got if r not in mset]:
                out["viol"].append(("C13", dict(sig, what="a non-qualifying row is returned by the row-filtered read",
                                                as_if_partition_atoms_were_ignored=(got == ms)), ci))
            if int(cntr) != len(got):
                out["viol"].append(("C13", dict(sig, what="filtered row count differs from the rows returned"), ci))
            # alignment of other columns with the selected rows
            if "x" in dfr.columns and len(dfr) == len(got):
                pos = {i * 10 + r: pool[i]["rows"][r]["x"] for i in idx for r in range(len(pool[i]["rows"]))}
                xs = list(dfr["x"])
                for rid, xv in zip(got, xs):
                    want = pos[rid]
                    isnull = xv is None or str(xv) in ("<NA>", "NaT", "nan", "None")
                    if (want == NULL) != isnull or (want != NULL and not _eq(xv, conc(cls, want))):
                        out["viol"].append(("C13", dict(sig, what="columns not aligned with the selected rows"), ci))
                        break
            if len(dfr) == len(got):
                for colname, fn in (("c", cat_of), ("w", wide_of)):
                    if colname in dfr.columns:
                        vals = [None if v != v else v for v in dfr[colname].astype(object)]
                        if vals != [fn(r) for r in got]:
                            out["viol"].append(("C13", dict(sig, what="categorical output column not aligned with the "
                                                                      "selected rows", column=colname), ci))
                            break
            if ms != got and len(out["drift"]) < 5:
                out["drift"].append({"what": "row selection differs from the mechanism model", "prog": pg,
                                     "real": got[:10], "model": ms[:10]})
    except BaseException:  # noqa
        out["error"] = traceback.format_exc()
    return out


def _eq(a, b):
    try:
        import numpy as np
        import pandas as pd
        if isinstance(b, np.datetime64):
            return pd.Timestamp(a) == pd.Timestamp(b)
        return a == b
    except Exception:
        return False


def mask_job(args):
    """a caller-supplied boolean row mask selects exactly the masked rows (all masks of <= 6 rows)"""
    jid, base = args
    fp = use_repo()
    import pandas as pd
    import numpy as np
    out = {"jid": jid, "viol": [], "evals": 0}
    try:
        for n, offs in ((1, [0]), (4, [0, 2]), (6, [0, 1, 4]), (6, [0, 3])):
            df = pd.DataFrame({"rid": np.arange(n, dtype="int64") + 500, "s": pd.Series(["m%d" % i for i in range(n)], dtype="str")})
            for v2 in (1, 2):
                path = os.path.join(base, "mask-%d-%d-%d" % (n, len(offs), v2))
                import fastparquet.writer as W
                old = W.DATAPAGE_VERSION
                W.DATAPAGE_VERSION = v2
                try:
                    fp.write(path, df, row_group_offsets=offs)
                finally:
                    W.DATAPAGE_VERSION = old
                pf = fp.ParquetFile(path)
                for m in range(2 ** n):
                    mask = np.array([(m >> i) & 1 == 1 for i in range(n)])
                    out["evals"] += 1
                    try:
                        got = pf.to_pandas(row_filter=mask)
                        ok = list(got["rid"]) == [500 + i for i in range(n) if mask[i]] and \
                            list(got["s"]) == ["m%d" % i for i in range(n) if mask[i]]
                    except BaseException as e:  # noqa
                        ok = False
                    if not ok:
                        out["viol"].append(("C13", {"what": "boolean row mask does not select exactly the masked rows",
                                                    "rows": n, "row_groups": len(offs), "page_version": v2}, m))
    except BaseException:  # noqa
        out["error"] = traceback.format_exc()
    return out


def run_filters(work, pool, cases, classes, chunk=60):
    fp = use_repo()
    import pandas as pd
    base = os.path.join(work, "filters-%d" % len(os.listdir(work)))
    os.makedirs(base)
    jobs = []
    for cls in classes:
        for ds in build_datasets(fp, pd, base, pool, cls):
            for c0 in range(0, len(cases), chunk):
                jobs.append((len(jobs), ds, pool, cases[c0:c0 + chunk], cls))
    res = pmap(eval_job, jobs, job_timeout=900)
    shutil.rmtree(base, ignore_errors=True)
    return jobs, res


VARIANT_CURRENT = {"NotInPrunesOnBound": True, "FlatListIsOr": False, "RowFilterSkipsPartition": True, "ZeroIsEmpty": False, "MaskedNulls": False}
VARIANT_REPAIRED = {"NotInPrunesOnBound": False, "FlatListIsOr": False, "RowFilterSkipsPartition": False, "ZeroIsEmpty": False, "MaskedNulls": False}
VARIANT_ASFOUND = {"NotInPrunesOnBound": True, "FlatListIsOr": True, "RowFilterSkipsPartition": True, "ZeroIsEmpty": False, "MaskedNulls": False}


def model_check(work, rgs, progs, variant, invariants, tag):
    cfg = os.path.join(work, "fmc-%s.cfg" % tag)
    c = {"MaxV": 3, "RowGroups": "<- " + rgs, "Programs": "<- " + progs}
    c.update(variant)
    T.write_cfg(cfg, spec="Spec", constants=c, invariants=invariants, check_deadlock=False)
    return T.run_tlc("FiltersMC", cfg, work, timeout=3000, coverage=True)


def filter_val_cases(work):
    """the (op, constants, min, max) lattice with the transcription's answer, for direct replay into filter_val"""
    cfg = os.path.join(work, "fvc.cfg")
    mod = os.path.join(work, "x")
    T.write_cfg(cfg, spec="ESpec", constants=dict({"MaxV": 3, "RowGroups": "<- RGsSingle1", "Programs": "<- FVProg"},
                                                 **VARIANT_CURRENT), invariants=["EmitFV"], check_deadlock=False)
    res = T.run_tlc("FiltersExport", cfg, work, timeout=1200)
    if not res.completed:
        raise T.TLCError("filter_val case export failed:\n" + res.out[-2000:])
    recs = [r for r in res.printed_json() if "fv" in r]
    return (recs[0]["fv"] if recs else []), res
