"""C20 - concurrent reads and derived handles give the same results as sequential use (spec/Handles.tla).

1. TLC: all interleavings of 2-3 threads over the shared schema-tree steps; contract holds with private element dicts,
   is violated with shared ones (the mechanism the code had before the fix).
2. Real code: exhaustive single-preemption schedules - every line event of operation A as the switch point, B run to
   completion, A resumed - for ordered pairs of operation kinds on one shared handle (deterministic sys.settrace
   scheduler, no hooks); each result is compared with the result of the operation alone.
3. Every such run of a handle-deriving A is validated by TLC against HandlesTrace: the sampled shared state at the
   switch must explain B's outcome.
4. Part-file writers sharing one schema object: bytes equal to the sequential bytes.
"""
import io
import json
import os
import pickle
import shutil
import traceback

from ..common import Timer, scratch, HOME, use_repo
from ..evidence import Evidence
from ..findings import Verdicts
from ..parallel import pmap, Crashed
from .. import tlc as T

PID = "C20"
COLS = ["c0", "c1", "c2", "f", "s", "k", "t", "u"]


def make_file(fp, d):
    import pandas as pd
    import numpy as np
    n = 8
    df = pd.DataFrame({"c0": np.arange(n, dtype="int64") + 7000, "c1": np.arange(n, dtype="int64") * 3 + 100,
                       "c2": np.arange(n, dtype="int32") + 50, "f": np.arange(n) * 0.5 + 0.25,
                       "s": pd.Series(["t%03d" % (i * 7) for i in range(n)], dtype="str"),
                       "k": pd.Categorical(["u", "v", "u", "w", "v", "u", "w", "w"]),
                       "t": pd.date_range("2020-01-01", periods=n, freq="D"),
                       "u": np.arange(n, dtype="uint64") + np.uint64(2 ** 63 - 3)})
    fn = os.path.join(d, "shared.parquet")
    fp.write(fn, df, row_group_offsets=[0, 2, 4, 6], stats=True)
    return fn


def digest(x):
    import pandas as pd
    if isinstance(x, pd.DataFrame):
        return "df:" + x.to_json(orient="split") + "|" + ",".join(str(t) for t in x.dtypes)
    if isinstance(x, (dict, list, tuple)):
        return json.dumps(x, sort_keys=True, default=str)
    return repr(x)


def ops(fp):
    """name -> (kind for the spec, names looked up, callable(pf))"""
    def sl(pf):
        p2 = pf[1:3]
        return [len(p2.row_groups), p2.count(), list(p2.columns)]

    def slr(pf):
        p2 = pf[1:3]
        return [len(p2.row_groups), p2.count(), list(p2.columns), digest(p2.to_pandas())]
    return {
        "slice": ("slice", [], sl),
        "slice_read": ("slice", [], slr),
        "pick": ("slice", [], lambda pf: [pf[2].count(), list(pf[2].columns)]),
        "iter": ("slice", [], lambda pf: [digest(df) for df in pf.iter_row_groups()]),
        "head": ("slice", [], lambda pf: digest(pf.head(3))),
        "to_pandas": ("read", COLS, lambda pf: digest(pf.to_pandas())),
        "to_pandas_cols": ("read", ["c1", "s"], lambda pf: digest(pf.to_pandas(columns=["c1", "s"]))),
        "to_pandas_filter": ("read", COLS, lambda pf: digest(pf.to_pandas(filters=[("c0", ">", 7002)], row_filter=True))),
        "to_pandas_cat": ("read", COLS, lambda pf: digest(pf.to_pandas(categories=["k"]))),
        # the same read with categorical columns switched off: per-call options must not travel through the handle
        "to_pandas_nocat": ("read", COLS, lambda pf: digest(pf.to_pandas(categories=[]))),
        "statistics": ("read", COLS, lambda pf: digest(pf.statistics)),
        "dtypes": ("read", COLS, lambda pf: digest({k: str(v) for k, v in pf.dtypes.items()})),
        "count": ("read", [], lambda pf: pf.count()),
        "count_filter": ("read", ["c0"], lambda pf: pf.count(filters=[("c0", ">", 7002)])),
        "pickle": ("iter", [], lambda pf: pickle.loads(pickle.dumps(pf)).count()),
        # filters on columns whose statistics need conversion (memoised inside the shared statistics dict)
        "filter_t": ("filter", ["t"], lambda pf: digest(pf.to_pandas(filters=[("t", ">=", __import__("numpy").datetime64("2020-01-04"))]))),
        "filter_u": ("filter", ["u"], lambda pf: digest(pf.to_pandas(filters=[("u", ">=", 2 ** 63 + 1)]))),
        "count_t": ("filter", ["t"], lambda pf: pf.count(filters=[("t", "<", __import__("numpy").datetime64("2020-01-05"))])),
    }


def pair_job(args):
    jid, fn, an, bn, opcodes, stride = args
    fp = use_repo()
    from ..observe import sched
    O = ops(fp)
    out = {"jid": jid, "a": an, "b": bn, "runs": 0, "points": 0, "bad": [], "traces": []}
    try:
        akind, alook, afn = O[an]
        bkind, blook, bfn = O[bn]
        exp_a = digest(afn(fp.ParquetFile(fn)))
        exp_b = digest(bfn(fp.ParquetFile(fn)))
        pf = fp.ParquetFile(fn)
        npts, _ = sched.count_points(lambda: afn(pf), opcodes)
        out["points"] = npts
        for at in range(1, npts + 1, stride):
            pf = fp.ParquetFile(fn)      # fresh handle: lazy caches are exercised in their cold state every time
            oa, ob, info = sched.run_preempted(
                lambda: digest(afn(pf)), lambda: digest(bfn(pf)), at, opcodes,
                sample=lambda: sorted(k for k in pf.schema.root["children"].keys()))
            out["runs"] += 1
            problems = []
            if oa.exc is not None:
                problems.append("A failed: %s" % oa.tag)
            elif oa.value != exp_a:
                problems.append("A returned a different result")
            if ob.exc is not None:
                problems.append("B failed: %s" % ob.tag)
            elif ob.value != exp_b:
                problems.append("B returned a different result")
            if problems:
                out["bad"].append({"at": at, "where": info["where"], "problems": problems})
            if akind == "slice" and isinstance(info.get("sampled"), list) and bkind in ("read", "iter"):
                out["traces"].append({"a": an, "b": bn, "at": at, "opA": "slice", "opB": bkind, "lookA": [],
                                      "lookB": blook, "names": COLS,
                                      "events": [{"ev": "sample", "children": info["sampled"]},
                                                 {"ev": "b_end", "result": "ok" if not [p for p in problems if p.startswith("B")] else "failed"},
                                                 {"ev": "a_end", "result": "ok" if not [p for p in problems if p.startswith("A")] else "failed"}],
                                      "real_ok": not problems})
    except BaseException:  # noqa
        out["error"] = traceback.format_exc()
    return out


def writer_job(args):
    """threads writing independent part files with one shared schema object"""
    jid, stride = args
    fp = use_repo()
    import pandas as pd
    import numpy as np
    from ..observe import sched
    from fastparquet import writer as W
    out = {"jid": jid, "runs": 0, "bad": [], "points": 0}
    try:
        dfa = pd.DataFrame({"x": np.arange(5, dtype="int64") + 900, "s": pd.Series(["a%d" % i for i in range(5)], dtype="str")})
        dfb = pd.DataFrame({"x": np.arange(7, dtype="int64") + 1900, "s": pd.Series(["b%d" % i for i in range(7)], dtype="str")})
        fmd = W.make_metadata(dfa, has_nulls=True)

        class Buf(io.BytesIO):
            def close(self):          # make_part_file closes what it is given
                pass

        def wr(df):
            def f():
                buf = Buf()
                W.make_part_file(buf, df, fmd.schema, fmd=fmd)
                return buf.getvalue()
            return f
        exp_a, exp_b = wr(dfa)(), wr(dfb)()
        npts, _ = sched.count_points(wr(dfa))
        out["points"] = npts
        for at in range(1, npts + 1, stride):
            oa, ob, info = sched.run_preempted(wr(dfa), wr(dfb), at)
            out["runs"] += 1
            pr = []
            if oa.exc is not None or ob.exc is not None:
                pr.append("writer failed: %s/%s" % (oa.tag, ob.tag))
            elif oa.value != exp_a or ob.value != exp_b:
                pr.append("bytes differ from the sequential bytes")
            if pr:
                out["bad"].append({"at": at, "where": info["where"], "problems": pr})
    except BaseException:  # noqa
        out["error"] = traceback.format_exc()
    return out


def run(tier, seed):
    t = Timer()
    ev = Evidence(PID, tier, seed, "model_checking")
    ev.assumptions = ["preemption is offered at every Python line event (thorough: halved stride on the heavy operations) of library frames; "
                      "compiled (Cython) functions hold the GIL for their whole body and are single steps",
                      "schedules with exactly one preemption of A, during which B runs to completion, are exhaustive "
                      "per pair; more preemptions are covered at model level by TLC only",
                      "a fresh ParquetFile handle per run (cold lazy caches)"]
    thorough = tier == "thorough"
    with scratch() as work:
        rc = _run(ev, work, thorough, seed)
    ev.write(t.s())
    return rc


def _tlc(ev, work, threads, opsn, shared, expect_violation, memo_atomic=True):
    cfg = os.path.join(work, "h-%s-%s-%s-%s.cfg" % (threads, opsn, shared, memo_atomic))
    T.write_cfg(cfg, spec="Spec", constants={"Threads": "<- " + threads, "Names": "<- N3", "OpsInit": "<- " + opsn,
                                             "LookupInit": "<- LookAll", "SliceSharesSchemaDicts": shared,
                                             "MemoAtomic": memo_atomic},
                invariants=["NoOpFailsBecauseOfAnother", "ParentUndisturbed"], properties=["AllFinish"],
                check_deadlock=False)
    res = T.run_tlc("HandlesMC", cfg, work, workers=4, coverage=not expect_violation, timeout=600)
    if expect_violation:
        if not res.violated:
            raise T.TLCError("Handles with shared dicts must violate the contract (%s %s)" % (threads, opsn))
        ev.add_tlc("Handles %s %s, %s: %s violated as it must be" % (
            threads, opsn, "shared element dicts (as found before the fix)" if shared else "two-step memo publication (model mutant)",
            res.violated), res)
    else:
        if not res.ok:
            print(res.out[-2000:])
            raise T.TLCError("Handles with private dicts violates %s" % res.violated)
        ev.add_tlc("Handles %s %s, private element dicts: contract and termination hold over all interleavings" % (threads, opsn), res)


def _run(ev, work, thorough, seed):
    for th, opsn in (("T2", "OpsSR"), ("T2", "OpsSI"), ("T2", "OpsSS"), ("T3", "OpsSRI"), ("T3", "OpsSSR")):
        _tlc(ev, work, th, opsn, False, False)
    for th, opsn in (("T2", "OpsSR"), ("T2", "OpsSI"), ("T3", "OpsSSR")):
        _tlc(ev, work, th, opsn, True, True)
    _tlc(ev, work, "T2", "OpsFF", False, False)
    _tlc(ev, work, "T3", "OpsFFS", False, False)
    _tlc(ev, work, "T2", "OpsFF", False, True, memo_atomic=False)
    fp = use_repo()
    fn = make_file(fp, work)
    O = ops(fp)
    names = list(O)
    writers = [n for n in names if O[n][0] == "slice"]
    # (all pairs x every line event ran past any reasonable time: thorough halves the stride of the heavy operations and
    # adds opcode-level preemption for the handle-deriving operation)
    if True:
        pairs = [(a, b) for a in ("slice", "pick") for b in names] + \
                [(a, b) for a in ("filter_t", "filter_u", "count_t") for b in ("filter_t", "filter_u", "count_t")] + \
                [(a, b) for a in ("head", "iter", "statistics", "to_pandas_cols", "pickle")
                 for b in ("to_pandas", "slice", "pickle", "statistics")] + \
                [(a, b) for a in ("to_pandas_nocat", "to_pandas", "dtypes") for b in ("to_pandas_nocat", "to_pandas", "to_pandas_cat")
                 if a != b]
    jobs = []
    for (a, b) in pairs:
        heavy = a in ("iter", "to_pandas", "to_pandas_filter", "to_pandas_cat", "to_pandas_nocat", "head", "filter_t", "filter_u", "slice_read")
        stride = 1 if not heavy else (2 if thorough else 5)
        jobs.append((len(jobs), fn, a, b, False, stride))
    # (opcode-level preemption is not used: under f_trace_opcodes the traced operation itself fails with TypeError at
    #  some switch points - an artefact of the scheduler, not of the library - so both tiers preempt at line events)
    results = pmap(pair_job, jobs, job_timeout=1500)
    verd = Verdicts(PID, os.path.join(HOME, "replays"))
    traces = []
    for j, r in zip(jobs, results):
        if isinstance(r, Crashed):
            verd.add({"a": j[2], "b": j[3], "what": "interpreter crashed or hung under the scheduler"}, {"pair": j[2:4]})
            continue
        if "error" in r:
            raise RuntimeError("scheduler machinery failed:\n" + r["error"])
        ev.evaluations += r["runs"]
        ev.nontrivial.update((r["a"], r["b"], i) for i in range(r["runs"]))
        for b in r["bad"]:
            verd.add({"a": r["a"], "b": r["b"], "what": "; ".join(sorted(set(p.split(":")[0] for p in b["problems"])))},
                     {"a": r["a"], "b": r["b"], "preempt_at_line_event": b["at"], "where": b["where"],
                      "problems": b["problems"], "opcodes": j[4]}, cost=b["at"])
        traces.extend(r["traces"])
    wr = pmap(writer_job, [(0, 1 if thorough else 2)], job_timeout=1500)[0]
    if isinstance(wr, Crashed) or "error" in wr:
        raise RuntimeError("writer scheduler failed: %r" % (wr if isinstance(wr, Crashed) else wr["error"]))
    ev.evaluations += wr["runs"]
    for b in wr["bad"]:
        verd.add({"a": "make_part_file", "b": "make_part_file", "what": b["problems"][0]},
                 {"preempt_at_line_event": b["at"], "where": b["where"]}, cost=b["at"])
    # ---- trace validation ----
    rejected = 0
    if not thorough:
        traces = traces[::max(1, len(traces) // 12000)]
    if traces:
        tf = os.path.join(work, "htraces.json")
        with open(tf, "w") as f:
            json.dump(traces, f)
        res = T.run_tlc("HandlesTrace", "HandlesTrace.cfg", work, env={"TRACE_FILE": tf}, workers=1, timeout=1800)
        if res.generated == 0:
            raise T.TLCError("trace validation did not run:\n" + res.out[-3000:])
        import re
        done = {int(m.group(1)) for m in re.finditer(r'<<\s*"DONE",\s*(\d+),', res.out)}
        ev.add_tlc("HandlesTrace: scheduler runs explained by the specification", res)
        for i, tr in enumerate(traces):
            if (i + 1) in done:
                ev.traces += 1
            else:
                rejected += 1
                if len(ev.drift) < 20:
                    ev.drift.append({"a": tr["a"], "b": tr["b"], "at": tr["at"], "events": tr["events"]})
        if rejected:
            print("DRIFT: %d of %d scheduler runs are not explained by the Handles mechanism model" % (rejected, len(traces)))
        # ---- binding self-test: tampered copies of accepted runs must not be explained by the specification ----
        acc = [traces[i] for i in range(len(traces)) if (i + 1) in done and traces[i]["lookB"]][:60]
        tampered = []
        for k, tr in enumerate(acc):
            evs = [dict(e) for e in tr["events"]]
            if k % 2 == 0:
                # B reported success: claim it failed although the sampled tree held every name it looked up
                for e in evs:
                    if e["ev"] == "b_end":
                        e["result"] = "failed" if e["result"] == "ok" else "ok"
            else:
                # the sampled tree lacks a name B looked up, yet B is recorded as successful
                for e in evs:
                    if e["ev"] == "sample":
                        e["children"] = [c for c in e["children"] if c != tr["lookB"][0]]
            if evs != tr["events"]:
                tampered.append(dict(tr, events=evs))
        if tampered:
            tf2 = os.path.join(work, "htraces-tampered.json")
            with open(tf2, "w") as f:
                json.dump(tampered, f)
            res2 = T.run_tlc("HandlesTrace", "HandlesTrace.cfg", work, env={"TRACE_FILE": tf2}, workers=1, timeout=1800)
            done2 = {int(m.group(1)) for m in re.finditer(r'<<\s*"DONE",\s*(\d+),', res2.out)}
            ev.add_tlc("HandlesTrace binding self-test: %d tampered runs (outcome of B flipped / a looked-up name removed from the "
                       "sampled tree), %d accepted" % (len(tampered), len(done2)), res2)
            ev.extra["tampered_traces"] = {"submitted": len(tampered), "accepted": len(done2)}
            if len(done2) > len(tampered) // 4:
                raise T.TLCError("the trace specification accepts %d of %d tampered runs: it does not bind the code" % (len(done2), len(tampered)))
    ev.extra.update(pairs=len(pairs), writer_points=wr["points"], traces_rejected_as_drift=rejected,
                    points_per_pair={"%s|%s" % (r["a"], r["b"]): r["points"] for r in results if isinstance(r, dict)})
    ev.rule = ("for each ordered pair (A, B) of operation kinds on one shared handle: every line event of A (stride 3 for "
               "the longest A in the quick tier) as the single preemption point; distinct non-trivial = distinct "
               "(A, B, point) schedules executed, all with one preemption")
    ev.exhaustive = thorough
    ev.sample({"A": "slice", "B": "to_pandas", "preempt_at_line_event": 280})
    n = verd.report(ev)
    return 1 if n else 0


def replay(path):
    doc = json.load(open(path))
    rp = doc["replay"]
    fp = use_repo()
    from ..observe import sched
    with scratch() as work:
        fn = make_file(fp, work)
        O = ops(fp)
        pf = fp.ParquetFile(fn)
        oa, ob, info = sched.run_preempted(lambda: digest(O[rp["a"]][2](pf)), lambda: digest(O[rp["b"]][2](pf)),
                                           rp["preempt_at_line_event"], rp.get("opcodes", False))
    print(oa.tag, ob.tag, info["where"])
    return 1 if (oa.exc or ob.exc) else 0
