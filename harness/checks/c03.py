"""C03 - valid flat Parquet files from any writer decode to exactly what they encode (spec/Format.tla).

TLC enumerates valid layouts of one column (row-group and page splits, page version, encoding per page with dictionary
fallback, run structures of definition levels and dictionary indices, index bit widths, codec, v2 compression flag,
created_by) together with the logical cells; the independent encoder harness/pqspec renders each layout to bytes (and
re-reads it itself: a layout pqspec cannot read back is a machinery error, not a verdict); fastparquet has to return
exactly the cells, in a dtype of the right kind, or raise."""
import datetime
import io
import json
import os
import traceback

from ..common import Timer, scratch, HOME, use_repo, seed as seed_env
from ..evidence import Evidence
from ..findings import Verdicts
from ..parallel import pmap, Crashed
from .. import tlc as T
from ..pqspec import writer as PW, reader as PR

PID = "C03"

# kind -> (physical type, converted type, concretisation of abstract value k, expected pandas dtype kind)
def kind_info(kind):
    import numpy as np
    K = {
        "int32": ("INT32", None, lambda k: [-2000000000, -7, 11, 2147483647][k], "i"),
        "int64": ("INT64", None, lambda k: [-(2 ** 62) - 99, -7, 11, 2 ** 63 - 1][k], "i"),
        "int16": ("INT32", "INT_16", lambda k: [-32000, -7, 11, 32767][k], "i"),
        "uint8": ("INT32", "UINT_8", lambda k: [0, 7, 128, 255][k], "u"),
        "uint32": ("INT32", "UINT_32", lambda k: [0, 7, 2 ** 31, 2 ** 32 - 1][k], "u"),
        "uint64": ("INT64", "UINT_64", lambda k: [0, 7, 2 ** 63, 2 ** 64 - 2][k], "u"),
        "double": ("DOUBLE", None, lambda k: [-1.5e300, -0.25, 0.75, 3.5e10][k], "f"),
        "float": ("FLOAT", None, lambda k: [-1.5e10, -0.25, 0.75, 3.5][k], "f"),
        "utf8": ("BYTE_ARRAY", "UTF8", lambda k: ["", "Bcd", "aéz", "zz中"][k], "O"),
        "bytes": ("BYTE_ARRAY", None, lambda k: [b"", b"\x00\x01", b"abc", b"\xff\xfe"][k], "O"),
        "bool": ("BOOLEAN", None, lambda k: [False, True, True, False][k], "b"),
        "date": ("INT32", "DATE", lambda k: [-400, -1, 0, 18000][k], "M"),
        "ts_ms": ("INT64", "TIMESTAMP_MILLIS", lambda k: [-86400000 * 400, -1, 0, 1600000000123][k], "M"),
        "ts_us": ("INT64", "TIMESTAMP_MICROS", lambda k: [-86400000000 * 400, -1, 0, 1600000000123456][k], "M"),
        "time_ms": ("INT32", "TIME_MILLIS", lambda k: [0, 1, 3600000, 86399999][k], "m"),
        "decimal32": ("INT32", "DECIMAL", lambda k: [-12345, -1, 0, 99999][k], "f"),
        "int96": ("INT96", None, lambda k: [0, 1, 86399 * 10 ** 9, 5 * 10 ** 9][k], "M"),
        "decimal64": ("INT64", "DECIMAL", lambda k: [-12345, -1, 0, 99999][k], "f"),
        "decimal_ba": ("BYTE_ARRAY", "DECIMAL", lambda k: [-12345, -1, 0, 99999][k], "f"),
        "decimal_flba": ("FIXED_LEN_BYTE_ARRAY", "DECIMAL", lambda k: [-12345, -1, 0, 99999][k], "f"),
        # wide fixed-length decimals (9 and 16 bytes): small negative values have an all-ones high word
        "decimal_flba9": ("FIXED_LEN_BYTE_ARRAY", "DECIMAL", lambda k: [-12345, -5, 0, 10 ** 15 + 7][k], "f"),
        "decimal_flba16": ("FIXED_LEN_BYTE_ARRAY", "DECIMAL", lambda k: [-150000, -5, 0, 10 ** 20 + 700][k], "f"),
        "time_us": ("INT64", "TIME_MICROS", lambda k: [0, 1, 3600000000, 86399999999][k], "m"),
        "int8": ("INT32", "INT_8", lambda k: [-128, -7, 11, 127][k], "i"),
        "uint16": ("INT32", "UINT_16", lambda k: [0, 7, 32768, 65535][k], "u"),
        "json": ("BYTE_ARRAY", "JSON", lambda k: [{"a": 1}, [1, 2], "s", {"b": None}][k], "O"),
        "ts_ns_logical": ("INT64", None, lambda k: [-86400000000000 * 400, -1, 0, 1600000000123456789][k], "M"),
        "flba": ("FIXED_LEN_BYTE_ARRAY", None, lambda k: [b"abc", b"\x00\x00\x01", b"zzz", b"\xff\x00a"][k], "O"),
    }
    return K[kind]


def physical(kind, k):
    pt, ct, f, _ = kind_info(kind)
    v = f(k)
    if kind == "json":
        return json.dumps(v).encode()
    if pt == "BYTE_ARRAY" and isinstance(v, str):
        return v.encode("utf8")
    if kind in ("uint32",) and v >= 2 ** 31:
        return v - 2 ** 32
    if kind in ("uint64",) and v >= 2 ** 63:
        return v - 2 ** 64
    if kind == "decimal_ba":
        return int(v).to_bytes(max(1, (int(v).bit_length() + 8) // 8), "big", signed=True)
    if kind == "decimal_flba":
        return int(v).to_bytes(3, "big", signed=True)
    if kind in ("decimal_flba9", "decimal_flba16"):
        return int(v).to_bytes(9 if kind == "decimal_flba9" else 16, "big", signed=True)
    if kind == "int96":
        return int(v).to_bytes(8, "little") + (2440588 + k).to_bytes(4, "little")
    if kind == "float":
        import numpy as np
        return float(np.float32(v))
    return v


def expected_cell(kind, k):
    """what the reader must give for abstract value k (compared through equal())"""
    pt, ct, f, _ = kind_info(kind)
    return f(k)


def equal(kind, got, k):
    import numpy as np
    import pandas as pd
    missing = got is None or got is pd.NaT or got is pd.NA or (isinstance(got, float) and got != got)
    try:
        if not missing and pd.isna(got):
            missing = True
    except (TypeError, ValueError):
        pass
    if k < 0:
        return missing
    if missing:
        return False
    want = expected_cell(kind, k)
    try:
        if kind == "date":
            return pd.Timestamp(got) == pd.Timestamp(0) + pd.Timedelta(days=want)
        if kind == "ts_ms":
            return pd.Timestamp(got) == pd.Timestamp(want, unit="ms")
        if kind == "ts_us":
            return pd.Timestamp(got) == pd.Timestamp(want, unit="us")
        if kind == "int96":
            return pd.Timestamp(got) == pd.Timestamp(0) + pd.Timedelta(days=k) + pd.Timedelta(want, unit="ns")
        if kind == "time_ms":
            if isinstance(got, datetime.time):
                ms = ((got.hour * 60 + got.minute) * 60 + got.second) * 1000 + got.microsecond // 1000
                return ms == want
            return pd.Timedelta(got) == pd.Timedelta(want, unit="ms")
        if kind in ("decimal32", "decimal64", "decimal_ba", "decimal_flba"):
            return abs(float(got) - want / 100.0) < 1e-9
        if kind in ("decimal_flba9", "decimal_flba16"):
            return abs(float(got) - want / 100.0) <= 1e-9 + 1e-12 * abs(want / 100.0)
        if kind == "time_us":
            if isinstance(got, datetime.time):
                return (((got.hour * 60 + got.minute) * 60 + got.second) * 1000000 + got.microsecond) == want
            return pd.Timedelta(got) == pd.Timedelta(want, unit="us")
        if kind == "json":
            return got == want
        if kind == "ts_ns_logical":
            return pd.Timestamp(got) == pd.Timestamp(want, unit="ns")
        if kind == "utf8":
            return (got.decode("utf8") if isinstance(got, bytes) else str(got)) == want
        if kind in ("bytes", "flba"):
            return bytes(got) == want
        if kind == "bool":
            return bool(got) == want
        if kind in ("double", "float"):
            return float(got) == float(np.float32(want) if kind == "float" else want)
        return int(got) == want
    except Exception:
        return False


def make_spec(case):
    kind = case["kind"]
    pt, ct, f, _ = kind_info(kind)
    node = {"name": "x", "type": pt, "repetition": "OPTIONAL" if case["optional"] else "REQUIRED", "converted_type": ct}
    if pt == "FIXED_LEN_BYTE_ARRAY":
        node["type_length"] = {"decimal_flba9": 9, "decimal_flba16": 16}.get(kind, 3)
    if kind in ("decimal32", "decimal64", "decimal_ba", "decimal_flba"):
        node["scale"], node["precision"] = 2, 7
    if kind in ("decimal_flba9", "decimal_flba16"):
        node["scale"], node["precision"] = 2, (20 if kind == "decimal_flba9" else 38)
    if kind == "ts_ns_logical":
        node["logical_type"] = {"TIMESTAMP": {"isAdjustedToUTC": False, "unit": {"NANOS": {}}}}
    cells = case["cells"]
    rgs = []
    for g in case["rgs"]:
        pad = g.get("pad", 0) if g["usedict"] else 0
        # unused dictionary entries in front of the used ones (any values of the right type will do)
        dictionary = ([physical(kind, j % 4) for j in range(pad)] + [physical(kind, k) for k in g["dict"]]) if g["usedict"] else None
        pages = []
        for p in g["pages"]:
            rows = cells[p["a"] - 1:p["b"]]
            nonnull = [k for k in rows if k >= 0]
            enc = {"PLAIN": "PLAIN", "DICT": "DICT", "RLE": "RLE", "DELTA": "DELTA_BINARY_PACKED"}[p["enc"]]
            values = [pad + g["dict"].index(k) for k in nonnull] if enc == "DICT" else [physical(kind, k) for k in nonnull]
            page = {"version": p["v"], "encoding": enc, "values": values,
                    "def_levels": [0 if k < 0 else 1 for k in rows] if case["optional"] else None,
                    "def_runs": [tuple(r) for r in p["def_runs"]] if (case["optional"] and p["def_runs"]) else None,
                    "index_runs": [tuple(r) for r in p["index_runs"]] if (enc == "DICT" and p["index_runs"]) else None,
                    "index_width": p["index_width"] if enc == "DICT" else None,
                    "is_compressed": {"absent": None, "true": True, "false": False}[p["compressed"]]}
            pages.append(page)
        rgs.append({"num_rows": g["b"] - g["a"] + 1,
                    "columns": [{"path": ["x"], "codec": case["codec"], "dictionary": dictionary, "pages": pages,
                                 "statistics": {"exact": "auto", "new": "auto-new"}.get(case.get("stats"))}]})
    if not rgs:
        rgs = []
    return {"created_by": "parquet-mr version 1.12.0 (build abc)" if case["creator"] == "other"
            else "fastparquet-python version 2024.2.0 (build 0)",
            "schema": [node], "row_groups": rgs}


def case_sig(case):
    """root-cause class of a layout: the dimension that known reader defects hang on"""
    pages = [p for g in case["rgs"] for p in g["pages"]]
    widths = [p["index_width"] for p in pages if p["enc"] == "DICT"]
    bp = any(r[0] == "bp" for p in pages for r in p["index_runs"])
    if case.get("read") == "categories" and len({json.dumps([g["pad"], g["dict"]]) for g in case["rgs"] if g["b"] >= g["a"]}) > 1:
        cause = "categories= read of row groups whose dictionaries differ (the last dictionary read labels every row group)"
    elif any(p["enc"] == "DELTA" for p in pages):
        cause = "delta-binary-packed page"
    elif (case["creator"] != "other" and case.get("stats") == "exact" and case["optional"]
          and any(all(k >= 0 for k in case["cells"][g["a"] - 1:g["b"]]) and
                  any(p["v"] == 1 and not (len(p["def_runs"]) == 1 and p["def_runs"][0][0] == "rle") for p in g["pages"])
                  for g in case["rgs"])):
        cause = "null-free OPTIONAL chunk (null_count = 0) whose level block is not one RLE run, in a file whose created_by names fastparquet"
    elif widths and max(widths) >= 25 and bp:
        cause = "bit-packed dictionary indices of width >= 25"
    elif widths and case["creator"] != "other" and any(w in (8, 16, 32) for w in widths):
        cause = "index width 8/16/32 in a file whose created_by names fastparquet"
    else:
        cause = "none known"
    return {"cause": cause}


def replay_chunk(args):
    jid, cases = args
    fp = use_repo()
    import numpy as np
    out = {"jid": jid, "viol": [], "evals": 0, "unsupported_ok": 0, "machinery": []}
    for ci, case in enumerate(cases):
        sig = case_sig(case)
        try:
            data = PW.build_file(make_spec(case))
            fv = PR.read_file(data, strict=True)
            back = fv.column("x") if not fv.problems else None
            want_phys = [None if k < 0 else physical(case["kind"], k) for k in case["cells"]]
            if fv.problems or back != want_phys:
                out["machinery"].append({"what": "pqspec cannot read back its own file", "problems": fv.problems[:2], "sig": sig})
                continue
        except Exception as e:  # noqa
            out["machinery"].append({"what": "pqspec could not build the file: %r" % (e,), "sig": sig})
            continue
        out["evals"] += 1
        if os.environ.get("VERIF_SAN_MARK"):
            import sys
            sys.stderr.write("@@case %s\n" % json.dumps({"kind": case["kind"], "n": case["n"], "optional": case["optional"],
                                                         "creator": case["creator"], "stats": case.get("stats"),
                                                         "cause": sig["cause"],
                                                         "pages": [[p["v"], p["enc"], p["index_width"], p["def_runs"], p["index_runs"]]
                                                                   for g in case["rgs"] for p in g["pages"]][:4]}))
            sys.stderr.flush()
        try:
            pf = fp.ParquetFile(io.BytesIO(data))
            if case.get("read") == "categories":
                try:
                    df = pf.to_pandas(categories=["x"])
                except ValueError as e:
                    if "dictionary encoding" in str(e):
                        out["unsupported_ok"] += 1     # refused with an error: every chunk must be dictionary encoded
                        continue
                    raise
                except RuntimeError as e:
                    if "cannot accommodate number of category labels" in str(e):
                        out["unsupported_ok"] += 1     # refused with an error: categories={column: n} is needed for that many
                        continue
                    raise
            else:
                df = pf.to_pandas()
        except NotImplementedError:
            out["unsupported_ok"] += 1
            continue
        except AssertionError as e:
            if "not implemented" in str(e):
                out["unsupported_ok"] += 1        # refused with an error: allowed for layouts outside the supported set
                continue
            out["viol"].append((dict(sig, what="valid file refused or reader failed", exc="AssertionError"), ci))
            continue
        except BaseException as e:  # noqa
            out["viol"].append((dict(sig, what="valid file refused or reader failed", exc=type(e).__name__), ci))
            continue
        if list(df.columns) != ["x"] or len(df) != len(case["cells"]):
            out["viol"].append((dict(sig, what="wrong shape"), ci))
            continue
        col = df["x"]
        vals = list(col.astype(object)) if str(col.dtype) == "category" else list(col)
        bad = [i for i, (g, k) in enumerate(zip(vals, case["cells"])) if not equal(case["kind"], g, k)]
        if bad:
            kindw = "missingness" if any(case["cells"][i] < 0 for i in bad) or any(
                (vals[i] is None or vals[i] != vals[i]) for i in bad if not isinstance(vals[i], (bytes, str))) else "value"
            out["viol"].append((dict(sig, what="decoded %s differs from what the file encodes" % kindw), ci))
            continue
        want_kind = kind_info(case["kind"])[3]
        k = col.dtype.kind if hasattr(col.dtype, "kind") else "O"
        okk = (k == want_kind or (want_kind in "iu" and k in "iuf" and any(c < 0 for c in case["cells"]))
               or (want_kind in "iu" and k in "iu") or (want_kind == "b" and k in "bO")
               or (want_kind == "O" and k in "OTU") or (want_kind == "f") or (want_kind == "m" and k in "mO")
               or str(col.dtype) in ("Int32", "Int64", "Int16", "Int8", "UInt8", "UInt32", "UInt64", "boolean", "str", "string"))
        if not okk and len(col):
            out["viol"].append((dict(sig, what="dtype of a different kind than the schema implies", got=str(col.dtype)), ci))
            continue
        if case.get("stats") in ("exact", "new") and case.get("read") != "categories":
            # the statistics of a foreign file are decoded by the row-group pruner and by ParquetFile.statistics: a filter
            # on a value that is there must not fail, and must not lose the rows that hold it (row-group granularity)
            present = [g for g, k in zip(vals, case["cells"]) if k >= 0]
            if present:
                v0 = present[0]
                n_want = sum(1 for g, k in zip(vals, case["cells"]) if k >= 0 and _same(g, v0))
                try:
                    pf2 = fp.ParquetFile(io.BytesIO(data))
                    pf2.statistics
                    sub = pf2.to_pandas(filters=[("x", "==", v0)])
                    n_got = sum(1 for g in list(sub["x"]) if _same(g, v0))
                    if n_got < n_want:
                        out["viol"].append((dict(sig, what="filtered read of the file loses rows that hold the value asked for",
                                                 stats=case["stats"]), ci))
                except (TypeError, ValueError, NotImplementedError):
                    out["unsupported_ok"] += 1       # a comparison the column's type does not support: refused with an error
                except BaseException as e:  # noqa
                    out["viol"].append((dict(sig, what="statistics of a valid file make a filtered read fail",
                                             exc=type(e).__name__, stats=case["stats"]), ci))
    return out


def _same(a, b):
    try:
        r = a == b
        return bool(r) if not hasattr(r, "all") else bool(r.all())
    except Exception:  # noqa
        return False


LATTICES = {
    # name: constants
    "A-dict-index-widths-and-runs": dict(Kinds="KindInt", RowCounts="Rows3", NullPats="PatsFew", Optionals="BoolBoth",
                                         RgSplits=1, PageSplits=2, Encodings="EncDict", DefRunStyles="RunsRle",
                                         IndexRunStyles="RunsAll", IndexWidthStyles="WidthsAll", Codecs="CodecNone",
                                         CompressedFlags="FlagAbsent", Creators="CreatorsBoth"),
    "C-definition-level-runs": dict(Kinds="KindsDict", RowCounts="Rows6b", NullPats="PatsAll", Optionals="OnlyOpt", StatsChoices="StatsBoth",
                                    RgSplits=1, PageSplits=2, Encodings="EncPlain", DefRunStyles="RunsAll",
                                    IndexRunStyles="RunsRle", IndexWidthStyles="WidthMin", Codecs="CodecNone",
                                    CompressedFlags="FlagAbsent", Creators="CreatorsBoth"),
    "D-page-and-row-group-splits-with-fallback": dict(Kinds="KindInt", RowCounts="Rows6", NullPats="PatsAlt",
                                                      Optionals="BoolBoth", RgSplits=2, PageSplits=3, Encodings="EncDict",
                                                      DefRunStyles="RunsRle", IndexRunStyles="RunsRle",
                                                      IndexWidthStyles="WidthMin", Codecs="CodecNone",
                                                      CompressedFlags="FlagAbsent", Creators="CreatorOther"),
    "E-types": dict(Kinds="KindsAll", RowCounts="Rows3", NullPats="PatsFew", Optionals="BoolBoth", RgSplits=1, PageSplits=1,
                    Encodings="EncAll", DefRunStyles="RunsRle", IndexRunStyles="RunsRle", IndexWidthStyles="WidthMin",
                    Codecs="CodecNone", CompressedFlags="FlagAbsent", Creators="CreatorOther"),
    "F-codecs-and-compression-flag": dict(Kinds="KindsDict", RowCounts="Rows3", NullPats="PatsFew", Optionals="BoolBoth",
                                          RgSplits=1, PageSplits=2, Encodings="EncDict", DefRunStyles="RunsRle",
                                          IndexRunStyles="RunsRle", IndexWidthStyles="WidthMin", Codecs="CodecsAll",
                                          CompressedFlags="FlagsAll", Creators="CreatorOther"),
    "G-dictionary-with-unused-entries": dict(Kinds="KindsDict", RowCounts="Rows4", NullPats="PatsFew", Optionals="BoolBoth",
                                             RgSplits=1, PageSplits=1, Encodings="EncDict", DefRunStyles="RunsRle",
                                             IndexRunStyles="RunsAll", IndexWidthStyles="WidthsMinPlus", Codecs="CodecNone",
                                             CompressedFlags="FlagAbsent", Creators="CreatorsBoth", DictPads="PadsEdges"),
    "H-statistics-old-and-new-style": dict(Kinds="KindsAll", RowCounts="Rows3", NullPats="PatsFew", Optionals="BoolBoth", RgSplits=2,
                                           PageSplits=1, Encodings="EncPlain", DefRunStyles="RunsRle", IndexRunStyles="RunsRle",
                                           IndexWidthStyles="WidthMin", Codecs="CodecNone", CompressedFlags="FlagAbsent",
                                           Creators="CreatorOther", StatsChoices="StatsPresent"),
}
FULL = dict(Kinds="KindsAll", RowCounts="Rows6", NullPats="PatsAll", Optionals="BoolBoth", RgSplits=2, PageSplits=3,
            Encodings="EncAll", DefRunStyles="RunsAll", IndexRunStyles="RunsAll", IndexWidthStyles="WidthsAll",
            Codecs="CodecsAll", CompressedFlags="FlagsAll", Creators="CreatorsBoth", DictPads="PadsSmall", StatsChoices="StatsBoth")


def export(work, consts, tag, simulate=None, seed=0):
    cfg = os.path.join(work, "fmt-%s.cfg" % tag)
    c = {k: ("<- " + v if isinstance(v, str) else v) for k, v in consts.items()}
    c.setdefault("ValPats", "<- ValsPerm")
    c.setdefault("Versions", "<- V12")
    c.setdefault("DictPads", "<- PadNone")
    c.setdefault("StatsChoices", "<- StatsAbsent")
    T.write_cfg(cfg, spec="Spec", constants=c, invariants=["Valid", "Export"], check_deadlock=False)
    if simulate:
        res = T.run_tlc("FormatMC", cfg, work, timeout=1800, simulate="num=%d" % simulate, depth=40, seed=seed, workers=8)
    else:
        res = T.run_tlc("FormatMC", cfg, work, timeout=3000)
        if not res.completed:
            raise T.TLCError("Format export %s failed:\n%s" % (tag, res.out[-2000:]))
    return res.printed_json(), res


def run(tier, seed):
    t = Timer()
    ev = Evidence(PID, tier, seed, "model_checking")
    ev.assumptions = ["bytes are rendered by the independent encoder harness/pqspec (its primitive codecs are checked against "
                      "Codec.tla vectors in C11); a layout pqspec cannot read back itself is excluded as machinery error",
                      "one column per file; nullable-extension dtype choice is C17's business",
                      "cross-dimension interactions beyond the exhaustive sub-lattices are sampled by tlc -simulate (seeded)"]
    with scratch() as work:
        rc = _run(ev, work, tier == "thorough", seed)
    ev.write(t.s())
    return rc


def _run(ev, work, thorough, seed):
    verd = Verdicts(PID, os.path.join(HOME, "replays"))
    allcases = []
    for name, consts in LATTICES.items():
        cases, res = export(work, consts, name.split("-")[0])
        ev.add_tlc("Format sub-lattice %s (exhaustive)" % name, res, layouts=len(cases))
        for c in cases:
            c["lattice"] = name
        allcases.extend(cases)
    sim, res = export(work, FULL, "sim", simulate=12000 if thorough else 1500, seed=seed)
    seen = set()
    uniq = []
    for c in sim:
        key = json.dumps(c, sort_keys=True)
        if key not in seen:
            seen.add(key)
            c["lattice"] = "simulated"
            uniq.append(c)
    ev.add_tlc("Format full product sampled by tlc -simulate", res, layouts=len(uniq))
    ev.tlc_runs[-1]["note"] = "simulation: states counted are those visited, not a complete graph"
    allcases.extend(uniq)
    # the same layouts read with categories=[column] (dictionary-encoded text columns): every third of them
    catv = [dict(c, read="categories") for c in allcases
            if c["kind"] == "utf8" and c["n"] > 0 and all(p["enc"] == "DICT" for g in c["rgs"] for p in g["pages"])][::3]
    ev.extra["categorical_read_variants"] = len(catv)
    allcases.extend(catv)
    chunks = [allcases[i::96] for i in range(96)]
    jobs = [(i, c) for i, c in enumerate(chunks) if c]
    results = pmap(replay_chunk, jobs, job_timeout=900)
    mach = 0
    unsupported = 0
    for j, r in zip(jobs, results):
        if isinstance(r, Crashed):
            single = pmap(replay_chunk, [(k, [c]) for k, c in enumerate(j[1])], job_timeout=120)
            for c, rr in zip(j[1], single):
                if isinstance(rr, Crashed):
                    verd.add(dict(case_sig(c), what="interpreter crashed or hung reading a valid file"), {"case": c})
                else:
                    mach, unsupported = _collect(ev, verd, rr, [c], mach, unsupported)
            continue
        mach, unsupported = _collect(ev, verd, r, j[1], mach, unsupported)
    ev.extra.update(layouts=len(allcases), refused_as_unsupported=unsupported, excluded_machinery=mach)
    if mach:
        print("MACHINERY: %d layouts excluded because the independent encoder could not produce/read them" % mach)
    for c in allcases:
        if c["n"] > 0:
            ev.nontrivial.add(json.dumps({k: c[k] for k in c if k != "lattice"}, sort_keys=True))
    ev.rule = ("layouts = every terminal state of Format.tla in six exhaustive sub-lattices (dictionary index widths x run "
               "structures; definition-level run structures x null patterns; page/row-group splits with dictionary "
               "fallback; type table; codec x v2 compression flag; dictionaries with unused leading entries so that indices straddle 2^7, 2^8, 2^15, 2^16) plus seeded simulation of the full product; non-trivial "
               "= distinct layouts with at least one row")
    ev.exhaustive = False
    ev.sample({k: allcases[0][k] for k in allcases[0]})
    n = verd.report(ev)
    return 1 if n else 0


def _collect(ev, verd, r, cases, mach, unsupported):
    if not isinstance(r, dict):
        raise RuntimeError("replay machinery failed: %s" % (r,))
    ev.evaluations += r["evals"]
    mach += len(r["machinery"])
    unsupported += r["unsupported_ok"]
    for m in r["machinery"][:2]:
        if len(ev.drift) < 20:
            ev.drift.append(m)
    for sig, ci in r["viol"]:
        verd.add(sig, {"case": cases[ci]}, cost=cases[ci]["n"])
    return mach, unsupported


def replay(path):
    doc = json.load(open(path))
    r = replay_chunk((0, [doc["replay"]["case"]]))
    print(json.dumps(r, indent=1, default=str)[:3000])
    return 1 if r["viol"] else 0
