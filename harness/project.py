"""Projection of real files to the abstract state of the specifications."""
import io
import os

from . import minithrift as mt


def tail_view(data):
    """Independent look at a Parquet file image: what does a reader find at the end?

    lenient: magic at both ends, declared length n fits, a FileMetaData parses at end-8-n (and ends within n).
    strict : additionally the parsed footer is exactly n bytes long."""
    T = len(data)
    v = {"size": T, "lenient": False, "strict": False, "why": None, "footer_start": None,
         "declared": None, "parsed": None, "kv": None, "num_rows": None, "rg_rows": None, "fmd": None}
    if T < 12:
        v["why"] = "too short"
        return v
    if data[:4] != b"PAR1" or data[-4:] != b"PAR1":
        v["why"] = "magic"
        return v
    n = int.from_bytes(data[-8:-4], "little")
    v["declared"] = n
    if n < 1 or n > T - 12:
        v["why"] = "declared length %d out of range" % n
        return v
    start = T - 8 - n
    v["footer_start"] = start
    try:
        fmd, end = mt.read_struct(data[:T - 8], start)
    except (mt.Malformed, RecursionError, MemoryError) as e:
        v["why"] = "footer does not parse: %s" % e
        return v
    v["parsed"] = end - start
    # minimal shape of FileMetaData: 1 version, 2 schema, 3 num_rows, 4 row_groups
    if not (isinstance(fmd.get(1), int) and isinstance(fmd.get(2), list) and isinstance(fmd.get(3), int)
            and isinstance(fmd.get(4), list)):
        v["why"] = "parsed struct is not a FileMetaData"
        return v
    v["fmd"] = fmd
    v["lenient"] = True
    v["strict"] = (end - start == n)
    v["kv"] = {kvs.get(1): kvs.get(2) for kvs in fmd.get(5, []) if isinstance(kvs, dict)}
    v["num_rows"] = fmd[3]
    v["rg_rows"] = [rg.get(3) for rg in fmd[4]]
    return v


def user_kv(kv):
    """key-value metadata minus the keys the library itself maintains."""
    out = {}
    for k, val in (kv or {}).items():
        kb = k.encode() if isinstance(k, str) else k
        vb = val.encode() if isinstance(val, str) else val
        if kb in (b"pandas", b"PANDAS_ATTRS"):
            continue
        out[kb] = vb
    return out


def read_rows(fastparquet, path, **kw):
    """Rows of a dataset through the library under test, as a list of tuples (columns sorted by name)."""
    pf = fastparquet.ParquetFile(path, **kw)
    df = pf.to_pandas()
    cols = sorted(df.columns)
    rows = [tuple(_norm(df[c].iloc[i]) for c in cols) for i in range(len(df))]
    return pf, cols, rows


def _norm(x):
    try:
        import pandas as pd
        if x is None or x is pd.NA or x is pd.NaT:
            return None
        if isinstance(x, float) and x != x:
            return None
    except Exception:
        pass
    if hasattr(x, "item"):
        try:
            return x.item()
        except Exception:
            return x
    return x
