"""Run TLC (and Apalache) on the specifications and parse what they report."""
import json
import os
import re
import shutil
import subprocess

from .common import SPEC, NCPU, scratch

JAR = "/opt/veriftools/tla/tla2tools.jar"
DEPS = "/opt/veriftools/tla/CommunityModules-deps.jar"


class TLCError(RuntimeError):
    """Machinery failure (parse error, crash, timeout) - never a verdict."""


class TLCResult:
    def __init__(self, out, rc):
        self.out = out
        self.rc = rc
        self.generated = 0
        self.distinct = 0
        self.depth = 0
        m = None
        for m in re.finditer(r"(\d+) states generated, (\d+) distinct states found", out):
            pass
        if m:
            self.generated, self.distinct = int(m.group(1)), int(m.group(2))
        m = re.search(r"The depth of the complete state graph search is (\d+)", out)
        if m:
            self.depth = int(m.group(1))
        self.completed = "Model checking completed. No error has been found." in out
        self.violated = None           # name of violated invariant / property
        m = re.search(r"Error: Invariant (\S+) is violated", out)
        if m:
            self.violated = m.group(1)
        m2 = re.search(r"Error: The invariant of (\S+) is equal to FALSE", out)      # constant-level invariant
        if m2 and not self.violated:
            self.violated = m2.group(1)
        m = re.search(r"Error: Action property (\S+) is violated", out)
        if m:
            self.violated = m.group(1)
        if "Error: Temporal properties were violated" in out:
            self.violated = self.violated or "temporal"
        self.postcondition_false = bool(re.search(r"[Pp]ostcondition.*(is false|violated)", out))
        self.deadlock = "Error: Deadlock reached" in out
        self.assume_false = "Assumption" in out and "is false" in out
        self.coverage = {}
        # coverage lines:  <Action line 12, col 1 to line 14, col 30 of module M>: 12:34
        for m in re.finditer(r"^<(\w+) line \d+, col \d+ to line \d+, col \d+ of module (\w+)(?: \([^)]*\))?>: (\d+):(\d+)",
                             out, re.M):
            self.coverage[m.group(1)] = max(self.coverage.get(m.group(1), 0), int(m.group(4)))
        self.errors = [l for l in out.splitlines() if l.startswith("Error:")]

    def covered(self, name):
        """distinct states produced by a named action (TLC reports either the wrapper Do<X> or the inner <X>)"""
        alts = {name, "Do" + name, name[2:] if name.startswith("Do") else name}
        return max([self.coverage.get(a, 0) for a in alts] + [0])

    @property
    def ok(self):
        return self.completed and not self.errors

    def printed_json(self):
        """Values printed by PrintT(ToJson(x)): one TLA+ string literal per line."""
        res = []
        for line in self.out.splitlines():
            if line.startswith('"') and line.endswith('"'):
                try:
                    res.append(json.loads(json.loads(line)))
                except Exception:
                    pass
        return res

    def trace_states(self):
        """Counterexample states as printed by TLC: list of (header, text)."""
        return re.findall(r"^State (\d+): <([^>]*)>\n((?:(?!^State |\n\d+ states generated).*\n)*)", self.out, re.M)


def run_tlc(module, cfg, workdir, env=None, workers=None, timeout=1200, coverage=False,
            simulate=None, depth=None, seed=None, dfs=False, deadlock=None, extra=()):
    """Run TLC on spec/<module>.tla with spec/cfg/<cfg> (or an absolute cfg path).

    workdir: scratch directory for the metadir.  Returns TLCResult.  Raises TLCError on machinery failure."""
    cfgp = cfg if os.path.isabs(cfg) else os.path.join(SPEC, "cfg", cfg)
    meta = os.path.join(workdir, "meta-%s-%d" % (os.path.basename(cfgp), os.getpid()))
    os.makedirs(meta, exist_ok=True)
    cmd = ["java", "-XX:+UseParallelGC", "-Xmx8g"]
    if dfs:
        cmd.append("-Dtlc2.tool.queue.IStateQueue=StateDeque")
    cmd += ["-cp", JAR + ":" + DEPS, "tlc2.TLC", "-metadir", meta, "-noGenerateSpecTE",
            "-workers", str(workers or NCPU), "-config", cfgp]
    if coverage:
        cmd += ["-coverage", "1"]
    if simulate:
        cmd += ["-simulate", simulate]
    if depth:
        cmd += ["-depth", str(depth)]
    if seed is not None:
        cmd += ["-seed", str(seed)]
    if deadlock is False:
        cmd += ["-deadlock"]
    cmd += list(extra)
    cmd.append(os.path.join(SPEC, module + ".tla"))
    e = dict(os.environ)
    e.pop("JAVA_TOOL_OPTIONS", None)
    if env:
        e.update({k: str(v) for k, v in env.items()})
    try:
        p = subprocess.run(cmd, cwd=SPEC, env=e, stdout=subprocess.PIPE, stderr=subprocess.STDOUT,
                           timeout=timeout, text=True)
    except subprocess.TimeoutExpired as ex:
        subprocess.run(["pkill", "-f", meta], check=False)
        raise TLCError("TLC timed out after %ss on %s/%s" % (timeout, module, cfg)) from ex
    finally:
        shutil.rmtree(meta, ignore_errors=True)
    res = TLCResult(p.stdout, p.returncode)
    if ("Parsing or semantic analysis failed" in p.stdout or "*** Errors:" in p.stdout
            or "Exception in thread" in p.stdout or "TLC threw an unexpected exception" in p.stdout
            or "java.lang." in p.stdout and "Error" in p.stdout and not res.violated and res.generated == 0):
        raise TLCError("TLC failed on %s/%s:\n%s" % (module, cfg, p.stdout[-4000:]))
    return res


def sany(module):
    p = subprocess.run(["java", "-cp", JAR + ":" + DEPS, "tla2sany.SANY", os.path.join(SPEC, module + ".tla")],
                       cwd=SPEC, stdout=subprocess.PIPE, stderr=subprocess.STDOUT, text=True)
    ok = p.returncode == 0 and "Semantic errors" not in p.stdout and "*** Errors" not in p.stdout \
        and "Fatal errors" not in p.stdout and "Could not find module" not in p.stdout
    return ok, p.stdout


def write_cfg(path, spec=None, init=None, next_=None, constants=None, invariants=(), properties=(),
              constraint=None, action_constraint=None, postcondition=None, view=None, check_deadlock=None,
              symmetry=None):
    """Emit a TLC configuration file with literal constants."""
    lines = []
    if spec:
        lines.append("SPECIFICATION %s" % spec)
    if init:
        lines.append("INIT %s" % init)
    if next_:
        lines.append("NEXT %s" % next_)
    if constants:
        lines.append("CONSTANTS")
        for k, v in constants.items():
            lines.append("  %s = %s" % (k, tla_value(v)) if not (isinstance(v, str) and v.startswith("<-"))
                         else "  %s %s" % (k, v))
    for i in invariants:
        lines.append("INVARIANT %s" % i)
    for p in properties:
        lines.append("PROPERTY %s" % p)
    if constraint:
        lines.append("CONSTRAINT %s" % constraint)
    if action_constraint:
        lines.append("ACTION_CONSTRAINT %s" % action_constraint)
    if postcondition:
        lines.append("POSTCONDITION %s" % postcondition)
    if view:
        lines.append("VIEW %s" % view)
    if symmetry:
        lines.append("SYMMETRY %s" % symmetry)
    if check_deadlock is not None:
        lines.append("CHECK_DEADLOCK %s" % ("TRUE" if check_deadlock else "FALSE"))
    with open(path, "w") as f:
        f.write("\n".join(lines) + "\n")
    return path


def tla_value(v):
    """Python value -> TLA+ cfg literal."""
    if isinstance(v, bool):
        return "TRUE" if v else "FALSE"
    if isinstance(v, int):
        return str(v)
    if isinstance(v, str):
        return '"%s"' % v
    if isinstance(v, (set, frozenset)):
        return "{" + ", ".join(tla_value(x) for x in sorted(v, key=repr)) + "}"
    if isinstance(v, (list, tuple)):
        return "<<" + ", ".join(tla_value(x) for x in v) + ">>"
    if isinstance(v, Raw):
        return v.text
    raise TypeError(v)


class Raw:
    def __init__(self, text):
        self.text = text
