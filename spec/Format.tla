------------------------------- MODULE Format -------------------------------
(***************************************************************************)
(* "Any valid writer" for one flat column (C03): a nondeterministic        *)
(* generator of VALID Parquet layouts together with the logical column     *)
(* they encode.  The layout is chosen step by step (row-group split, page  *)
(* split, per page: version, encoding, run structures of the definition    *)
(* levels and of the dictionary indices, index bit width, compression      *)
(* flag); validity constraints of the format are the actions' guards.      *)
(* The independent encoder (harness/pqspec) renders every exported layout  *)
(* to bytes; the real reader has to return exactly `cells`.                *)
(*                                                                         *)
(* A logical column: n cells over values 0..NV-1 or NULL (patterns as in   *)
(* ColumnWriter).  Physical/converted types are classes the harness        *)
(* concretises ("kind").                                                   *)
(***************************************************************************)
EXTENDS Integers, Sequences, FiniteSets, TLC

CONSTANTS Kinds,        \* column kinds (records: name, optional-capable, dictable, deltable, boolrle)
          RowCounts, NullPats, ValPats,
          Optionals,    \* subset of BOOLEAN
          RgSplits,     \* maximum number of row groups
          PageSplits,   \* maximum pages per chunk
          Versions, Encodings, DefRunStyles, IndexRunStyles, IndexWidthStyles, Codecs, CompressedFlags, Creators,
          StatsChoices, \* chunk statistics the writer records: "absent" | "exact" (min_value / max_value, the deprecated
                        \* min / max where the two orders agree, null_count; readers take short cuts on them) | "new"
                        \* (min_value / max_value and null_count only, as current writers do for text)
          DictPads      \* numbers of UNUSED entries a writer may put in front of the used ones in a dictionary page

NULL == -1
NV == 4
IsNull(pat, i, n) == CASE pat = "none" -> FALSE [] pat = "all" -> TRUE [] pat = "first" -> i = 1
                       [] pat = "last" -> i = n [] pat = "alt" -> i % 2 = 0
ValOf(vp, i) == CASE vp = "perm" -> (i * 3 + 1) % NV [] vp = "const" -> 2 [] vp = "asc" -> (i - 1) % NV
Cell(c, i) == IF c.optional /\ IsNull(c.nullpat, i, c.n) THEN NULL ELSE ValOf(c.valpat, i)

(* all ways to cut 1..n into at most k consecutive non-empty pieces: sets of cut points *)
Cuts(n, k) == {S \in SUBSET (1..(n - 1)) : Cardinality(S) <= k - 1}
RECURSIVE PiecesFrom(_, _, _)
PiecesFrom(start, cuts, n) ==
  IF start > n THEN <<>>
  ELSE LET later == {c \in cuts : c >= start}
           e == IF later = {} THEN n ELSE CHOOSE c \in later : \A d \in later : c <= d
       IN <<[a |-> start, b |-> e]>> \o PiecesFrom(e + 1, cuts, n)

(* explicit run structures over a list of small integers (levels or indices) *)
RECURSIVE MaxRle(_)
MaxRle(L) == IF L = <<>> THEN <<>>
             ELSE LET k == CHOOSE m \in 1..Len(L) : (\A j \in 1..m : L[j] = L[1]) /\ (m = Len(L) \/ L[m + 1] # L[1])
                  IN <<<<"rle", k>>>> \o MaxRle(SubSeq(L, k + 1, Len(L)))
AllBp(L) == IF L = <<>> THEN <<>> ELSE <<<<"bp", (Len(L) + 7) \div 8>>>>
RleThenBp(L) == IF Len(L) <= 1 THEN MaxRle(L) ELSE <<<<"rle", 1>>>> \o AllBp(SubSeq(L, 2, Len(L)))
Runs(style, L) == CASE style = "rle" -> MaxRle(L) [] style = "bp" -> AllBp(L) [] style = "mixed" -> RleThenBp(L)

VARIABLES col,      \* the logical column and global choices
          pc, rgs,  \* row groups built so far: Seq([a, b, dict, pages])
          todoRg,   \* remaining row-group ranges
          cur,      \* chunk under construction
          todoPg    \* remaining page ranges of the current chunk
vars == <<col, pc, rgs, todoRg, cur, todoPg>>

Cols == [kind : Kinds, n : RowCounts, nullpat : NullPats, valpat : ValPats, optional : Optionals,
         codec : Codecs, creator : Creators, stats : StatsChoices]
Sensible(c) == /\ (c.nullpat # "none" => c.optional)
               /\ (c.n = 0 => c.nullpat = "none" /\ c.valpat = "const")

Init == /\ col \in {c \in Cols : Sensible(c)}
        /\ pc = "rowgroups" /\ rgs = <<>> /\ todoRg = <<>> /\ cur = <<>> /\ todoPg = <<>>

ChooseRowGroups ==
  /\ pc = "rowgroups"
  /\ \E cuts \in Cuts(col.n, RgSplits) : todoRg' = PiecesFrom(1, cuts, col.n)
  /\ pc' = "chunk" /\ UNCHANGED <<col, rgs, cur, todoPg>>

(* values present in rows a..b, in order of first appearance: a valid dictionary *)
RECURSIVE Distinct(_, _)
Distinct(vals, seen) == IF vals = <<>> THEN <<>>
                        ELSE IF Head(vals) \in seen THEN Distinct(Tail(vals), seen)
                             ELSE <<Head(vals)>> \o Distinct(Tail(vals), seen \cup {Head(vals)})
NonNullSeq(a, b) == SelectSeq([i \in 1..(b - a + 1) |-> Cell(col, a + i - 1)], LAMBDA v : v # NULL)

BeginChunk ==
  /\ pc = "chunk" /\ todoRg # <<>>
  /\ LET r == Head(todoRg) IN
     \E usedict \in (IF col.kind.dictable /\ "DICT" \in Encodings THEN BOOLEAN ELSE {FALSE}) :
     \E cuts \in Cuts(r.b - r.a + 1, PageSplits) : \E pad \in (IF usedict THEN DictPads ELSE {0}) :
       /\ cur' = [a |-> r.a, b |-> r.b, dict |-> IF usedict THEN Distinct(NonNullSeq(r.a, r.b), {}) ELSE <<>>,
                  usedict |-> usedict, pad |-> pad, pages |-> <<>>, fellback |-> FALSE]
       /\ todoPg' = [p \in DOMAIN PiecesFrom(1, cuts, r.b - r.a + 1) |->
                       [a |-> r.a + PiecesFrom(1, cuts, r.b - r.a + 1)[p].a - 1,
                        b |-> r.a + PiecesFrom(1, cuts, r.b - r.a + 1)[p].b - 1]]
  /\ pc' = "page" /\ UNCHANGED <<col, rgs, todoRg>>

IndexOf(d, v) == CHOOSE j \in DOMAIN d : d[j] = v
RECURSIVE BitLen(_)
BitLen(m) == IF m = 0 THEN 0 ELSE 1 + BitLen(m \div 2)
MinWidth(n) == IF n <= 1 THEN 0 ELSE BitLen(n - 1)       \* bits of the largest index n - 1
WidthFor(style, n) == CASE style = "min" -> MinWidth(n) [] style = "plus1" -> MinWidth(n) + 1
                        [] style = "w8" -> 8 [] style = "w16" -> 16 [] style = "w32" -> 32 [] style = "w17" -> 17

DataPage ==
  /\ pc = "page" /\ todoPg # <<>>
  /\ LET p == Head(todoPg)
         levels == [i \in 1..(p.b - p.a + 1) |-> IF Cell(col, p.a + i - 1) = NULL THEN 0 ELSE 1]
         vals == NonNullSeq(p.a, p.b)
     IN \E v \in Versions : \E enc \in Encodings : \E ds \in DefRunStyles \cup {"rle"} : \E is \in IndexRunStyles \cup {"rle"} :
        \E ws \in IndexWidthStyles \cup {"min"} : \E cf \in CompressedFlags \cup {"absent"} :
          \* validity of the choice
          /\ (enc = "DICT" => cur.usedict /\ ~cur.fellback)            \* no dictionary page after falling back
          /\ (enc = "RLE" => col.kind.boolrle)
          /\ (enc = "DELTA" => col.kind.deltable)
          /\ (enc # "DICT" => is = "rle" /\ ws = "min")               \* irrelevant choices pinned
          /\ (~col.optional => ds = "rle")
          /\ (col.optional => ds \in DefRunStyles) /\ (enc = "DICT" => is \in IndexRunStyles /\ ws \in IndexWidthStyles)
          /\ (enc = "DICT" => WidthFor(ws, Len(cur.dict) + cur.pad) >= MinWidth(Len(cur.dict) + cur.pad))
          /\ (v = 2 => cf \in CompressedFlags)
          /\ (v = 1 => cf = "absent")                                 \* the flag exists in v2 headers only
          /\ (col.codec = "UNCOMPRESSED" => cf \in {"absent", "true"})
          /\ LET idx == [j \in DOMAIN vals |-> IndexOf(cur.dict, vals[j]) - 1 + cur.pad]
                 pg == [a |-> p.a, b |-> p.b, v |-> v, enc |-> enc,
                        def_runs |-> IF col.optional THEN Runs(ds, levels) ELSE <<>>,
                        index_runs |-> IF enc = "DICT" THEN Runs(is, idx) ELSE <<>>,
                        index_width |-> IF enc = "DICT" THEN WidthFor(ws, Len(cur.dict) + cur.pad) ELSE 0,
                        compressed |-> cf]
             IN cur' = [cur EXCEPT !.pages = Append(@, pg), !.fellback = (@ \/ (cur.usedict /\ enc # "DICT"))]
  /\ todoPg' = Tail(todoPg) /\ UNCHANGED <<col, pc, rgs, todoRg>>

EndChunk ==
  /\ pc = "page" /\ todoPg = <<>>
  /\ rgs' = Append(rgs, cur) /\ todoRg' = Tail(todoRg) /\ cur' = <<>> /\ pc' = "chunk"
  /\ UNCHANGED <<col, todoPg>>
Finish == /\ pc = "chunk" /\ todoRg = <<>> /\ pc' = "done" /\ UNCHANGED <<col, rgs, todoRg, cur, todoPg>>

Next == ChooseRowGroups \/ BeginChunk \/ DataPage \/ EndChunk \/ Finish
Spec == Init /\ [][Next]_vars

(* CONTRACT of a valid file: pages tile chunks, chunks tile the column; what a reader must return is `Cells` *)
Cells == [i \in 1..col.n |-> Cell(col, i)]
Valid == pc = "done" =>
  /\ \A g \in DOMAIN rgs : /\ rgs[g].pages # <<>> \/ rgs[g].b < rgs[g].a
                           /\ \A p \in 1..(Len(rgs[g].pages) - 1) : rgs[g].pages[p].b + 1 = rgs[g].pages[p + 1].a
                           /\ (rgs[g].pages # <<>> => rgs[g].pages[1].a = rgs[g].a /\ rgs[g].pages[Len(rgs[g].pages)].b = rgs[g].b)
  /\ \A g \in 1..(Len(rgs) - 1) : rgs[g].b + 1 = rgs[g + 1].a
=============================================================================
