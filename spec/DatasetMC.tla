----------------------------- MODULE DatasetMC -----------------------------
(* model values for Dataset: frame sets (cfg files cannot hold tuples) *)
EXTENDS Dataset
FramesSmall == { <<{1}>>, <<{1,2}>>, <<{2,3}>>, <<{1,2},{1,2}>>, <<{3},{1}>> }
FramesTiny  == { <<{1}>>, <<{1,2}>>, <<{2},{1,2}>> }
FramesWide  == { <<{1}>>, <<{2}>>, <<{1,2}>>, <<{2,3}>>, <<{1,2,3}>>, <<{1,2},{1,2}>>, <<{3},{1}>>, <<{1},{2},{3}>> }
(* part numbers are rendered as decimal text in file names: a frame long enough to cross 9 -> 10 *)
Long11      == [c \in 1..11 |-> {1}]
FramesLong  == { <<{1}>>, <<{1,2}>>, Long11 }
(* an empty chunk (two equal row-group offsets) consumes a part number but writes no file: a gap in the ids *)
FramesGap   == { <<{1}>>, <<{1}, {}, {2}>>, <<{1,2}>> }
OpsAll == {"append", "overwrite", "remove", "wrg"}
OpsAppend == {"append"}
(* appends through write(append=True) interleaved with changes made through a handle (write_row_groups, remove_row_groups) *)
OpsMixed == {"append", "wrg", "remove"}
(* appends after removals: a removed non-last row group leaves a HOLE in the part numbers the next append must not reuse *)
OpsAppendRemove == {"append", "remove"}
FramesOne == { <<{1}>>, <<{1,2}>> }
BoolBoth == {TRUE, FALSE}
OnlyPartitioned == {TRUE}
=============================================================================
