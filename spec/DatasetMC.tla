----------------------------- MODULE DatasetMC -----------------------------
(* model values for Dataset: frame sets (cfg files cannot hold tuples) *)
EXTENDS Dataset
FramesSmall == { <<{1}>>, <<{1,2}>>, <<{2,3}>>, <<{1,2},{1,2}>>, <<{3},{1}>> }
FramesTiny  == { <<{1}>>, <<{1,2}>>, <<{2},{1,2}>> }
FramesWide  == { <<{1}>>, <<{2}>>, <<{1,2}>>, <<{2,3}>>, <<{1,2,3}>>, <<{1,2},{1,2}>>, <<{3},{1}>>, <<{1},{2},{3}>> }
OpsAll == {"append", "overwrite", "remove", "wrg"}
OpsAppend == {"append"}
BoolBoth == {TRUE, FALSE}
OnlyPartitioned == {TRUE}
=============================================================================
