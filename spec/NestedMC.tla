------------------------------ MODULE NestedMC ------------------------------
EXTENDS Nested, Json, SequencesExt
BoolBoth == {TRUE, FALSE}
OnlyTrue == {TRUE}
V2 == {1, 2}
RowJson(r) == IF r = NULLROW THEN [null |-> TRUE, elems |-> <<>>] ELSE [null |-> FALSE, elems |-> r]
Export == pc = "done" => PrintT(ToJson([rows |-> [i \in DOMAIN rows |-> RowJson(rows[i])], lopt |-> lopt, eopt |-> eopt,
                                         cuts |-> SetToSeq(cuts), stream |-> Stream,
                                         model_ok |-> (~misplaced /\ assign = rows)]))
=============================================================================
