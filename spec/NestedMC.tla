------------------------------ MODULE NestedMC ------------------------------
EXTENDS Nested, Json, SequencesExt
BoolBoth == {TRUE, FALSE}
OnlyTrue == {TRUE}
V2 == {1, 2}
RowJson(r) == IF r = NULLROW THEN [null |-> TRUE, elems |-> <<>>] ELSE [null |-> FALSE, elems |-> r]
Export == pc = "done" => PrintT(ToJson([rows |-> [i \in DOMAIN rows |-> RowJson(rows[i])], lopt |-> lopt, eopt |-> eopt,
                                         cuts |-> SetToSeq(cuts), stream |-> Stream,
                                         model_ok |-> (~misplaced /\ assign = rows), misplaced |-> misplaced,
                                         mech |-> [i \in DOMAIN assign |-> IF assign[i] = NULLROW \/ assign[i] = <<-7>>
                                                                            THEN [null |-> TRUE, elems |-> <<>>]
                                                                            ELSE [null |-> FALSE, elems |-> assign[i]]]]))
=============================================================================
