--------------------------- MODULE SingleFileTrace ---------------------------
(* code -> spec: file-handle call traces recorded from the real               *)
(* update_file_custom_metadata / write(append=True), one trace per operation, *)
(* are checked to be behaviours of SingleFile's mechanism actions with the    *)
(* logged positions, sizes and values bound; the contract predicates are      *)
(* evaluated on the state TLC reconstructs after the last event.              *)
(* Thousands of traces are validated per TLC run (trace id `tid`).            *)
EXTENDS SingleFile, Json, IOUtils, TLCExt

Traces == JsonDeserialize(IOEnv.TRACE_FILE)

VARIABLES tid, l, intact
tvars == <<vars, tid, l, intact>>

T  == Traces[tid]
Ev == T.events[l]
IsEvent(name) == l <= Len(T.events) /\ Ev.ev = name /\ l' = l + 1 /\ tid' = tid

(* a clean file as the harness found it before the operation:                 *)
(* magic, one opaque data extent up to dataEnd, footer of n0 bytes, trailer   *)
TInit ==
  /\ tid \in 1..Len(Traces) /\ l = 1 /\ intact = TRUE /\ TLCSet(tid, 0)
  /\ LET t == Traces[tid]
         dsz == t.init.dataEnd - 4
         rgs == IF dsz > 0 THEN <<1>> ELSE <<>>
         kv0 == [k \in Keys |-> t.init.kv[k]]
         d   == Whole(<<"D", 1, 1, 1>>, dsz)
     IN /\ isMeta = t.init.meta
        /\ com = Content(rgs, kv0)
        /\ rgext = IF dsz > 0 THEN <<[off |-> 4, ext |-> <<d>>]>> ELSE <<>>
        /\ nrg = Len(rgs)
        /\ file = Norm(<<MagicExt>> \o (IF dsz > 0 THEN <<d>> ELSE <<>>)
                       \o <<FootExt(Content(rgs, kv0), t.init.n0), LenExt(t.init.n0), MagicExt>>)
  /\ pos = -1 /\ pc = "idle" /\ op = NoOp /\ nops = 0 /\ last = "none"

Upd(e) == [k \in Keys |-> e.upd[k]]

TKvBegin  == IsEvent("kv_begin") /\ KvBegin(Upd(Ev), Ev.ord)
TKvTail   == IsEvent("kv_tail") /\ KvTail /\ pc' = "kv_parse" /\ op'.hsize = Ev.hsize /\ op'.loc = Ev.loc
TKvParse  == IsEvent("kv_parse") /\ KvParse /\ pc' = "kv_write" /\ Ev.n = FLen(file) - op.loc
TKvFooter == IsEvent("kv_footer") /\ KvWriteFooter(Ev.n) /\ Ev.at = op.loc
TKvLen    == IsEvent("kv_len") /\ KvWriteLen /\ Ev.at = pos /\ Ev.val = op.n
TKvMagic  == IsEvent("kv_magic") /\ KvWriteMagic /\ Ev.at = pos
TKvTrunc  == IsEvent("kv_trunc") /\ KvTruncate /\ Ev.size = pos
(* an implementation that does not truncate is still a behaviour to be judged *)
(* by the contract, not rejected: the truncation step is skipped              *)
TKvClose  == /\ IsEvent("kv_close")
             /\ \/ KvClose
                \/ /\ pc = "kv_trunc" /\ com' = op.new /\ pc' = "idle" /\ pos' = -1 /\ last' = "ok" /\ op' = op
                   /\ UNCHANGED <<file, isMeta, rgext, nrg, nops>>
             /\ Ev.size = FLen(file')

TAppBegin  == IsEvent("app_begin") /\ AppBegin(Ev.k, Ev.failg, Ev.failc, Ev.why, FALSE) /\ pc' = "app_tail"
TAppFail   == IsEvent("app_fail") /\ AppFail /\ Ev.size = FLen(file')
TAppTail   == IsEvent("app_tail") /\ AppTail /\ pc' = "app_rgs" /\ pos' = Ev.pos
TAppChunk  == IsEvent("app_chunk") /\ AppWriteChunk(Ev.n) /\ Ev.at = pos
TAppFooter == IsEvent("app_footer") /\ AppWriteFooter(Ev.n) /\ Ev.at = pos
TAppLen    == IsEvent("app_len") /\ AppWriteLen /\ Ev.at = pos /\ Ev.val = op.n
TAppMagic  == IsEvent("app_magic") /\ AppWriteMagic /\ Ev.at = pos
TAppTrunc  == IsEvent("app_trunc") /\ AppTruncate /\ Ev.size = pos
TAppClose  == /\ IsEvent("app_close")
              /\ \/ AppClose
                 \/ /\ pc = "app_trunc" /\ com' = op.new /\ pc' = "idle" /\ pos' = -1 /\ last' = "ok" /\ op' = op
                    /\ UNCHANGED <<file, isMeta, rgext, nrg, nops>>
              /\ Ev.size = FLen(file')

TNext ==
  /\ \/ TKvBegin \/ TKvTail \/ TKvParse \/ TKvFooter \/ TKvLen \/ TKvMagic \/ TKvTrunc \/ TKvClose
     \/ TAppBegin \/ TAppTail \/ TAppChunk \/ TAppFooter \/ TAppLen \/ TAppMagic \/ TAppTrunc \/ TAppClose \/ TAppFail
  /\ intact' = (intact /\ Range(file', 0, DataEnd) = Range(file, 0, DataEnd))

TSpec == TInit /\ [][TNext]_tvars

(* verdict lines, one per fully consumed trace; the harness reads them *)
Done == l = Len(T.events) + 1
Report == Done => PrintT(<<"DONE", tid,
                           ReaderFinds(file) = {com},
                           \A i \in 1..Len(com.rgs) : RgReadable(file, com.rgs[i]),
                           StrictLayout(file), intact, Idle>>)
(* longest matched prefix per trace, for diagnosing rejections (-workers 1) *)
Progress == TLCSet(tid, IF TLCGet(tid) > l THEN TLCGet(tid) ELSE l)
PrintRegs == \A i \in 1..Len(Traces) : PrintT(<<"PROG", i, TLCGet(i)>>)
=============================================================================
