----------------------------- MODULE Partition -----------------------------
(***************************************************************************)
(* Directory-partitioned write and read (C08).                              *)
(*                                                                         *)
(* ROUTING (write_multi + partition_on_columns): the frame is cut into      *)
(* chunks by the row-group offsets; each chunk is grouped by the tuple of   *)
(* partition values; every non-empty group with non-null keys becomes one   *)
(* part file  <dir of the key tuple>/part.<chunk number>.parquet ; rows     *)
(* with a null key are dropped; groups are visited in sorted key order.     *)
(* CONTRACT: every row with non-null keys is stored in the directory named  *)
(* by its key values and nowhere else; the multiset of those rows is        *)
(* preserved; no empty file is written.                                     *)
(*                                                                         *)
(* TYPED PATH (path_string / val_to_num / val_from_meta): a partition value *)
(* of kind K is rendered to a path segment and parsed back on read; in the  *)
(* hive layout (key=value) the kind and value must come back, in the drill  *)
(* layout only the text.  Text classes instead of concrete strings.         *)
(***************************************************************************)
EXTENDS Integers, Sequences, FiniteSets, TLC

CONSTANTS NRows,         \* rows of the frame
          KeyVals,       \* values of the first partition column (NULLK = missing)
          KeyVals2,      \* values of the second partition column ({NoCol} = only one column)
          KeyVals3,      \* values of the third partition column ({NoCol} = at most two columns)
          Offsets,       \* set of row-group offset lists (sequences of 0-based starts)
          IndexKinds     \* row labels of the frame: "range" | "repeated" (labels occur twice) | "shuffled"; with
                         \* write_index=False they are not stored and must not influence which row goes where

NULLK == -1
NoCol == -9

VARIABLES frame,   \* row -> [k1, k2, k3]
          offs, pc, files, chunk, ixk
vars == <<frame, offs, pc, files, chunk, ixk>>

Frames == [1..NRows -> [k1 : KeyVals, k2 : KeyVals2, k3 : KeyVals3]]
Init == /\ frame \in Frames /\ offs \in Offsets /\ pc = "chunks" /\ files = {} /\ chunk = 1 /\ ixk \in IndexKinds

RowsOfChunk(c) == LET a == offs[c] + 1
                      b == IF c < Len(offs) THEN offs[c + 1] ELSE NRows
                  IN {r \in a..b : r <= NRows}
KeyOf(r) == <<frame[r].k1, frame[r].k2, frame[r].k3>>
HasNull(r) == frame[r].k1 = NULLK \/ frame[r].k2 = NULLK \/ frame[r].k3 = NULLK

(* one chunk: one part file per key tuple present among its rows with non-null keys *)
WriteChunk ==
  /\ pc = "chunks" /\ chunk <= Len(offs)
  /\ LET rows == {r \in RowsOfChunk(chunk) : ~HasNull(r)}
         keys == {KeyOf(r) : r \in rows}
     IN files' = files \cup {[key |-> k, part |-> chunk - 1, rows |-> {r \in rows : KeyOf(r) = k}] : k \in keys}
  /\ chunk' = chunk + 1 /\ UNCHANGED <<frame, offs, pc, ixk>>
Finish == pc = "chunks" /\ chunk > Len(offs) /\ pc' = "done" /\ UNCHANGED <<frame, offs, files, chunk, ixk>>
Next == WriteChunk \/ Finish
Spec == Init /\ [][Next]_vars

Done == pc = "done"
Kept == {r \in 1..NRows : ~HasNull(r)}
RowsRoutedToTheirKeyDirectory == Done => \A f \in files : \A r \in f.rows : KeyOf(r) = f.key
MultisetPreserved == Done => /\ UNION {f.rows : f \in files} = Kept
                             /\ \A f, g \in files : f # g => f.rows \cap g.rows = {}
NoEmptyFile == \A f \in files : f.rows # {}

----------------------------------------------------------------------------
(* typed path: kinds and text classes *)
Kinds == {"int", "float", "bool", "datetime", "str", "numstr", "cat"}
(* what val_to_num(text) yields without metadata, by the class of the text *)
TextClass(kind) == CASE kind = "int" -> "intlike" [] kind = "float" -> "floatlike" [] kind = "bool" -> "boollike"
                     [] kind = "datetime" -> "isotime" [] kind = "str" -> "other" [] kind = "numstr" -> "intlike"
                     [] kind = "cat" -> "other"
ParsedKind(textclass) == CASE textclass = "intlike" -> "int" [] textclass = "floatlike" -> "float"
                           [] textclass = "boollike" -> "bool" [] textclass = "isotime" -> "datetime"
                           [] textclass = "other" -> "str"
(* hive: the pandas metadata records the partition columns' dtypes, so the kind is restored from it *)
RoundTripKindHive(kind) == IF kind = "cat" THEN "str" ELSE IF kind = "numstr" THEN "str" ELSE kind
(* without metadata the text class decides: numeric-looking text comes back as a number *)
RoundTripKindNoMeta(kind) == ParsedKind(TextClass(kind))
KindPreservedWithMeta == \A k \in Kinds : RoundTripKindHive(k) \in {k, "str"}

(* The path text must separate every two distinct values (otherwise two key groups share a directory and a part   *)
(* file name: the later one replaces the earlier one) and must parse back to the value.  A timestamp is modelled  *)
(* by its second / microsecond / nanosecond components; the mechanism renders it with PathTimePrecision           *)
(* (the code: Timestamp.isoformat(), all components).                                                             *)
CONSTANT PathTimePrecision
DTValues == [s : 0..1, us : 0..1, ns : 0..1]
TextOfDT(v) == CASE PathTimePrecision = "ns" -> <<v.s, v.us, v.ns>>
                 [] PathTimePrecision = "us" -> <<v.s, v.us, 0>>
                 [] PathTimePrecision = "s" -> <<v.s, 0, 0>>
ParseDT(t) == [s |-> t[1], us |-> t[2], ns |-> t[3]]
TextInjective == \A a, b \in DTValues : TextOfDT(a) = TextOfDT(b) => a = b
TextParsesBack == \A a \in DTValues : ParseDT(TextOfDT(a)) = a
=============================================================================
