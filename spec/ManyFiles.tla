----------------------------- MODULE ManyFiles -----------------------------
(***************************************************************************)
(* Opening or merging many Parquet files as one dataset (C14).              *)
(* A collection is a sequence of files; each has a directory shape (flat,   *)
(* hive key=value, drill value-only), a row count (possibly 0) and a schema *)
(* tag.  It is opened through a list of paths, the directory itself, a glob *)
(* or writer.merge(); with k < 3 and k >= 3 files the library takes         *)
(* different code paths (metadata_from_many).                               *)
(* CONTRACT: the rows are the files' rows concatenated in the given order   *)
(* (path order for directory / glob), the count is the sum, partition       *)
(* columns come from the directory names, files with a different schema are *)
(* rejected when verification is requested.                                 *)
(***************************************************************************)
EXTENDS Integers, Sequences, FiniteSets, TLC, Json

CONSTANTS MaxFiles, RowChoices, Shapes, Ways, PathKinds

VARIABLES coll, way, pathkind, verify, badschema, pc,
          badkind,    \* HOW the deviating file's schema differs: "name" (a column is called differently), "ptype" (another
                      \* physical type), "width" (fixed-length bytes of another length), "logical" (same physical type,
                      \* another logical type: int64 vs timestamp), "optional" (REQUIRED vs OPTIONAL)
          rootgiven   \* the caller names the dataset root (list / merge only): directory levels above the files are then
                      \* partition levels even when every file shares them; otherwise the root is inferred from the paths
vars == <<coll, way, pathkind, verify, badschema, pc, rootgiven, badkind>>
BadKinds == {"name", "ptype", "width", "logical", "optional"}

Colls == UNION {[1..k -> [rows : RowChoices, key : 1..2]] : k \in 1..MaxFiles}
Init == /\ coll \in Colls /\ way \in Ways /\ pathkind \in PathKinds /\ verify \in BOOLEAN
        /\ badschema \in 0..MaxFiles                 \* 0: all files agree; i: file i has different columns
        /\ badschema <= MaxFiles /\ pc = "open"
        /\ badkind \in BadKinds /\ (badschema = 0 => badkind = "name")
        /\ rootgiven \in BOOLEAN /\ (rootgiven => way \in {"list", "merge"} /\ pathkind = "abs")
           \* (a relative root next to relative paths is refused by the library with an error: paths are made
           \*  absolute before they are compared with the root as given)
RECURSIVE Sum(_)
Sum(s) == IF s = <<>> THEN 0 ELSE Head(s) + Sum(Tail(s))
ExpectRows == Sum([i \in DOMAIN coll |-> coll[i].rows])
MustReject == verify /\ badschema \in DOMAIN coll /\ Len(coll) > 1
Open == pc = "open" /\ pc' = "done" /\ UNCHANGED <<coll, way, pathkind, verify, badschema, rootgiven, badkind>>
Next == Open
Spec == Init /\ [][Next]_vars
Sensible == badschema <= Len(coll) /\ (badschema # 0 => Len(coll) > 1)
Export == pc = "done" /\ Sensible => PrintT(ToJson([files |-> coll, way |-> way, pathkind |-> pathkind, verify |-> verify,
                                                     badschema |-> badschema, badkind |-> badkind, rows |-> ExpectRows, reject |-> MustReject,
                                                     rootgiven |-> rootgiven]))
RowsAll == {0, 1, 2}
(* hive2 / drill2: two directory levels, the second key being 3 - key (two files with different keys differ at BOTH levels) *)
ShapesAll == {"flat", "hive", "drill", "hive2", "drill2"}
WaysAll == {"list", "dir", "glob", "merge"}
PathsAll == {"abs", "rel"}
=============================================================================
