---------------------------- MODULE MetaRoutesMC ----------------------------
EXTENDS MetaRoutes, Json
SourcesAll == { [origin |-> "lib", store |-> "simple"], [origin |-> "lib", store |-> "multi"],
                [origin |-> "foreign", store |-> "simple"], [origin |-> "foreign", store |-> "multi"],
                [origin |-> "lib", store |-> "nested"] }
Export == Maximal => PrintT(ToJson([origin |-> src.origin, store |-> src.store, prog |-> prog, hist |-> hist, kv0 |-> (IF src.origin = "foreign" /\ src.store = "simple" THEN ForeignKv ELSE LibKv), kvhist |-> kvhist]))
=============================================================================
