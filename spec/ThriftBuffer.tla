---------------------------- MODULE ThriftBuffer ----------------------------
(***************************************************************************)
(* Buffer model of ThriftObject.to_bytes (C10 "never truncated", C12).      *)
(* Lengths only - no sequences - so the real constants can be used.         *)
(*   size = 1000 * len(row_groups) * len(schema) + len(str(key_value))     *)
(*          for FileMetaData, 1000 * columns for RowGroup; at least 500000  *)
(* The serialiser writes struct bytes with write_byte (silently dropped     *)
(* past the end) and binary fields with memcpy (unchecked).                 *)
(***************************************************************************)
EXTENDS Integers, TLC

CONSTANTS RowGroupCounts, ColumnCounts, StatSizes, KvSizes, PathSizes, Grow   \* Grow: the buffer grows on demand (repaired)

VARIABLES nrg, ncol, stat, kv, path, pos, size, pc, lost, overrun
vars == <<nrg, ncol, stat, kv, path, pos, size, pc, lost, overrun>>

Max(a, b) == IF a > b THEN a ELSE b
(* bytes of one ColumnChunk: fixed fields + path + two statistics values (min, max) *)
ChunkLen == 60 + path + 2 * stat
EncLen == 40 + 30 * (ncol + 1) + nrg * (20 + ncol * ChunkLen) + kv + 10
BufSize == Max(500000, 1000 * nrg * (ncol + 1) + kv)       \* len(str(kv)) >= the payload length

Init == /\ nrg \in RowGroupCounts /\ ncol \in ColumnCounts /\ stat \in StatSizes /\ kv \in KvSizes /\ path \in PathSizes
        /\ pos = 0 /\ size = BufSize /\ pc = "write" /\ lost = FALSE /\ overrun = FALSE

(* one abstract step: everything is written; what does not fit is lost (write_byte) or lands outside (memcpy) *)
WriteAll == /\ pc = "write"
            /\ IF Grow THEN size' = Max(size, EncLen) /\ lost' = FALSE /\ overrun' = FALSE
               ELSE /\ size' = size
                    /\ lost' = (EncLen > size)
                    /\ overrun' = (EncLen > size /\ (stat > 0 \/ kv > 0 \/ path > 0))    \* a memcpy crossed the end
            /\ pos' = EncLen /\ pc' = "done"
            /\ UNCHANGED <<nrg, ncol, stat, kv, path>>
Next == WriteAll
Spec == Init /\ [][Next]_vars

NeverTruncated == ~lost
NeverOutside   == ~overrun
=============================================================================
