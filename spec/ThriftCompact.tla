--------------------------- MODULE ThriftCompact ---------------------------
(***************************************************************************)
(* Thrift compact protocol as the Parquet IDL constrains it (C10, C02).    *)
(*                                                                         *)
(* 1. A pushdown ACCEPTOR over token sequences (field headers, values,      *)
(*    list headers, struct begin/stop) produced by an IDL-agnostic          *)
(*    tokenizer from real bytes.  A token is enabled only if, in the struct *)
(*    on top of the stack, the field id is declared (ParquetIDL.tla is      *)
(*    generated from /repo/fastparquet/parquet.thrift at check time) AND    *)
(*    the wire type on the wire is the declared one; list headers must      *)
(*    carry the declared element type; required fields must have been seen  *)
(*    when the struct stops.  This is the trace specification for footers   *)
(*    and page headers written by the library, and for metadata it          *)
(*    re-serialises after parsing foreign bytes.                            *)
(* 2. The BUFFER MODEL of ThriftObject.to_bytes: the output buffer is sized *)
(*    by a heuristic that ignores the length of binary fields; byte writes  *)
(*    past the end are silently dropped, memcpy sites do not check.         *)
(***************************************************************************)
EXTENDS Integers, Sequences, FiniteSets, TLC, ParquetIDL, Json, IOUtils, TLCExt

Traces == JsonDeserialize(IOEnv.TRACE_FILE)

VARIABLES tid, l,
          stack,     \* frames: [kind: "struct"|"list", name, last (last field id), seen (ids), left, elemwt, target]
          state,     \* "field" (expecting a field header or stop) | "value" (expecting the value of `pend`) | "done"
          pend,      \* the field record whose value is expected
          lenient    \* deviations met so far that the checker was told to tolerate (only: empty list with element type 0)
vars == <<tid, l, stack, state, pend, lenient>>

T  == Traces[tid]
Ev == T.tokens[l]
Top == stack[Len(stack)]
Fields(s) == IDL[s].fields
FieldOf(s, id) == CHOOSE f \in Fields(s) : f.id = id
Declared(s, id) == \E f \in Fields(s) : f.id = id
BoolWt(wt) == wt \in {1, 2}
SameWt(declared, onwire) == declared = onwire \/ (declared = 1 /\ BoolWt(onwire))

NoField == [id |-> 0, name |-> "", wt |-> 0, req |-> FALSE, elemwt |-> 0, target |-> ""]
Frame(name) == [kind |-> "struct", name |-> name, last |-> 0, seen |-> {}, left |-> 0, elemwt |-> 0, target |-> ""]

Init == /\ tid \in 1..Len(Traces) /\ l = 1 /\ TLCSet(tid, 0)
        /\ stack = <<Frame(Traces[tid].root)>> /\ state = "field" /\ pend = NoField /\ lenient = 0

Consume == l' = l + 1 /\ tid' = tid

(* after a complete value: back to the enclosing context *)
RECURSIVE AfterValue(_)
AfterValue(stk) ==
  IF stk = <<>> THEN <<>>
  ELSE LET t == stk[Len(stk)] IN
       IF t.kind = "list"
       THEN IF t.left = 1 THEN AfterValue(SubSeq(stk, 1, Len(stk) - 1))
            ELSE [stk EXCEPT ![Len(stk)].left = t.left - 1]
       ELSE stk
NextState(stk) == IF stk = <<>> THEN "done"
                  ELSE IF stk[Len(stk)].kind = "list" THEN "value" ELSE "field"
ListElemField(t) == [id |-> 0, name |-> "elem", wt |-> t.elemwt, req |-> FALSE, elemwt |-> 0, target |-> t.target]

FieldHeader ==
  /\ l <= Len(T.tokens) /\ Ev.tok = "field" /\ state = "field" /\ Top.kind = "struct"
  /\ Declared(Top.name, Ev.id)
  /\ Ev.id \notin Top.seen
  /\ LET f == FieldOf(Top.name, Ev.id) IN
     /\ SameWt(f.wt, Ev.wt)
     /\ stack' = [stack EXCEPT ![Len(stack)].last = Ev.id, ![Len(stack)].seen = @ \cup {Ev.id}]
     /\ IF BoolWt(Ev.wt) THEN state' = "field" /\ pend' = NoField      \* the value is in the header
        ELSE state' = "value" /\ pend' = f
  /\ Consume /\ UNCHANGED lenient

Scalar ==
  /\ l <= Len(T.tokens) /\ state = "value" /\ Ev.tok \in {"int", "double", "bin", "bool"}
  /\ LET f == IF Top.kind = "list" THEN ListElemField(Top) ELSE pend IN
     \/ Ev.tok = "int" /\ f.wt \in {3, 4, 5, 6} /\ Ev.wt = f.wt
     \/ Ev.tok = "double" /\ f.wt = 7
     \/ Ev.tok = "bin" /\ f.wt = 8
     \/ Ev.tok = "bool" /\ f.wt \in {1, 2}
  /\ stack' = AfterValue(stack) /\ state' = NextState(AfterValue(stack)) /\ pend' = NoField
  /\ Consume /\ UNCHANGED lenient

StructBegin ==
  /\ l <= Len(T.tokens) /\ state = "value" /\ Ev.tok = "struct_begin"
  /\ LET f == IF Top.kind = "list" THEN ListElemField(Top) ELSE pend IN
     /\ f.wt = 12 /\ f.target \in DOMAIN IDL
     /\ stack' = Append(stack, Frame(f.target))
  /\ state' = "field" /\ pend' = NoField /\ Consume /\ UNCHANGED lenient

Stop ==
  /\ l <= Len(T.tokens) /\ Ev.tok = "stop" /\ state = "field" /\ Top.kind = "struct"
  /\ \A f \in Fields(Top.name) : f.req => f.id \in Top.seen             \* required fields present
  /\ LET below == AfterValue(SubSeq(stack, 1, Len(stack) - 1)) IN
     /\ stack' = below /\ state' = NextState(below)
  /\ pend' = NoField /\ Consume /\ UNCHANGED lenient

ListHeader ==
  /\ l <= Len(T.tokens) /\ state = "value" /\ Ev.tok = "list"
  /\ LET f == IF Top.kind = "list" THEN ListElemField(Top) ELSE pend IN
     /\ f.wt = 9
     /\ \/ SameWt(f.elemwt, Ev.et) /\ lenient' = lenient
        \/ Ev.n = 0 /\ Ev.et = 0 /\ T.tolerate_empty /\ lenient' = lenient + 1    \* known deviation, counted
     /\ IF Ev.n = 0
        THEN stack' = AfterValue(stack) /\ state' = NextState(AfterValue(stack))
        ELSE /\ stack' = Append(stack, [kind |-> "list", name |-> "", last |-> 0, seen |-> {}, left |-> Ev.n,
                                        elemwt |-> f.elemwt, target |-> f.target])
             /\ state' = "value"
  /\ pend' = NoField /\ Consume

Next == FieldHeader \/ Scalar \/ StructBegin \/ Stop \/ ListHeader
Spec == Init /\ [][Next]_vars

Done == l = Len(T.tokens) + 1 /\ stack = <<>>
Report == Done => PrintT(<<"DONE", tid, lenient>>)
Progress == TLCSet(tid, IF TLCGet(tid) > l THEN TLCGet(tid) ELSE l)
PrintRegs == \A i \in 1..Len(Traces) : PrintT(<<"PROG", i, TLCGet(i)>>)
=============================================================================
