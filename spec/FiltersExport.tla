---------------------------- MODULE FiltersExport ----------------------------
(* spec -> code: for every program, the contract's verdicts (MayOmit per row   *)
(* group, DefSat / MaySat per row) and the mechanism's predictions (Keep, row  *)
(* selection) over a fixed pool of row groups.  harness/checks/filters.py      *)
(* writes the pool as real datasets and asks the library the same questions.   *)
EXTENDS FiltersMC, SequencesExt

Pool == SetToSeq(RowGroups)
SetToSeqF(X) == SetToSeq(X)

Bit(b) == IF b THEN 1 ELSE 0
SetSeq(S) == SetToSeqF(S)
ProgJson(pg) == [flat |-> pg.flat,
                 groups |-> [gi \in DOMAIN pg.groups |->
                               [ai \in DOMAIN pg.groups[gi] |->
                                  [col |-> pg.groups[gi][ai].col, op |-> pg.groups[gi][ai].op,
                                   c |-> SetSeq(pg.groups[gi][ai].c)]]]]
Case(pg) == [prog |-> ProgJson(pg),
             omit |-> [i \in DOMAIN Pool |-> Bit(MayOmit(Pool[i], pg))],
             keep |-> [i \in DOMAIN Pool |-> Bit(Keep(Pool[i], pg))],
             keepb |-> [i \in DOMAIN Pool |-> Bit(KeepV(Pool[i], pg, TRUE))],    \* with the bound-in-list `not in` rule
             def  |-> [i \in DOMAIN Pool |-> [r \in DOMAIN Pool[i].rows |-> Bit(DefSat(Pool[i], r, pg))]],
             may  |-> [i \in DOMAIN Pool |-> [r \in DOMAIN Pool[i].rows |-> Bit(MaySat(Pool[i], r, pg))]],
             sel  |-> [i \in DOMAIN Pool |-> [r \in DOMAIN Pool[i].rows |-> Bit(Keep(Pool[i], pg) /\ RowSel(Pool[i], r, pg))]]]

EInit == rg = Pool[1] /\ prog \in Programs /\ pc = "prune" /\ kept = TRUE /\ sel = {}
ENext == pc = "prune" /\ pc' = "emitted" /\ UNCHANGED <<rg, prog, kept, sel>>
ESpec == EInit /\ [][ENext]_vars
Emit == pc = "emitted" => PrintT(ToJson(Case(prog)))
FVProg == {Single(Atom("x", "==", {0}))}
EmitFV == pc = "emitted" => PrintT(ToJson([fv |-> SetToSeq(
             {[op |-> r.op, c |-> SetSeq(r.c), vmin |-> r.vmin, vmax |-> r.vmax, out |-> Bit(r.out), outb |-> Bit(r.outb), sound |-> Bit(r.sound)] : r \in FilterValCases})]))
PoolOut == PrintT(ToJson([pool |-> [i \in DOMAIN Pool |->
              [rows |-> [r \in DOMAIN Pool[i].rows |-> [x |-> Pool[i].rows[r].x, y |-> Pool[i].rows[r].y]],
               stats |-> Pool[i].stats, only |-> Pool[i].only, p |-> Pool[i].p]]]))
ASSUME PoolOut
=============================================================================
