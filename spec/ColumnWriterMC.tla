--------------------------- MODULE ColumnWriterMC ---------------------------
(* dtype classes (only the attributes the layout depends on) and the export of cases for the replay *)
EXTENDS ColumnWriter, Json

C(name, bpe8, dtypeO, sentinel, cat, ordered, statsAuto) ==
  [name |-> name, bpe8 |-> bpe8, dtypeO |-> dtypeO, sentinel |-> sentinel, cat |-> cat, ordered |-> ordered,
   statsAuto |-> statsAuto]

ClassesAll == {
  C("bool", 1, FALSE, "NONE", FALSE, TRUE, FALSE),
  C("int8", 32, FALSE, "NONE", FALSE, TRUE, TRUE),   C("int16", 32, FALSE, "NONE", FALSE, TRUE, TRUE),
  C("int32", 32, FALSE, "NONE", FALSE, TRUE, TRUE),  C("int64", 64, FALSE, "NONE", FALSE, TRUE, TRUE),
  C("uint8", 32, FALSE, "NONE", FALSE, TRUE, TRUE),  C("uint16", 32, FALSE, "NONE", FALSE, TRUE, TRUE),
  C("uint32", 32, FALSE, "NONE", FALSE, TRUE, TRUE), C("uint64", 64, FALSE, "NONE", FALSE, TRUE, TRUE),
  C("float32", 32, FALSE, "NAN", FALSE, TRUE, TRUE), C("float64", 64, FALSE, "NAN", FALSE, TRUE, TRUE),
  C("obj_str", 64, TRUE, "OBJ", FALSE, TRUE, FALSE), \* object dtype holding 4-character text: mean length + 4 bytes
  C("str", 64, FALSE, "OBJ", FALSE, TRUE, FALSE),     \* pandas string dtype
  C("obj_str_e", 64, TRUE, "OBJ", FALSE, TRUE, FALSE), \* text whose smallest value is the EMPTY string (falsy statistic)
  C("obj_bytes", 64, TRUE, "OBJ", FALSE, TRUE, FALSE),
  C("dt_ns", 64, FALSE, "NAT", FALSE, TRUE, TRUE),   C("dt_us", 64, FALSE, "NAT", FALSE, TRUE, TRUE),
  C("dt_ms", 64, FALSE, "NAT", FALSE, TRUE, TRUE),   C("dt_s", 64, FALSE, "NAT", FALSE, TRUE, TRUE),
  C("dt_tz", 64, FALSE, "NAT", FALSE, TRUE, TRUE),
  C("td_ns", 64, FALSE, "NAT", FALSE, TRUE, FALSE),   C("td_us", 64, FALSE, "NAT", FALSE, TRUE, FALSE),
  C("td_ms", 64, FALSE, "NAT", FALSE, TRUE, FALSE),   C("td_s", 64, FALSE, "NAT", FALSE, TRUE, FALSE),
  C("cat_str", 8, FALSE, "CAT", TRUE, TRUE, FALSE),  C("cat_int", 8, FALSE, "CAT", TRUE, TRUE, FALSE),
  \* a categorical with more than 127 categories (most of them unused): codes of two bytes, index pages of width 16
  C("cat_str_w", 16, FALSE, "CAT", TRUE, TRUE, FALSE),
  \* ordered categoricals whose declared category order differs from the order of the label values
  C("cat_str_ord", 8, FALSE, "CAT", TRUE, TRUE, FALSE),  C("cat_int_ord", 8, FALSE, "CAT", TRUE, TRUE, FALSE),
  C("Int8", 32, FALSE, "MASK", FALSE, TRUE, TRUE),   C("Int32", 32, FALSE, "MASK", FALSE, TRUE, TRUE),
  C("Int64", 64, FALSE, "MASK", FALSE, TRUE, TRUE),  C("UInt16", 32, FALSE, "MASK", FALSE, TRUE, TRUE),
  C("UInt64", 64, FALSE, "MASK", FALSE, TRUE, TRUE), C("boolean", 1, FALSE, "MASK", FALSE, TRUE, FALSE) }

ClassesCore == {c \in ClassesAll : c.name \in {"bool", "int8", "int64", "uint64", "float64", "obj_str", "obj_str_e", "dt_ns",
                                                 "dt_tz", "cat_str", "cat_str_w", "cat_int_ord", "Int64", "boolean"}}
(* row counts around 64 and 8192, where the framing of the level block changes, on a reduced option product *)
ClassesBig == {c \in ClassesAll : c.name \in {"int64", "float64", "obj_str", "cat_str", "cat_str_w", "Int64", "bool", "boolean", "dt_s"}}
RowsBig == {63, 64, 65, 100}
RowsHuge == {8191, 8192, 8193}
PatsBig == {"none", "last"}
ValsBig == {"perm"}
ModesBig == {"true", "false"}
RppBig == {3, 8, 100}
RppHuge == {100, 5000}
Rgo0 == {0}
StatsTrue == {"true"}
StatsLists == {"true", "list", "listother"}

RowsQuick == {0, 1, 2, 3, 8, 9}
RowsThorough == {0, 1, 2, 3, 8, 9, 17}
PatsAll == {"none", "all", "first", "last", "alt", "some"}
PatsQuick == {"none", "all", "last", "alt"}
ModesAll == {"true", "false", "infer"}
ValsAll == {"perm", "asc", "desc", "const"}
ValsQuick == {"perm", "const"}
RppQuick == {1, 3, 100}
RppAll == {1, 2, 3, 8, 100}
RgoQuick == {0, 2}
RgoAll == {0, 1, 2, 3, 5}
RgoThorough == {0, 2, 3}
StatsAll == {"true", "false", "auto"}
StatsQuick == {"true", "auto"}
V12 == {1, 2}
OptDefault == {"default"}
OptsAll == {"default", "int96", "explicit", "fixed", "hive", "index", "index2", "rangeidx", "rangestep"}
CodecNone == {"none"}
CodecsAll == {"none", "SNAPPY", "GZIP", "ZSTD", "LZ4", "BROTLI"}
CodecsSome == {"none", "SNAPPY", "GZIP"}
(* every dtype class x codec x page version on a small option product (the code paths that depend on the dtype: *)
(* conversion on write, in-place / decompress-into reads, unit scaling of times)                                *)
RowsTypes == {0, 3, 9}
PatsTypes == {"none", "last"}
RppTypes == {100, 4}

Bool(b) == IF b THEN 1 ELSE 0
PageJson(pg) == [nvals |-> pg.nvals, nnulls |-> pg.nnulls, def |-> pg.def, enc |-> pg.enc]
RgJson(g) == [start |-> g.start, len |-> g.len, optional |-> Bool(g.optional), dict |-> Bool(g.dict),
              pages |-> [p \in DOMAIN g.pages |-> PageJson(g.pages[p])], nullcount |-> g.nullcount,
              hasmm |-> Bool(g.hasmm), min |-> g.min, max |-> g.max]
CaseJson == [cls |-> inp.cls.name, n |-> inp.n, nullpat |-> inp.nullpat, valpat |-> inp.valpat, mode |-> inp.mode,
             rppwant |-> inp.rppwant, pagebytes |-> PageBytes(inp), rpp |-> Rpp(inp), v |-> inp.v, rgo |-> inp.rgo,
             stats |-> inp.stats, codec |-> inp.codec, opt |-> inp.opt, rejected |-> Bool(pc = "rejected"), optional |-> Bool(Optional(inp)),
             rgs |-> [g \in DOMAIN rgs |-> RgJson(rgs[g])],
             cells |-> [i \in 1..inp.n |-> Decoded(i)]]
Export == pc \in {"done", "rejected"} => PrintT(ToJson(CaseJson))
=============================================================================
