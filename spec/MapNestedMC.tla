---------------------------- MODULE MapNestedMC ----------------------------
EXTENDS MapNested, Json, SequencesExt
BoolBoth == {TRUE, FALSE}
K2 == {1, 2}
V2 == {1, 2}
NamesPlain == {"m"}
NamesBoth == {"m", "key"}
RowJson(r) == IF r = NULLROW THEN [null |-> TRUE, pairs |-> <<>>] ELSE [null |-> FALSE, pairs |-> r]
Export == pc = "done" =>
  PrintT(ToJson([mopt |-> mopt, vopt |-> vopt, colname |-> colname, rows |-> [i \in DOMAIN rows |-> RowJson(rows[i])],
                 streamK |-> StreamK, streamV |-> StreamV, cutsK |-> SetToSeq(cutsK), cutsV |-> SetToSeq(cutsV),
                 model_ok |-> (~bad /\ result = rows), misplaced |-> bad,
                 mech |-> [i \in DOMAIN result |-> IF result[i] = NULLROW \/ result[i] = NOTSET
                                                    THEN [null |-> TRUE, pairs |-> <<>>] ELSE [null |-> FALSE, pairs |-> result[i]]]]))
=============================================================================
