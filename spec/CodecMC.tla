------------------------------ MODULE CodecMC ------------------------------
EXTENDS Codec, Json
W1to24 == 1..24
W25to32 == 25..32
W1to32 == 1..32
W1to56 == 1..56
W1to28 == 1..28
W29to64 == 29..64
W57to64 == 57..64
PatsAll == {"zeros", "ones", "alt", "top", "mix"}
G12 == {1, 2}
G1 == {1}

(* spec -> code: test vectors.  Every record: the packed bytes and the values (bit lists, LSB first). *)
BitPackCase(ww, pt, nn) == [kind |-> "bitpack", w |-> ww, pat |-> pt, n |-> nn,
                            bytes |-> BitPackRun(Values(pt, nn, ww), ww), values |-> Values(pt, nn, ww)]
RleCase(ww, pt, c) == [kind |-> "rle", w |-> ww, pat |-> pt, n |-> c,
                       bytes |-> RleRun(Value(pt, 1, ww), ww, c), values |-> [i \in 1..c |-> Value(pt, 1, ww)]]
HybridCase(ww, pt, c1, g2, c3) ==
  [kind |-> "hybrid", w |-> ww, pat |-> pt, n |-> c1 + 8 * g2 + c3,
   runs |-> <<c1, g2, c3>>,
   bytes |-> RleRun(Value(pt, 0, ww), ww, c1) \o BitPackRun(Values(pt, 8 * g2, ww), ww) \o RleRun(Value(pt, 2, ww), ww, c3),
   values |-> [i \in 1..c1 |-> Value(pt, 0, ww)] \o Values(pt, 8 * g2, ww) \o [i \in 1..c3 |-> Value(pt, 2, ww)]]
VarintCase(len, pt) ==     \* a number of exactly `len` varint bytes: its top bit sits in group `len`
  LET nb == IF len = 10 THEN 64 ELSE 7 * len
      b == [j \in 1..nb |-> IF j = nb \/ (len = 10 /\ j = 64) THEN 1 ELSE PatBit(pt, 3, j - 1, nb)]
  IN [kind |-> "varint", len |-> len, pat |-> pt, bits |-> b, bytes |-> VarintBits(b)]
(* definition levels of a page without nulls, as the writer stores them in version-1 pages: 4-byte length, ONE RLE run  *)
(* header varint(count << 1), the level value 1.  The reader's fast path (core.skip_definition_bytes) steps over the      *)
(* block knowing only the count.  `len` = bytes of the header varint; the count is given as bits (up to 2^31 - 1).       *)
LevelBlockCase(len, pt) ==
  LET nb == IF len = 5 THEN 32 ELSE 7 * len
      hb == [j \in 1..nb |-> IF j = 1 THEN 0 ELSE IF j = nb THEN 1 ELSE PatBit(pt, 5, j - 1, nb)]     \* count << 1
  IN [kind |-> "levelblock", len |-> len, pat |-> pt, countbits |-> Tail(hb),
      bytes |-> <<len + 1, 0, 0, 0>> \o VarintBits(hb) \o <<1>>]
(* the dictionary indices of a categorical column as writer.encode_dict stores them: the bit width in one byte (8, 16 or   *)
(* 32, the width of the codes), then ONE bit-packed run of all the codes.  Codes are the small numbers 0, 3, 6, ... so that *)
(* they fit the signed code dtype of every width.                                                                          *)
DictPageCase(ww, nn) ==
  LET vals == [i \in 1..nn |-> PadTo(NatToBits(((i - 1) * 3) % 100, 8), ww)]
  IN [kind |-> "dictpage", w |-> ww, n |-> nn, pat |-> "codes", bytes |-> <<ww>> \o BitPackRun(vals, ww), values |-> vals]
BoolCase(nn, pt) == [kind |-> "bool", n |-> nn, pat |-> pt, bits |-> [i \in 1..nn |-> PatBit(pt, i, 0, 1)],
                     bytes |-> BoolPack([i \in 1..nn |-> PatBit(pt, i, 0, 1)])]

(* DELTA_BINARY_PACKED: <block size> <miniblocks per block> <count> <zigzag first>, then per block            *)
(* <zigzag min delta> <one width byte per miniblock> <miniblocks: 32 values of that width, LSB first>;       *)
(* miniblocks after the last needed one have width 0 and no data.  Deltas are given as bit patterns so that  *)
(* widths up to 64 need no 64-bit arithmetic here; the harness adds them up modulo 2^64.                     *)
ZigZag(k) == IF k >= 0 THEN 2 * k ELSE -2 * k - 1
DeltaCase(ww, pt, used, first, md) ==
  LET mini == [m \in 1..4 |-> IF m <= used THEN Values(pt, 32, ww) ELSE <<>>]
      body == Flatten([m \in 1..4 |-> IF m <= used THEN BitsToBytes(Flatten(mini[m])) ELSE <<>>])
  IN [kind |-> "delta", w |-> ww, pat |-> pt, n |-> 1 + 32 * used, first |-> first, min_delta |-> md,
      deltas |-> Flatten([m \in 1..used |-> mini[m]]),
      bytes |-> Varint(128) \o Varint(4) \o Varint(1 + 32 * used) \o Varint(ZigZag(first))
                \o Varint(ZigZag(md)) \o [m \in 1..4 |-> IF m <= used THEN ww ELSE 0] \o body]
Counts == {0, 1, 7, 8, 9, 17}
VectorsQuick ==
  {BitPackCase(ww, pt, nn) : ww \in {1, 2, 3, 7, 8, 9, 15, 16, 17, 24, 25, 31, 32}, pt \in PatsAll, nn \in {1, 7, 8, 9, 17}}
  \cup {RleCase(ww, pt, c) : ww \in {1, 3, 8, 9, 16, 17, 24, 25, 32}, pt \in {"ones", "mix"}, c \in {1, 7, 8, 9, 300}}
  \cup {HybridCase(ww, pt, c1, g2, c3) : ww \in {1, 5, 8, 12, 24}, pt \in {"mix", "alt"}, c1 \in {1, 9}, g2 \in {1, 2}, c3 \in {0, 8}}
  \cup {VarintCase(len, pt) : len \in 1..10, pt \in {"zeros", "ones", "mix"}}
  \cup {LevelBlockCase(len, pt) : len \in 1..5, pt \in {"zeros", "ones", "mix"}}
  \cup {DictPageCase(ww, nn) : ww \in {8, 16, 32}, nn \in 1..17}
  \cup {BoolCase(nn, pt) : nn \in Counts, pt \in {"ones", "alt", "mix"}}
  \cup {DeltaCase(ww, pt, used, first, md) : ww \in {0, 1, 7, 8, 9, 16, 24, 28, 29, 31, 32, 33, 56}, pt \in {"ones", "mix"},
                                            used \in {1, 3}, first \in {7}, md \in {-3, 5}}
VectorsThorough ==
  {BitPackCase(ww, pt, nn) : ww \in 1..32, pt \in PatsAll, nn \in {1, 7, 8, 9, 15, 16, 17, 63, 64, 65}}
  \cup {RleCase(ww, pt, c) : ww \in 1..32, pt \in {"ones", "mix", "top"}, c \in {1, 7, 8, 9, 127, 128, 300}}
  \cup {HybridCase(ww, pt, c1, g2, c3) : ww \in 1..24, pt \in {"mix", "alt"}, c1 \in {1, 8, 9}, g2 \in {1, 2, 3}, c3 \in {0, 1, 8}}
  \cup {VarintCase(len, pt) : len \in 1..10, pt \in PatsAll}
  \cup {LevelBlockCase(len, pt) : len \in 1..5, pt \in PatsAll}
  \cup {DictPageCase(ww, nn) : ww \in {8, 16, 32}, nn \in 1..33}
  \cup {BoolCase(nn, pt) : nn \in 0..20, pt \in {"ones", "alt", "mix", "zeros"}}
  \cup {DeltaCase(ww, pt, used, first, md) : ww \in 0..56, pt \in {"ones", "mix", "alt", "top"},
                                            used \in 1..4, first \in {0, 7, -2}, md \in {0, -3, 5}}

=============================================================================
