------------------------------ MODULE AccessMC ------------------------------
EXTENDS Access, Json
RC4 == <<1, 3, 2, 1>>
RC3 == <<2, 1, 2>>
ArgsAll == {None, -5, -4, -3, -2, -1, 0, 1, 2, 3, 4, 5}
ArgsFew == {None, -3, -1, 0, 1, 2, 4}
StepsAll == {None, 1, 2, -1, -2}
StepsFew == {None, 2, -1}
ArgsTiny == {None, -1, 1, 2}
ReadsTwo == {"to_pandas", "count"}
ColsNone == {<<>>}
DerivAll == {"slice", "pick", "pickle", "copy", "deepcopy"}
DerivWarm == {"slice", "pick", "warm"}
SrcPath == {"path"}
SrcAll == {"path", "fileobj", "bytesio"}
ReadsFour == {"to_pandas", "iter", "head", "count"}
ReadsAll == {"to_pandas", "iter", "head", "count", "filelike"}
ColsAll == {<<>>, <<"x">>, <<"s", "x">>, <<"k">>, <<"x", "k", "s">>, <<"t", "n">>, <<"f", "t", "x">>}
ColsFew == {<<>>, <<"s", "x">>, <<"t", "n">>}
IdxDefault == {"default"}
IdxAll == {"default", "false", "x", "t"}
ColsIdx == {<<>>, <<"s", "x">>, <<"f", "t", "x">>, <<"x">>}     \* <<"x">>: on the dataset whose row index is x, index columns only
Export == pc = "done" => PrintT(ToJson([prog |-> prog, outcome |-> outcome, src |-> src]))
=============================================================================
