---------------------------- MODULE CodecVectors ----------------------------
(* spec -> code: evaluating this module prints the test vectors computed by the FORMAT layer of Codec *)
EXTENDS CodecMC, SequencesExt, IOUtils
Which == IF "CODEC_VECTORS" \in DOMAIN IOEnv /\ IOEnv.CODEC_VECTORS = "thorough" THEN VectorsThorough ELSE VectorsQuick
ASSUME \A v \in Which : PrintT(ToJson(v))
=============================================================================
