----------------------------- MODULE MapNested -----------------------------
(***************************************************************************)
(* MAP columns (C15): a row is NULLROW or a sequence of <<key, value>>      *)
(* pairs (keys unique within a row; a value may be NULLV when the value     *)
(* field is optional).  The column is stored as TWO leaves, key and value,  *)
(* each with its own (repetition, definition, value) triple stream and its  *)
(* own, independent, page cuts.                                             *)
(* CONTRACT: reading gives back, for every row, exactly its pairs.          *)
(* MECHANISM (core.read_row_group_arrays + cencoding._assemble_objects):    *)
(*   1. each leaf is assembled into per-row lists by the LIST assembler,    *)
(*      page by page (pure transcription AssembleP below, the same          *)
(*      statements as Nested.tla's Walk/DoPage);                            *)
(*   2. the first leaf read is kept aside; when the second arrives, which   *)
(*      one is the key is decided by  path_in_schema[0] == 'key'  - the     *)
(*      COLUMN's name, not the leaf's (KeyTestOnColumnName);                *)
(*   3. rows are zipped: dict(zip(keys, values)), None if keys is None.     *)
(***************************************************************************)
EXTENDS Integers, Sequences, FiniteSets, TLC

CONSTANTS MaxRows, MaxLen, MaxPages, MapOptionals, ValOptionals, Keys, Vals, ColumnNames,
          KeyTestOnColumnName     \* TRUE: as the code does; FALSE: the leaf's own name decides (model mutant / repair)

NULLROW == << <<-5, -5>> >>     \* markers with the shape of a row (a sequence of pairs): TLC compares like with like
NOTSET == << <<-7, -7>> >>
NULLLIST == <<-5>>              \* markers with the shape of an assembled leaf list (a sequence of integers)
NOTSETL == <<-7>>
NULLV == 0

VARIABLES rows, mopt, vopt, cutsK, cutsV, colname, pc, result, bad
vars == <<rows, mopt, vopt, cutsK, cutsV, colname, pc, result, bad>>

(* rows: sequences of pairs with strictly increasing keys (unique keys; the order is the stored order) *)
PairSeqs == UNION {{s \in [1..n -> Keys \X (Vals \cup (IF vopt THEN {NULLV} ELSE {}))] :
                      \A i \in 1..(n - 1) : s[i][1] < s[i + 1][1]} : n \in 0..MaxLen}
RowsOf == (IF mopt THEN {NULLROW} ELSE {}) \cup PairSeqs

DMap == IF mopt THEN 1 ELSE 0                   \* definition level of an empty map
MaxDefK == DMap + 1                              \* key is required inside the repeated group
MaxDefV == DMap + 1 + (IF vopt THEN 1 ELSE 0)

ShredK(r) == IF r = NULLROW THEN <<[rep |-> 0, def |-> 0, val |-> -1]>>
             ELSE IF r = <<>> THEN <<[rep |-> 0, def |-> DMap, val |-> -1]>>
             ELSE [j \in 1..Len(r) |-> [rep |-> IF j = 1 THEN 0 ELSE 1, def |-> MaxDefK, val |-> r[j][1]]]
ShredV(r) == IF r = NULLROW THEN <<[rep |-> 0, def |-> 0, val |-> -1]>>
             ELSE IF r = <<>> THEN <<[rep |-> 0, def |-> DMap, val |-> -1]>>
             ELSE [j \in 1..Len(r) |-> [rep |-> IF j = 1 THEN 0 ELSE 1,
                                       def |-> IF r[j][2] = NULLV THEN MaxDefV - 1 ELSE MaxDefV,
                                       val |-> IF r[j][2] = NULLV THEN -1 ELSE r[j][2]]]
RECURSIVE Flatten(_)
Flatten(ss) == IF ss = <<>> THEN <<>> ELSE Head(ss) \o Flatten(Tail(ss))
StreamK == Flatten([i \in DOMAIN rows |-> ShredK(rows[i])])
StreamV == Flatten([i \in DOMAIN rows |-> ShredV(rows[i])])

RECURSIVE PiecesFrom(_, _, _)
PiecesFrom(start, cs, n) ==
  IF start > n THEN <<>>
  ELSE LET later == {c \in cs : c >= start}
           e == IF later = {} THEN n ELSE CHOOSE c \in later : \A d \in later : c <= d
       IN <<[a |-> start, b |-> e]>> \o PiecesFrom(e + 1, cs, n)

(* ---- _assemble_objects as a pure function (same statements as Nested.tla) ---- *)
RECURSIVE WalkP(_, _, _, _, _, _, _, _, _, _)
WalkP(trs, k, asg, i, part, started, havenull, vali, null, maxdef) ==
  IF k > Len(trs) THEN [asg |-> asg, i |-> i, part |-> part, started |-> started, havenull |-> havenull, vali |-> vali]
  ELSE LET t == trs[k]
           s1 == IF t.rep = 0
                 THEN IF started
                      THEN [asg |-> [asg EXCEPT ![i] = IF havenull THEN NULLLIST ELSE part], i |-> i + 1, part |-> <<>>, started |-> TRUE]
                      ELSE IF vali > 0
                           THEN [asg |-> [asg EXCEPT ![i - 1] = @ \o part], i |-> i, part |-> <<>>, started |-> TRUE]
                           ELSE [asg |-> asg, i |-> i, part |-> part, started |-> TRUE]
                 ELSE [asg |-> asg, i |-> i, part |-> part, started |-> started]
           part2 == IF t.def = maxdef THEN Append(s1.part, t.val)
                    ELSE IF t.def > null THEN Append(s1.part, NULLV) ELSE s1.part
           vali2 == IF t.def = maxdef THEN vali + 1 ELSE vali
           oob == \/ (t.rep = 0 /\ started /\ i > Len(asg))
                  \/ (t.rep = 0 /\ ~started /\ vali > 0 /\ i - 1 < 1)
       IN IF oob
          THEN [asg |-> asg, i |-> i, part |-> part, started |-> started, havenull |-> havenull, vali |-> -99]
          ELSE WalkP(trs, k + 1, s1.asg, s1.i, part2, s1.started, (t.def = 0 /\ null = 1), vali2, null, maxdef)

PageP(st, trs, null, maxdef) ==
  LET w == WalkP(trs, 1, st.asg, st.nexti, <<>>, FALSE, FALSE, 0, null, maxdef) IN
  IF st.bad \/ w.vali = -99 THEN [asg |-> st.asg, nexti |-> st.nexti, bad |-> TRUE]
  ELSE IF w.started
       THEN [asg |-> IF w.i \in DOMAIN w.asg THEN [w.asg EXCEPT ![w.i] = IF w.havenull THEN NULLLIST ELSE w.part] ELSE w.asg,
             nexti |-> w.i + 1, bad |-> ~(w.i \in DOMAIN w.asg)]
       ELSE IF w.i - 1 >= 1
            THEN [asg |-> [w.asg EXCEPT ![w.i - 1] = @ \o w.part], nexti |-> w.i + 1, bad |-> FALSE]
            ELSE [asg |-> w.asg, nexti |-> w.i + 1, bad |-> FALSE]

RECURSIVE FoldPages(_, _, _, _, _, _)
FoldPages(st, stream, pages, p, null, maxdef) ==
  IF p > Len(pages) THEN st
  ELSE FoldPages(PageP(st, SubSeq(stream, pages[p].a, pages[p].b), null, maxdef), stream, pages, p + 1, null, maxdef)
AssembleP(stream, cuts, n, null, maxdef) ==
  FoldPages([asg |-> [i \in 1..n |-> NOTSETL], nexti |-> 1, bad |-> FALSE], stream, PiecesFrom(1, cuts, Len(stream)), 1, null, maxdef)

CutSets(len) == {S \in SUBSET (1..(len - 1)) : Cardinality(S) <= MaxPages - 1}

Init == /\ mopt \in MapOptionals /\ vopt \in ValOptionals /\ colname \in ColumnNames
        /\ rows \in UNION {[1..n -> RowsOf] : n \in 1..MaxRows}
        /\ cutsK \in CutSets(Len(Flatten([i \in DOMAIN rows |-> ShredK(rows[i])])))
        /\ cutsV \in CutSets(Len(Flatten([i \in DOMAIN rows |-> ShredV(rows[i])])))
        /\ pc = "read" /\ result = <<>> /\ bad = FALSE

(* dict(zip(k, v)) : pairs up to the shorter list *)
Zip(ks, vs) == [j \in 1..(IF Len(ks) < Len(vs) THEN Len(ks) ELSE Len(vs)) |-> <<ks[j], vs[j]>>]

Read ==
  /\ pc = "read"
  /\ LET null == IF mopt THEN 1 ELSE 0
         ka == AssembleP(StreamK, cutsK, Len(rows), null, MaxDefK)
         va == AssembleP(StreamV, cutsV, Len(rows), null, MaxDefV)
         \* the key leaf comes first in the schema and is read first; when the value leaf arrives the code asks
         \* whether path_in_schema[0] (the column's name) is 'key' to decide which of the two it is holding
         valueLeafTakenForKey == KeyTestOnColumnName /\ colname = "key"
         keys == IF valueLeafTakenForKey THEN va.asg ELSE ka.asg
         vals == IF valueLeafTakenForKey THEN ka.asg ELSE va.asg
     IN /\ bad' = (ka.bad \/ va.bad)
        /\ result' = [i \in 1..Len(rows) |->
                        IF keys[i] = NULLLIST \/ keys[i] = NOTSETL \/ vals[i] = NULLLIST \/ vals[i] = NOTSETL
                        THEN (IF keys[i] = NULLLIST THEN NULLROW ELSE NOTSET)
                        ELSE Zip(keys[i], vals[i])]
  /\ pc' = "done" /\ UNCHANGED <<rows, mopt, vopt, cutsK, cutsV, colname>>
Next == Read
Spec == Init /\ [][Next]_vars

(* CONTRACT *)
Assembled == pc = "done" => (~bad /\ result = rows)
=============================================================================
