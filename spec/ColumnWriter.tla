---------------------------- MODULE ColumnWriter ----------------------------
(***************************************************************************)
(* Layout, bookkeeping, statistics and cell table of ONE written column     *)
(* (C01, C02, C04): what fastparquet.write must put into the file for a     *)
(* given (column, options), as a state machine that follows                 *)
(* iter_dataframe -> make_row_group -> write_column page by page.           *)
(*                                                                         *)
(* A column is symbolic: n rows, a null pattern, a value pattern over the   *)
(* abstract values 0..6 and a dtype class described only by the attributes  *)
(* the layout depends on.  The harness concretises classes and values.      *)
(*                                                                         *)
(* MECHANISM (transcribed):                                                 *)
(*   iter_dataframe: int offsets -> nparts, chunksize arithmetic            *)
(*   make_metadata : OPTIONAL iff has_nulls=True, or 'infer' and dtype==O   *)
(*   _rows_per_page: floor(page_bytes / (bytes_per_element + hasnulls/8))   *)
(*   write_column  : statistics from the whole chunk before paging; per     *)
(*                   page num_values / num_nulls / definition block kind;   *)
(*                   dictionary page first for categoricals                 *)
(* CONTRACT (format + C01/C02/C04):                                         *)
(*   pages tile the chunk, counts add up, null counts equal the missing     *)
(*   cells, min/max are the extreme non-null stored values in the class's   *)
(*   order or absent, and the cell table a reader must reproduce.           *)
(***************************************************************************)
EXTENDS Integers, Sequences, FiniteSets, TLC

CONSTANTS Classes,      \* set of class records (see ColumnWriterMC)
          RowCounts, NullPats, ValPats, Modes, RppWants, Versions, RgOffsets, StatsModes,
          WriteOpts,    \* further write options that change how a value is STORED but not the table: "default" | "int96"
                        \* (times='int96' for timestamp columns) | "explicit" (object_encoding named for an object column)
                        \* | "fixed" (fixed_text with a length no value exceeds, for object columns of text / bytes)
                        \* | "hive" (file_scheme='hive': the same table as a directory of part files)
                        \* | "index" (the column is the frame's NAMED ROW INDEX: stored as a column like any other, and
                        \*   read back into the index) | "index2" (first level of a two-level MultiIndex)
                        \* | "rangeidx" (write_index=True over the automatic range index: its labels are stored too)
          Codecs        \* compression option: the layout (page cuts are by uncompressed size) and the cells do not depend on it

NULL == -1
TdNames == {"td_ns", "td_us", "td_ms", "td_s"}    \* durations: always stored as microseconds (TIME_MICROS)
NV   == 7                                   \* abstract values 0..6

(* ---- the symbolic column ---- *)
IsNull(pat, i, n) == CASE pat = "none" -> FALSE
                       [] pat = "all"  -> TRUE
                       [] pat = "first" -> i = 1
                       [] pat = "last"  -> i = n
                       [] pat = "alt"   -> i % 2 = 0
                       [] pat = "some"  -> i % 3 = 2
ValOf(vp, i) == CASE vp = "perm" -> (i * 5 + 2) % NV
                  [] vp = "asc"  -> (i - 1) % NV
                  [] vp = "desc" -> (NV - 1) - ((i - 1) % NV)
                  [] vp = "const" -> 3
Cell(inp, i) == IF IsNull(inp.nullpat, i, inp.n) THEN NULL ELSE ValOf(inp.valpat, i)
HasMissing(inp) == \E i \in 1..inp.n : Cell(inp, i) = NULL

(* ---- options ---- *)
(* reset_row_idx stores every level of a MultiIndex as a CATEGORICAL column (codes + the level's labels as dictionary),
   whatever the dtype of the level: for the layout the column is then a categorical one *)
AsCat(inp) == inp.cls.cat \/ inp.opt = "index2"
Sentinel(inp) == IF inp.opt = "index2" THEN "CAT" ELSE inp.cls.sentinel
Bpe8(inp) == IF inp.opt = "index2" /\ ~inp.cls.cat THEN 8 ELSE inp.cls.bpe8     \* one-byte codes for a level of <= 7 labels
(* a row index of object dtype holding text becomes a column of the string dtype when the index is reset (pandas 3) *)
DtypeO(inp) == inp.cls.dtypeO /\ inp.opt # "index2" /\ ~(inp.opt = "index" /\ inp.cls.name \in {"obj_str", "obj_str_e"})
Optional(inp) == inp.mode = "true" \/ (inp.mode = "infer" /\ DtypeO(inp))
(* a missing cell in a REQUIRED column: representable only as the dtype's in-band sentinel *)
Rejected(inp) == /\ ~Optional(inp) /\ HasMissing(inp)
                 /\ Sentinel(inp) \in {"OBJ", "MASK", "CAT"}  \* None / pd.NA / code -1 have no in-band value
(* the page budget the caller sets (writer.MAX_PAGE_SIZE): the smallest byte count that fits `rppwant` elements *)
PerElem8(inp) == Bpe8(inp) + (IF Optional(inp) THEN 1 ELSE 0)       \* eighths of a byte per element
(* never below 9 bytes: the neighbouring int64 column of the replay frame needs one element per page *)
PageBytes(inp) == LET b == ((inp.rppwant * PerElem8(inp)) + 7) \div 8 IN IF b < 9 THEN 9 ELSE b
(* _rows_per_page: int(page_size // (bytes_per_element + has_nulls / 8)), in eighths to stay in integers *)
Rpp(inp) == (PageBytes(inp) * 8) \div PerElem8(inp)
(* bytes_per_element of text is estimated from the chunk's non-null cells: mean length + 4, and 0 / 4 + 4 = 4 bytes when
   the chunk holds no non-null cell *)
ChunkAllNull(inp, start, len) == \A i \in (start + 1)..(start + len) : Cell(inp, i) = NULL
RppChunk(inp, start, len) ==
  IF Sentinel(inp) = "OBJ" /\ ChunkAllNull(inp, start, len)
  THEN (PageBytes(inp) * 8) \div (32 + (IF Optional(inp) THEN 1 ELSE 0))
  ELSE Rpp(inp)
WantStats(inp) == inp.stats = "true" \/ (inp.stats = "auto" /\ inp.cls.statsAuto)

(* iter_dataframe(data, row_group_offsets): list of row-group start offsets (0-based) *)
RgStarts(n, rgo) ==
  IF rgo = 0 THEN <<0>>                                        \* None -> one huge row group
  ELSE LET nparts == IF ((n - 1) \div rgo) + 1 > 1 THEN ((n - 1) \div rgo) + 1 ELSE 1
           cs0 == ((n - 1) \div nparts) + 1
           cs1 == IF cs0 < n THEN cs0 ELSE n
           chunksize == IF cs1 > 1 THEN cs1 ELSE 1
       IN [k \in 1..(IF n = 0 THEN 0 ELSE ((n - 1) \div chunksize) + 1) |-> (k - 1) * chunksize]

VARIABLES inp,     \* the chosen input
          pc,
          rgs,     \* finished row groups: Seq([start, len, chunk])
          cur,     \* row group under construction
          todo     \* remaining row-group (start, len) pairs
vars == <<inp, pc, rgs, cur, todo>>

Inputs == [cls : Classes, n : RowCounts, nullpat : NullPats, valpat : ValPats, mode : Modes,
           rppwant : RppWants, v : Versions, rgo : RgOffsets, stats : StatsModes, codec : Codecs, opt : WriteOpts]

Sensible(i) == /\ (i.nullpat # "none" => i.cls.sentinel # "NONE")       \* the dtype can hold a missing cell
               /\ (i.opt = "int96" => i.cls.sentinel = "NAT" /\ i.cls.name \notin TdNames)
               /\ (i.opt = "explicit" => i.cls.sentinel = "OBJ")
               /\ (i.opt = "fixed" => i.cls.sentinel = "OBJ" /\ i.cls.dtypeO)
               \* (sampling, not semantics: how the row index is stored does not depend on the codec)
               /\ (i.opt \in {"index", "index2", "rangeidx"} => i.codec \in {"none", "ZSTD"})
               /\ Rpp(i) >= 1                                           \* page at least one element
               /\ (i.n = 0 => i.nullpat = "none" /\ i.valpat = "const")

Init == /\ inp \in {i \in Inputs : Sensible(i)}
        /\ pc = "split" /\ rgs = <<>> /\ cur = <<>> /\ todo = <<>>

(* write raises before anything is produced: the contract's "or else the write raises" *)
Reject == /\ pc = "split" /\ Rejected(inp) /\ pc' = "rejected" /\ UNCHANGED <<inp, rgs, cur, todo>>

Split ==
  /\ pc = "split" /\ ~Rejected(inp)
  /\ LET st == IF inp.n = 0 THEN <<0>> ELSE RgStarts(inp.n, inp.rgo)
         pairs == [k \in DOMAIN st |-> [start |-> st[k],
                                         len |-> (IF k < Len(st) THEN st[k + 1] ELSE inp.n) - st[k]]]
     IN todo' = SelectSeq(pairs, LAMBDA p : p.len > 0)        \* a 0-row row group is never written
  /\ pc' = "chunk" /\ UNCHANGED <<inp, rgs, cur>>

Rows(rg) == (rg.start + 1)..(rg.start + rg.len)
NonNullVals(rg) == {Cell(inp, i) : i \in {j \in Rows(rg) : Cell(inp, j) # NULL}}
Min(S) == CHOOSE x \in S : \A y \in S : x <= y
Max(S) == CHOOSE x \in S : \A y \in S : y <= x

(* write_column preamble: statistics from the whole chunk, before paging *)
BeginChunk ==
  /\ pc = "chunk" /\ todo # <<>>
  /\ LET rg == Head(todo)
         vals == NonNullVals(rg)
         \* categorical statistics are taken over the labels present; NaN/NaT are skipped by max()/min()
         \* an object column holding None cannot be compared by max()/min(): the statistics are silently dropped
         mm == /\ WantStats(inp) /\ vals # {} /\ inp.cls.ordered
               /\ ~(DtypeO(inp) /\ \E i \in Rows(rg) : Cell(inp, i) = NULL)
     IN cur' = [start |-> rg.start, len |-> rg.len, optional |-> Optional(inp), dict |-> AsCat(inp),
                pages |-> <<>>, next |-> rg.start,
                hasmm |-> mm, min |-> IF mm THEN Min(vals) ELSE NULL, max |-> IF mm THEN Max(vals) ELSE NULL,
                nullcount |-> 0]
  /\ pc' = "page" /\ UNCHANGED <<inp, rgs, todo>>

(* one data page: rows [next, min(next + rpp, end)) *)
DataPage ==
  /\ pc = "page" /\ cur.next < cur.start + cur.len
  /\ LET a == cur.next
         rpp == RppChunk(inp, cur.start, cur.len)
         b == IF a + rpp < cur.start + cur.len THEN a + rpp ELSE cur.start + cur.len
         nn == IF cur.optional THEN Cardinality({i \in (a + 1)..b : Cell(inp, i) = NULL}) ELSE 0
         pg == [nvals |-> b - a, nnulls |-> nn, v |-> inp.v,
                def |-> IF ~cur.optional THEN "none" ELSE IF nn = 0 THEN "rle" ELSE "bp",
                enc |-> IF cur.dict THEN "DICT" ELSE "PLAIN"]
     IN cur' = [cur EXCEPT !.pages = Append(@, pg), !.next = b, !.nullcount = @ + nn]
  /\ UNCHANGED <<inp, pc, rgs, todo>>

EndChunk ==
  /\ pc = "page" /\ cur.next = cur.start + cur.len
  /\ rgs' = Append(rgs, cur) /\ todo' = Tail(todo) /\ cur' = <<>> /\ pc' = "chunk"
  /\ UNCHANGED inp

Footer == /\ pc = "chunk" /\ todo = <<>> /\ pc' = "done" /\ UNCHANGED <<inp, rgs, cur, todo>>

Next == Reject \/ Split \/ BeginChunk \/ DataPage \/ EndChunk \/ Footer
Spec == Init /\ [][Next]_vars

----------------------------------------------------------------------------
(* CONTRACT on the finished file *)
Done == pc = "done"
RECURSIVE SumSeq(_)
SumSeq(s) == IF s = <<>> THEN 0 ELSE Head(s) + SumSeq(Tail(s))
PageVals(c) == [p \in DOMAIN c.pages |-> c.pages[p].nvals]
PageNulls(c) == [p \in DOMAIN c.pages |-> c.pages[p].nnulls]

RowGroupsTileFrame == Done => /\ SumSeq([g \in DOMAIN rgs |-> rgs[g].len]) = inp.n
                              /\ \A g \in DOMAIN rgs : rgs[g].len > 0
                              /\ \A g \in 1..(Len(rgs) - 1) : rgs[g].start + rgs[g].len = rgs[g + 1].start
PagesTileChunk == Done => \A g \in DOMAIN rgs : /\ SumSeq(PageVals(rgs[g])) = rgs[g].len
                                                /\ \A p \in DOMAIN rgs[g].pages : rgs[g].pages[p].nvals > 0
NullCountsExact == Done => \A g \in DOMAIN rgs :
     /\ rgs[g].nullcount = SumSeq(PageNulls(rgs[g]))
     /\ rgs[g].nullcount = IF rgs[g].optional
                           THEN Cardinality({i \in Rows(rgs[g]) : Cell(inp, i) = NULL}) ELSE 0
StatsExact == Done => \A g \in DOMAIN rgs :
     LET vals == NonNullVals(rgs[g]) IN
     /\ rgs[g].hasmm => vals # {} /\ rgs[g].min = Min(vals) /\ rgs[g].max = Max(vals)
     /\ (vals = {} \/ ~inp.cls.ordered) => ~rgs[g].hasmm
(* a REQUIRED column never silently drops a missing cell: either rejected or an in-band sentinel exists *)
RejectOrPreserve == Done /\ ~Optional(inp) /\ HasMissing(inp) => Sentinel(inp) \in {"NAN", "NAT"}

(* what an independent reader must decode for row i: "NULL", "SENT" (in-band NaN/NaT) or the value *)
Decoded(i) == IF Cell(inp, i) # NULL THEN Cell(inp, i)
              ELSE IF Optional(inp) THEN NULL ELSE -2
=============================================================================
