---------------------------- MODULE DtypeTableMC ----------------------------
EXTENDS DtypeTable, Json
PhysAll == {"INT32", "INT64", "FLOAT", "DOUBLE", "BOOLEAN", "INT96", "BYTE_ARRAY", "FIXED_LEN_BYTE_ARRAY"}
ConvAll == {"none", "UTF8", "JSON", "DECIMAL", "UINT_8", "UINT_16", "UINT_32", "UINT_64", "INT_8", "INT_16", "INT_32", "INT_64",
            "TIME_MILLIS", "DATE", "TIMESTAMP_MILLIS", "TIME_MICROS", "TIMESTAMP_MICROS"}
UnitsAll == {"none", "ms", "us", "ns"}
RepsBoth == {"REQUIRED", "OPTIONAL"}
MdAll == {"absent", "natural", "nullable", "coarser", "tz"}
StatsAll == {"absent", "zero", "some"}
NullsBoth == {TRUE, FALSE}
Export == PrintT(ToJson([pt |-> c.pt, ct |-> c.ct, lts |-> c.lts, rep |-> c.rep, md |-> k, mdtype |-> MdType(c, k),
                         stat |-> st, pandas_nulls |-> pn, announce |-> Announce(c, k, st, pn)]))
=============================================================================
