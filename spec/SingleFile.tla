----------------------------- MODULE SingleFile -----------------------------
(***************************************************************************)
(* One Parquet file whose footer is rewritten in place.                    *)
(*                                                                         *)
(*   file scheme 'simple':   write(append=True)          (C07, C18)        *)
(*   any data file / _metadata:  update_file_custom_metadata  (C16)        *)
(*                                                                         *)
(* MECHANISM layer: one action per file-handle call of                     *)
(*   fastparquet.writer.write_simple(append=True)  and                     *)
(*   fastparquet.writer.update_file_custom_metadata,                       *)
(* with the intermediate states the code has (old footer overwritten by    *)
(* row-group bytes, new footer not yet written; new trailer written, stale *)
(* tail not yet cut).                                                      *)
(* CONTRACT layer: what any reader finds in the file between operations.   *)
(*                                                                         *)
(* Variant switches (as-found behaviour of the pinned tree in brackets):   *)
(*   TruncateAfterKv   [FALSE before the fix]  cut the file after the new  *)
(*                     trailer in update_file_custom_metadata              *)
(*   TruncateAfterAppend [FALSE]  same for the append path                 *)
(*   RestoreOnFailure  [FALSE before the fix] a failed append puts the     *)
(*                     saved tail back (and truncates: RestoreTruncates)   *)
(***************************************************************************)
EXTENDS FileBytes, FiniteSets, TLC

CONSTANTS
  Keys,            \* user metadata keys
  Vals,            \* user metadata values; a value IS its length in bytes (Nat)
  KeyCost,         \* footer bytes per present key besides the value itself
  FootBase,        \* footer bytes with no key and no row group
  RgCost,          \* footer bytes per row group
  NCols,           \* column chunks per row group
  ChunkSizes,      \* possible byte sizes of one column chunk
  MaxNewRgs,       \* row groups per append: 0..MaxNewRgs
  MaxOps,          \* operations per history
  MetaFileAllowed, \* also explore a pure-metadata file (loc = 4)
  EnableKv, EnableAppend, EnableFail,   \* which operations a history may contain
  TruncateAfterKv, TruncateAfterAppend, RestoreOnFailure,
  RestoreTruncates,  \* the restored footer is followed by a truncate (FALSE: a model mutant)
  FailKinds          \* why a column write may raise: "encode" (object that cannot be encoded), "codec" (unknown codec),
                     \* "null" (missing value in a column the FILE declares non-nullable)

Absent == -1                       \* key not present
None   == -2                       \* update value meaning "remove"

VARIABLES
  file,      \* extents (FileBytes)
  isMeta,    \* a _metadata file (no data region)
  pos,       \* handle position (0-based) while an operation holds the file open
  pc,        \* control point of the operation in progress, "idle" between operations
  op,        \* the operation in progress (arguments and locals)
  com,       \* CONTRACT: footer content [rgs, kv] a reader must find when idle
  rgext,     \* ghost: row group id -> [off, ext] (where its bytes must be, what they are)
  nrg,       \* row group ids allocated so far
  nops,      \* operations started so far
  last       \* outcome of the last finished operation: "ok" | "raised" | "none"

vars == <<file, isMeta, pos, pc, op, com, rgext, nrg, nops, last>>

----------------------------------------------------------------------------
(* footer contents and sizes *)

KvDicts  == [Keys -> Vals \cup {Absent}]
Updates  == [Keys -> Vals \cup {Absent, None}]       \* Absent = key not mentioned in the update

RECURSIVE SumKv(_, _)
SumKv(kv, ks) == IF ks = {} THEN 0
                 ELSE LET k == CHOOSE x \in ks : TRUE IN
                      (IF kv[k] = Absent THEN 0 ELSE KeyCost + kv[k]) + SumKv(kv, ks \ {k})

FSize(rgs, kv) == FootBase + RgCost * Len(rgs) + SumKv(kv, Keys)

(* util.update_custom_metadata: add, replace, or (None) remove exactly the named keys *)
MergeKeys(kv, upd) == [k \in Keys |-> IF upd[k] = Absent THEN kv[k]
                                      ELSE IF upd[k] = None THEN Absent ELSE upd[k]]

(* a footer's bytes are determined by its content: equal contents, equal bytes *)
Content(rgs, kv) == [rgs |-> rgs, kv |-> kv]
CSize(c)   == FSize(c.rgs, c.kv)      \* size the exhaustive model gives a footer
(* the source carries content AND size: in trace validation the size is the *)
(* one the implementation logged, in model checking it is CSize(content)    *)
FootSrc(c, n) == <<"F", c, n>>
FootExt(c, n) == Whole(FootSrc(c, n), n)
(* the extent sequence r begins with one complete serialised footer *)
StartsWithFooter(r) == r # <<>> /\ r[1].src[1] = "F" /\ r[1].lo = 1 /\ r[1].hi = r[1].src[3]
FooterSizeAt(r)    == r[1].src[3]

----------------------------------------------------------------------------
(* CONTRACT: what a reader finds.  A reader looks at the last 8 bytes, takes *)
(* the declared length n, and parses a FileMetaData at  end - 8 - n.         *)

(* the set of footers a reader finds: empty (unreadable) or one content *)
ReaderFinds(f) ==
  LET T == FLen(f) IN
  IF T < 12 \/ ~IsMagicAt(f, T - 4) \/ ~IsMagicAt(f, 0) THEN {}
  ELSE LET n == DecodeLen(f, T - 8) IN
       IF n < 1 \/ n > T - 12 THEN {}
       ELSE LET r == Range(f, T - 8 - n, n) IN
            IF StartsWithFooter(r) THEN {r[1].src[2]} ELSE {}

(* strict reading: the declared length is exactly the footer, nothing stale behind *)
StrictLayout(f) ==
  LET T == FLen(f)  n == DecodeLen(f, T - 8) IN
  /\ ReaderFinds(f) # {}
  /\ FooterSizeAt(Range(f, T - 8 - n, n)) = n

RgReadable(f, g) == Range(f, rgext[g].off, FLen(rgext[g].ext)) = rgext[g].ext

Idle == pc = "idle"

(* C16 / C18 / C07: between operations the file opens and shows the committed version *)
Openable      == Idle => ReaderFinds(file) = {com}
(* ... and every row group that version references is where the footer says, intact *)
RowsReadable  == Idle /\ ReaderFinds(file) = {com} =>
                   \A i \in 1..Len(com.rgs) : RgReadable(file, com.rgs[i])
NoStaleTail   == Idle /\ ReaderFinds(file) = {com} => StrictLayout(file)

(* C07 / C16: bytes of committed row groups never change, at ANY step *)
DataEnd == IF com.rgs = <<>> THEN 4
           ELSE LET g == com.rgs[Len(com.rgs)] IN rgext[g].off + FLen(rgext[g].ext)
DataIntact == [][Range(file', 0, DataEnd) = Range(file, 0, DataEnd)]_vars

(* C07: an append only ever adds row groups at the end of the committed list *)
AppendOnly == [][\/ com'.rgs = com.rgs
                 \/ /\ Len(com'.rgs) > Len(com.rgs)
                    /\ SubSeq(com'.rgs, 1, Len(com.rgs)) = com.rgs /\ com'.kv = com.kv]_vars

(* C16: a key-value update changes exactly the named keys *)
KvExact == [][(pc = "kv_close" /\ pc' = "idle") =>
                 /\ com'.kv = MergeKeys(com.kv, op.upd)
                 /\ com'.rgs = com.rgs]_vars

(* C18: an operation that raised leaves the committed version in place *)
FailureKeepsVersion == [][last' = "raised" /\ pc' = "idle" /\ pc # "idle" => com' = com]_vars

----------------------------------------------------------------------------
(* MECHANISM *)

NoOp == [kind |-> "none"]

InitFile(meta, nrg0, kv0, sizes) ==
  \* sizes: sequence of chunk sizes, NCols per row group
  LET RECURSIVE Build(_, _, _)
      Build(g, c, acc) ==      \* acc = [f, rgx]
        IF g > nrg0 THEN acc
        ELSE LET sz == sizes[(g - 1) * NCols + c]
                 e  == Whole(<<"D", g, c, 1>>, sz)
                 f2 == acc.f \o <<e>>
                 rx == IF c = 1 THEN [off |-> FLen(acc.f), ext |-> <<e>>]
                       ELSE [off |-> acc.rgx[g].off, ext |-> acc.rgx[g].ext \o <<e>>]
                 rgx2 == IF c = 1 THEN acc.rgx \o <<rx>> ELSE [acc.rgx EXCEPT ![g] = rx]
             IN IF c = NCols THEN Build(g + 1, 1, [f |-> f2, rgx |-> rgx2])
                ELSE Build(g, c + 1, [f |-> f2, rgx |-> rgx2])
  IN Build(1, 1, [f |-> <<MagicExt>>, rgx |-> <<>>])

Init ==
  \E meta \in (IF MetaFileAllowed THEN BOOLEAN ELSE {FALSE}), kv0 \in KvDicts :
  \E nrg0 \in (IF meta THEN {0} ELSE 0..1) :
  \E sizes \in [1..(nrg0 * NCols) -> ChunkSizes] :
    LET b   == InitFile(meta, nrg0, kv0, sizes)
        rgs == [i \in 1..nrg0 |-> i]
        n   == FSize(rgs, kv0)
    IN /\ isMeta = meta
       /\ com = Content(rgs, kv0)
       /\ rgext = b.rgx
       /\ file = Norm(b.f \o <<FootExt(Content(rgs, kv0), n), LenExt(n), MagicExt>>)
       /\ nrg = nrg0
       /\ pos = -1 /\ pc = "idle" /\ op = NoOp /\ nops = 0 /\ last = "none"

Raise == /\ pc' = "idle" /\ op' = NoOp /\ pos' = -1 /\ last' = "raised"

(* ---- update_file_custom_metadata(path, upd) ---- *)

(* ord = iteration order of the caller's update dict (0: key order, 1: reversed).  The contract does not depend *)
(* on it - the parameter exists so that the replay of the history tree covers both orders.                     *)
KvBegin(upd, ord) ==
  /\ Idle /\ nops < MaxOps
  /\ pc' = "kv_tail" /\ op' = [kind |-> "kv", upd |-> upd, ord |-> ord] /\ pos' = 0 /\ nops' = nops + 1
  /\ UNCHANGED <<file, isMeta, com, rgext, nrg, last>>

(* loc0 = f.seek(-8, 2); size = read(4); loc = loc0 - size      [or loc = 4] *)
KvTail ==
  /\ pc = "kv_tail"
  /\ LET T == FLen(file)
         hs == IF isMeta THEN T - 12 ELSE DecodeLen(file, T - 8)
         loc == IF isMeta THEN 4 ELSE (T - 8) - hs
     IN IF hs < 0 \/ loc < 4
        THEN Raise /\ UNCHANGED <<file, isMeta, com, rgext, nrg, nops>>
        ELSE /\ op' = [op EXCEPT !.kind = "kv"] @@ [loc |-> loc, hsize |-> hs]
             /\ pos' = loc /\ pc' = "kv_parse"
             /\ UNCHANGED <<file, isMeta, com, rgext, nrg, nops, last>>

(* f.seek(loc); data = f.read(); fmd = from_buffer(data) *)
KvParse ==
  /\ pc = "kv_parse"
  /\ LET r == DropBytes(file, op.loc) IN
     IF StartsWithFooter(r)
     THEN /\ op' = op @@ [fmd |-> r[1].src[2]]
          /\ pc' = "kv_write" /\ pos' = op.loc
          /\ UNCHANGED <<file, isMeta, com, rgext, nrg, nops, last>>
     ELSE Raise /\ UNCHANGED <<file, isMeta, com, rgext, nrg, nops>>

(* f.seek(loc); write_thrift(f, fmd) *)
KvNewContent == Content(op.fmd.rgs, MergeKeys(op.fmd.kv, op.upd))
KvWriteFooter(n) ==
  /\ pc = "kv_write"
  /\ LET c == KvNewContent
     IN /\ file' = WriteAt(file, op.loc, FootExt(c, n))
        /\ pos' = op.loc + n
        /\ op' = op @@ [new |-> c, n |-> n]
  /\ pc' = "kv_len"
  /\ UNCHANGED <<isMeta, com, rgext, nrg, nops, last>>

KvWriteLen ==
  /\ pc = "kv_len"
  /\ file' = WriteAt(file, pos, LenExt(op.n)) /\ pos' = pos + 4
  /\ pc' = "kv_magic"
  /\ UNCHANGED <<isMeta, op, com, rgext, nrg, nops, last>>

KvWriteMagic ==
  /\ pc = "kv_magic"
  /\ file' = WriteAt(file, pos, MagicExt) /\ pos' = pos + 4
  /\ pc' = IF TruncateAfterKv THEN "kv_trunc" ELSE "kv_close"
  /\ UNCHANGED <<isMeta, op, com, rgext, nrg, nops, last>>

KvTruncate ==
  /\ pc = "kv_trunc"
  /\ file' = Truncate(file, pos) /\ pc' = "kv_close"
  /\ UNCHANGED <<isMeta, pos, op, com, rgext, nrg, nops, last>>

KvClose ==
  /\ pc = "kv_close"
  /\ com' = op.new /\ pc' = "idle" /\ pos' = -1 /\ last' = "ok" /\ op' = op
  /\ UNCHANGED <<file, isMeta, rgext, nrg, nops>>

(* ---- write(fn, df, append=True) on a 'simple' file ---- *)
(* ParquetFile(fn) parses the footer a reader finds; write_simple then opens 'rb+' *)

(* an append the library refuses before touching the file: different columns, file scheme, partitioning ... *)
AppRefuse(kind) ==
  /\ Idle /\ nops < MaxOps /\ ~isMeta
  /\ nops' = nops + 1 /\ op' = [kind |-> "refuse", why |-> kind] /\ last' = "raised" /\ pc' = "idle" /\ pos' = -1
  /\ UNCHANGED <<file, isMeta, com, rgext, nrg>>

AppBegin(k, failg, failc, why, big) ==
  \* k new row groups; the write raises when it reaches chunk (failg, failc); failg = 0: no failure
  /\ Idle /\ nops < MaxOps /\ ~isMeta
  /\ nops' = nops + 1
  /\ LET found == ReaderFinds(file) IN
     IF found = {}
     THEN Raise /\ UNCHANGED <<file, isMeta, com, rgext, nrg>>
     ELSE /\ op' = [kind |-> "app", k |-> k, failg |-> failg, failc |-> failc, why |-> why, big |-> big,
                    fmd |-> CHOOSE c \in found : TRUE,
                    g |-> 1, c |-> 1, newrgs |-> <<>>, saved |-> <<>>, savedAt |-> 0]
          /\ pc' = "app_tail" /\ pos' = 0
          /\ UNCHANGED <<file, isMeta, com, rgext, nrg, last>>

(* f.seek(-8, 2); head_size = read(4); f.seek(-(head_size + 8), 2) *)
AppTail ==
  /\ pc = "app_tail"
  /\ LET T == FLen(file)  hs == DecodeLen(file, T - 8) IN
     IF hs < 0 \/ T - (hs + 8) < 4
     THEN Raise /\ UNCHANGED <<file, isMeta, com, rgext, nrg, nops>>
     ELSE /\ pos' = T - (hs + 8)
          /\ op' = [op EXCEPT !.saved = DropBytes(file, T - (hs + 8)), !.savedAt = T - (hs + 8)]
          /\ pc' = "app_rgs"
          /\ UNCHANGED <<file, isMeta, com, rgext, nrg, nops, last>>

(* make_row_group -> write_column(f, ...) for one column chunk *)
AppWriteChunk(sz) ==
  /\ pc = "app_rgs" /\ op.g <= op.k
  /\ ~(op.g = op.failg /\ op.c = op.failc)
  /\ LET g  == nrg + 1
         e  == Whole(<<"D", g, op.c, 1>>, sz)
         rx == IF op.c = 1 THEN [off |-> pos, ext |-> <<e>>]
               ELSE [off |-> rgext[g].off, ext |-> rgext[g].ext \o <<e>>]
     IN /\ file' = WriteAt(file, pos, e) /\ pos' = pos + sz
        /\ rgext' = IF op.c = 1 THEN rgext \o <<rx>> ELSE [rgext EXCEPT ![g] = rx]
        /\ IF op.c = NCols
           THEN /\ nrg' = g
                /\ op' = [op EXCEPT !.g = op.g + 1, !.c = 1, !.newrgs = op.newrgs \o <<g>>]
           ELSE /\ nrg' = nrg
                /\ op' = [op EXCEPT !.c = op.c + 1]
  /\ UNCHANGED <<isMeta, pc, com, nops, last>>

(* the column cannot be encoded: exception propagates out of `with of as f`, file closed *)
AppFail ==
  /\ pc = "app_rgs" /\ op.g <= op.k /\ op.g = op.failg /\ op.c = op.failc
  /\ file' = IF ~RestoreOnFailure THEN file
             ELSE IF RestoreTruncates THEN Norm(Prefix(file, op.savedAt) \o op.saved)
             ELSE Norm(Prefix(file, op.savedAt) \o op.saved \o DropBytes(file, op.savedAt + FLen(op.saved)))
  /\ Raise
  \* a partly written row group id is burnt so that ghost extents stay unambiguous
  /\ nrg' = IF op.c = 1 THEN nrg ELSE nrg + 1
  /\ UNCHANGED <<isMeta, com, rgext, nops>>

AppNewContent == Content(op.fmd.rgs \o op.newrgs, op.fmd.kv)
AppWriteFooter(n) ==
  /\ pc = "app_rgs" /\ op.g > op.k
  /\ LET c == AppNewContent
     IN /\ file' = WriteAt(file, pos, FootExt(c, n)) /\ pos' = pos + n
        /\ op' = op @@ [new |-> c, n |-> n]
  /\ pc' = "app_len"
  /\ UNCHANGED <<isMeta, com, rgext, nrg, nops, last>>

AppWriteLen ==
  /\ pc = "app_len"
  /\ file' = WriteAt(file, pos, LenExt(op.n)) /\ pos' = pos + 4 /\ pc' = "app_magic"
  /\ UNCHANGED <<isMeta, op, com, rgext, nrg, nops, last>>

AppWriteMagic ==
  /\ pc = "app_magic"
  /\ file' = WriteAt(file, pos, MagicExt) /\ pos' = pos + 4
  /\ pc' = IF TruncateAfterAppend THEN "app_trunc" ELSE "app_close"
  /\ UNCHANGED <<isMeta, op, com, rgext, nrg, nops, last>>

AppTruncate ==
  /\ pc = "app_trunc"
  /\ file' = Truncate(file, pos) /\ pc' = "app_close"
  /\ UNCHANGED <<isMeta, pos, op, com, rgext, nrg, nops, last>>

AppClose ==
  /\ pc = "app_close"
  /\ com' = op.new /\ pc' = "idle" /\ pos' = -1 /\ last' = "ok" /\ op' = op
  /\ UNCHANGED <<file, isMeta, rgext, nrg, nops>>

NonTrivialUpd(u) == \E k \in Keys : u[k] # Absent

Mentioned(u)     == {k \in Keys : u[k] # Absent}
DoKvBegin        == EnableKv /\ \E u \in Updates : \E ord \in 0..1 :
                       /\ NonTrivialUpd(u) /\ (ord = 1 => Cardinality(Mentioned(u)) >= 2) /\ KvBegin(u, ord)
DoKvWriteFooter  == pc = "kv_write" /\ KvWriteFooter(CSize(KvNewContent))
DoAppBegin       == EnableAppend /\ \E k \in 0..MaxNewRgs : \E fg \in 0..k : \E fc \in 1..NCols :
                       \E why \in {"none"} \cup FailKinds :
                       /\ (fg = 0 => fc = 1) /\ (fg # 0 => EnableFail) /\ (fg = 0 <=> why = "none")
                       /\ (why = "codec" => fg = 1)      \* an unknown codec is met in the first row group
                       /\ \E big \in BOOLEAN : (big => fg # 0) /\ AppBegin(k, fg, fc, why, big)
DoAppRefuse      == EnableAppend /\ EnableFail /\ \E kind \in {"columns", "scheme"} : AppRefuse(kind)
MaxChunk         == CHOOSE x \in ChunkSizes : \A y \in ChunkSizes : y <= x
(* a "big" append writes more bytes than the footer it overwrites *)
DoAppWriteChunk  == \E sz \in ChunkSizes : (op.kind = "app" /\ op.big => sz = MaxChunk) /\ AppWriteChunk(sz)
DoAppWriteFooter == pc = "app_rgs" /\ op.g > op.k /\ AppWriteFooter(CSize(AppNewContent))

Next ==
  \/ DoKvBegin \/ KvTail \/ KvParse \/ DoKvWriteFooter \/ KvWriteLen \/ KvWriteMagic \/ KvTruncate \/ KvClose
  \/ DoAppBegin \/ DoAppRefuse \/ AppTail \/ DoAppWriteChunk \/ AppFail
  \/ DoAppWriteFooter \/ AppWriteLen \/ AppWriteMagic \/ AppTruncate \/ AppClose

Spec == Init /\ [][Next]_vars

----------------------------------------------------------------------------
(* witnesses (expected to be VIOLATED: they show the antecedents are reachable) *)
WitnessShrink  == ~(Idle /\ last = "ok" /\ nops > 0 /\ FLen(file) > DataEnd + CSize(com) + 8)
WitnessRaised  == ~(Idle /\ last = "raised")
WitnessAppend2 == ~(Idle /\ Len(com.rgs) >= 2)
=============================================================================
