----------------------------- MODULE DtypeTable -----------------------------
(***************************************************************************)
(* The dtype a column is ANNOUNCED to have from metadata alone (C17):       *)
(* transcription of converted_types.typemap and of the post-processing in   *)
(* ParquetFile._dtypes (api.py), as a function of                           *)
(*   - the schema element: physical type, converted type, logical           *)
(*     timestamp unit, repetition;                                          *)
(*   - the pandas metadata entry of the column (absent / what numpy_type    *)
(*     it records);                                                         *)
(*   - the null-count statistics of the column's chunks;                    *)
(*   - the pandas_nulls option.                                             *)
(* CONTRACT (checked on the real code for every enumerated case):           *)
(*   announced dtype (pf._dtypes / pf.dtypes) = dtype of the column in the  *)
(*   frame actually read, for the whole file and for a zero-row selection.  *)
(* MECHANISM: Announce(c) below; a real announcement that differs from it   *)
(* while the contract holds is drift of this transcription, not a defect.   *)
(***************************************************************************)
EXTENDS Integers, Sequences, FiniteSets, TLC

CONSTANTS Physicals, Converteds, LogicalUnits, Repetitions, MdKinds, StatKinds, NullOpts

(* which converted types may annotate which physical type (Parquet LogicalTypes.md) *)
ValidCT(pt, ct) ==
  \/ ct = "none"
  \/ pt = "INT32" /\ ct \in {"UINT_8", "UINT_16", "UINT_32", "INT_8", "INT_16", "INT_32", "DATE", "TIME_MILLIS", "DECIMAL"}
  \/ pt = "INT64" /\ ct \in {"UINT_64", "INT_64", "TIMESTAMP_MILLIS", "TIMESTAMP_MICROS", "TIME_MICROS", "DECIMAL"}
  \/ pt = "BYTE_ARRAY" /\ ct \in {"UTF8", "JSON", "DECIMAL"}
  \/ pt = "FIXED_LEN_BYTE_ARRAY" /\ ct \in {"DECIMAL"}

Simple(pt) == CASE pt = "INT32" -> "int32" [] pt = "INT64" -> "int64" [] pt = "FLOAT" -> "float32"
                [] pt = "DOUBLE" -> "float64" [] pt = "BOOLEAN" -> "bool" [] pt = "INT96" -> "S12"
                [] pt = "BYTE_ARRAY" -> "object" [] pt = "FIXED_LEN_BYTE_ARRAY" -> "object"
Complex(ct) == CASE ct = "UTF8" -> "object" [] ct = "DECIMAL" -> "float64"
                 [] ct = "UINT_8" -> "uint8" [] ct = "UINT_16" -> "uint16" [] ct = "UINT_32" -> "uint32" [] ct = "UINT_64" -> "uint64"
                 [] ct = "INT_8" -> "int8" [] ct = "INT_16" -> "int16" [] ct = "INT_32" -> "int32" [] ct = "INT_64" -> "int64"
                 [] ct = "TIME_MILLIS" -> "timedelta64[ms]" [] ct = "DATE" -> "datetime64[ns]"
                 [] ct = "TIMESTAMP_MILLIS" -> "datetime64[ms]" [] ct = "TIME_MICROS" -> "timedelta64[us]"
                 [] ct = "TIMESTAMP_MICROS" -> "datetime64[us]" [] OTHER -> "object"

IntLike(d) == d \in {"int8", "int16", "int32", "int64", "uint8", "uint16", "uint32", "uint64", "bool"}
NullableOf(d) == CASE d = "int8" -> "Int8" [] d = "int16" -> "Int16" [] d = "int32" -> "Int32" [] d = "int64" -> "Int64"
                   [] d = "uint8" -> "UInt8" [] d = "uint16" -> "UInt16" [] d = "uint32" -> "UInt32" [] d = "uint64" -> "UInt64"
                   [] d = "bool" -> "boolean"
IsDatetime(d) == d \in {"datetime64[ns]", "datetime64[us]", "datetime64[ms]", "datetime64[s]"}

(* the natural numpy dtype of the column, used by the metadata kinds that record "what pandas had" *)
Natural(c) == IF c.lts # "none" THEN "datetime64[" \o c.lts \o "]"
              ELSE IF c.ct = "none" THEN (IF c.pt = "INT96" THEN "datetime64[ns]" ELSE Simple(c.pt)) ELSE Complex(c.ct)

(* what the pandas metadata entry records as numpy_type, per kind:
   absent   - the file has no pandas metadata at all
   natural  - the plain numpy dtype (what pandas.DataFrame.to_parquet writes for non-nullable columns)
   nullable - the masked extension dtype name (Int64, boolean ...), only for int-like columns
   coarser  - datetime columns only: the frame had second resolution (datetime64[s]) while the file stores ms
   tz       - datetime columns only: the entry carries metadata {"timezone": "UTC"} next to numpy_type datetime64[ns] *)
MdType(c, k) == CASE k = "absent" -> "-"
                  [] k = "natural" -> Natural(c)
                  [] k = "nullable" -> NullableOf(Natural(c))
                  [] k = "coarser" -> "datetime64[s]"
                  [] k = "tz" -> "datetime64[ns]"
ValidMd(c, k) == /\ (k = "nullable" => IntLike(Natural(c)))
                 /\ (k = "coarser" => IsDatetime(Natural(c)) /\ Natural(c) = "datetime64[ms]")
                 /\ (k = "tz" => IsDatetime(Natural(c)) /\ c.pt = "INT64")

Typemap(c, k) ==
  LET nt == MdType(c, k) IN
  IF k = "nullable" THEN nt                                         \* "Int" in numpy_type or numpy_type = "boolean"
  ELSE IF c.lts # "none" THEN "datetime64[" \o c.lts \o "]"
  ELSE IF c.ct = "none" THEN Simple(c.pt)
  ELSE IF k # "absent" /\ (IsDatetime(nt) \/ nt \in {"timedelta64[ms]", "timedelta64[us]"}) THEN nt     \* "time" in numpy_type
  ELSE Complex(c.ct)

(* statistics kinds: "absent" no Statistics in some chunk; "zero" null_count = 0 in every chunk; "some" null_count > 0 somewhere *)
MayHaveNulls(st) == st \in {"absent", "some"}

Announce(c, k, st, pandasNulls) ==
  LET t == Typemap(c, k) IN
  IF IsDatetime(t) THEN (IF k = "tz" THEN "datetime64[ns, UTC]"             \* localised with the recorded time zone
                         ELSE IF k # "absent" THEN MdType(c, k) ELSE t)     \* original resolution from the pandas metadata
  ELSE IF IntLike(t) THEN
         IF k # "absent" /\ IntLike(MdType(c, k)) THEN t                       \* metadata says a plain numpy int/bool: kept
         ELSE IF MayHaveNulls(st) THEN (IF pandasNulls THEN NullableOf(t) ELSE "float64")
         ELSE t
  ELSE IF t = "S12" THEN "datetime64[ns]"
  ELSE t

VARIABLES c, k, st, pn
Cols == {x \in [pt : Physicals, ct : Converteds, lts : LogicalUnits, rep : Repetitions] :
           /\ ValidCT(x.pt, x.ct)
           /\ (x.lts # "none" => x.pt = "INT64" /\ x.ct \in {"none"})}
ValidStat(x, s) == (s = "some" => x.rep = "OPTIONAL")
(* pandas metadata that records a plain numpy integer/bool for a column that does hold missing values describes no frame
   pandas could have had: such files are outside the quantifier (the library refuses them with a TypeError) *)
Consistent(x, kk, s) == ~(kk = "natural" /\ IntLike(Natural(x)) /\ s = "some")
Init == /\ c \in Cols /\ k \in MdKinds /\ st \in StatKinds /\ pn \in NullOpts /\ ValidMd(c, k) /\ ValidStat(c, st)
        /\ Consistent(c, k, st)
Next == UNCHANGED <<c, k, st, pn>>
Spec == Init /\ [][Next]_<<c, k, st, pn>>

(* properties of the table itself, checked by TLC over the whole product *)
(* a column that may hold nulls is never announced with a dtype that cannot represent a missing value,
   unless the pandas metadata explicitly records a plain numpy integer/bool *)
NullsRepresentable ==
  (MayHaveNulls(st) /\ ~(k # "absent" /\ IntLike(MdType(c, k)))) => ~IntLike(Announce(c, k, st, pn))
(* the option pandas_nulls only matters for int-like columns that may hold nulls *)
OptionOnlyMattersForIntLike ==
  Announce(c, k, st, TRUE) # Announce(c, k, st, FALSE) => IntLike(Typemap(c, k)) /\ MayHaveNulls(st)
=============================================================================
