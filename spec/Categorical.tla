---------------------------- MODULE Categorical ----------------------------
(***************************************************************************)
(* Dictionary-encoded categorical columns across row groups / files         *)
(* (C07 appends with different category sets, C14 files with different      *)
(* dictionaries).                                                           *)
(*                                                                         *)
(* Writer: every batch (row group) stores ITS OWN dictionary = the batch's  *)
(* category list, and the rows as codes into it.                            *)
(* Reader mechanism (core.read_col): one output Categorical for the whole   *)
(* read; for every chunk in turn the output's category list is REPLACED by  *)
(* that chunk's dictionary and the chunk's raw codes are stored.            *)
(* Contract: every row reads back the label it was written with.            *)
(*                                                                         *)
(* Variant switch RemapCodes [FALSE as found]: codes are translated into    *)
(* one merged category list.                                                *)
(***************************************************************************)
EXTENDS Integers, Sequences, FiniteSets, TLC

CONSTANTS Dicts,        \* the category lists a batch may carry (sequences of labels without repetition)
          MaxBatches, MaxRows, RemapCodes

VARIABLES rgs,   \* written row groups: Seq([dict, codes])   codes are 1-based positions into dict
          pc,    \* "write" | "read" | "done"
          i,     \* next chunk the reader visits
          cats,  \* reader: current category list of the output
          codes  \* reader: codes stored so far (positions into `cats`)
vars == <<rgs, pc, i, cats, codes>>

Range(s) == {s[j] : j \in DOMAIN s}
RECURSIVE Flatten(_)
Flatten(ss) == IF ss = <<>> THEN <<>> ELSE Head(ss) \o Flatten(Tail(ss))

Written == Flatten([g \in DOMAIN rgs |-> [r \in DOMAIN rgs[g].codes |-> rgs[g].dict[rgs[g].codes[r]]]])
Decoded == [r \in DOMAIN codes |-> IF codes[r] \in DOMAIN cats THEN cats[codes[r]] ELSE "?"]

Init == rgs = <<>> /\ pc = "write" /\ i = 1 /\ cats = <<>> /\ codes = <<>>

WriteBatch(d, cs) == /\ pc = "write" /\ Len(rgs) < MaxBatches
                     /\ rgs' = Append(rgs, [dict |-> d, codes |-> cs])
                     /\ UNCHANGED <<pc, i, cats, codes>>
StartRead == pc = "write" /\ rgs # <<>> /\ pc' = "read" /\ UNCHANGED <<rgs, i, cats, codes>>

Pos(s, x) == CHOOSE j \in DOMAIN s : s[j] = x
RECURSIVE Merge(_, _)
Merge(a, b) == IF b = <<>> THEN a
               ELSE IF Head(b) \in Range(a) THEN Merge(a, Tail(b)) ELSE Merge(Append(a, Head(b)), Tail(b))

ReadChunk ==
  /\ pc = "read" /\ i <= Len(rgs)
  /\ LET g == rgs[i] IN
     IF RemapCodes
     THEN /\ cats' = Merge(cats, g.dict)
          /\ codes' = codes \o [r \in DOMAIN g.codes |-> Pos(Merge(cats, g.dict), g.dict[g.codes[r]])]
     ELSE /\ cats' = IF g.codes = <<>> THEN cats ELSE g.dict     \* catdef._set_categories(dic, fastpath=True); a row
                                                                  \* group without rows is skipped, its dictionary never read
          /\ codes' = codes \o g.codes
  /\ i' = i + 1 /\ UNCHANGED <<rgs, pc>>
EndRead == pc = "read" /\ i > Len(rgs) /\ pc' = "done" /\ UNCHANGED <<rgs, i, cats, codes>>

CodeSeqs(d) == UNION {[1..n -> DOMAIN d] : n \in 0..MaxRows}
Next == \/ \E d \in Dicts : \E cs \in CodeSeqs(d) : WriteBatch(d, cs)
        \/ StartRead \/ ReadChunk \/ EndRead
Spec == Init /\ [][Next]_vars

(* CONTRACT (C07 / C14): every row keeps its label *)
LabelsPreserved == pc = "done" => Decoded = Written

(* which written histories the as-found mechanism misreads: used as the prediction for the replay *)
Misread == pc = "done" /\ Decoded # Written
=============================================================================
