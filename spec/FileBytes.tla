----------------------------- MODULE FileBytes -----------------------------
(***************************************************************************)
(* A byte-accurate but scale-free model of one file and one file handle.   *)
(*                                                                         *)
(* A file is a sequence of EXTENTS  [src, lo, hi] : bytes lo..hi (1-based) *)
(* of the byte string named `src`.  Two bytes are equal iff they come from *)
(* the same source at the same index ("symbolic bytes"): what a reader     *)
(* finds in the last 8 bytes after partial overwrites is then expressible  *)
(* without ever holding a real byte sequence, and the same operators work  *)
(* for footers of 5 symbolic bytes (exhaustive model checking) and of 700  *)
(* real bytes (validation of traces recorded from the implementation).     *)
(*                                                                         *)
(* Sources used by the modules that extend this one:                       *)
(*    <<"M">>          the 4 magic bytes "PAR1"                            *)
(*    <<"L", n>>       the 4-byte little-endian length field holding n     *)
(*    <<"F", v>>       the serialised footer (FileMetaData) of version v   *)
(*    <<"D", g, c, k>> k-th write of column chunk c of row group g         *)
(***************************************************************************)
EXTENDS Integers, Sequences

Ext(src, lo, hi) == [src |-> src, lo |-> lo, hi |-> hi]
Whole(src, n)    == Ext(src, 1, n)
ExtLen(e)        == e.hi - e.lo + 1

RECURSIVE FLen(_)
FLen(f) == IF f = <<>> THEN 0 ELSE ExtLen(Head(f)) + FLen(Tail(f))

(* canonical form: no empty extents, adjacent pieces of one source merged *)
RECURSIVE Norm(_)
Norm(f) ==
  IF f = <<>> THEN <<>>
  ELSE LET e == Head(f)  r == Norm(Tail(f)) IN
       IF e.hi < e.lo THEN r
       ELSE IF r # <<>> /\ Head(r).src = e.src /\ Head(r).lo = e.hi + 1
            THEN <<Ext(e.src, e.lo, Head(r).hi)>> \o Tail(r)
            ELSE <<e>> \o r

(* the first n bytes *)
RECURSIVE Prefix(_, _)
Prefix(f, n) ==
  IF n <= 0 \/ f = <<>> THEN <<>>
  ELSE LET e == Head(f) IN
       IF ExtLen(e) <= n THEN <<e>> \o Prefix(Tail(f), n - ExtLen(e))
       ELSE <<Ext(e.src, e.lo, e.lo + n - 1)>>

(* everything after the first n bytes *)
RECURSIVE DropBytes(_, _)
DropBytes(f, n) ==
  IF f = <<>> THEN <<>>
  ELSE IF n <= 0 THEN f
  ELSE LET e == Head(f) IN
       IF ExtLen(e) <= n THEN DropBytes(Tail(f), n - ExtLen(e))
       ELSE <<Ext(e.src, e.lo + n, e.hi)>> \o Tail(f)

(* bytes [p, p+n) , p a 0-based offset *)
Range(f, p, n) == Norm(Prefix(DropBytes(f, p), n))

(* write the extent e at 0-based offset p (p <= FLen(f)); like a real file, *)
(* bytes beyond the written range stay: nothing is truncated                *)
WriteAt(f, p, e) == Norm(Prefix(f, p) \o <<e>> \o DropBytes(f, p + ExtLen(e)))

Truncate(f, n) == Norm(Prefix(f, n))

Magic      == <<"M">>
LenSrc(n)  == <<"L", n>>
MagicExt   == Whole(Magic, 4)
LenExt(n)  == Whole(LenSrc(n), 4)

(* The 4 bytes at offset p decoded as a length field: n if they are exactly *)
(* the field written for n, -1 ("garbage") for any mixture.                 *)
DecodeLen(f, p) ==
  LET r == Range(f, p, 4) IN
  IF Len(r) = 1 /\ r[1].src[1] = "L" /\ r[1].lo = 1 /\ r[1].hi = 4 THEN r[1].src[2] ELSE -1

IsMagicAt(f, p) == Range(f, p, 4) = <<MagicExt>>
=============================================================================
