-------------------------- MODULE SingleFileExport --------------------------
(* spec -> code: TLC enumerates the tree of operation histories of SingleFile *)
(* and prints each maximal history with the contract's expectation after     *)
(* every operation; harness/checks replays them on real files.               *)
EXTENDS SingleFile, Json

VARIABLE hist
evars == <<vars, hist>>

KvSeq(kv) == [k \in Keys |-> kv[k]]

Obs == [outcome |-> last', rgs |-> com'.rgs, kv |-> com'.kv,
        model_open |-> (ReaderFinds(file') = {com'}),
        model_strict |-> StrictLayout(file'), flen |-> FLen(file')]

EInit == Init /\ hist = <<[kind |-> "init", meta |-> isMeta, nrg |-> nrg, kv |-> com.kv, flen |-> FLen(file)]>>

ENext == /\ Next
         /\ hist' = IF pc # "idle" /\ pc' = "idle"
                    THEN Append(hist, [kind |-> "end", obs |-> Obs])
                    ELSE IF pc = "idle" /\ pc' # "idle"
                    THEN Append(hist, IF op'.kind = "kv" THEN [kind |-> "kv", upd |-> op'.upd, ord |-> op'.ord]
                                      ELSE [kind |-> "app", k |-> op'.k, failg |-> op'.failg, failc |-> op'.failc, why |-> op'.why, big |-> op'.big])
                    ELSE IF pc = "idle" /\ pc' = "idle" /\ nops' > nops    \* operation refused at its first step
                    THEN Append(Append(hist, IF op'.kind = "refuse" THEN [kind |-> "refuse", why |-> op'.why]
                                             ELSE [kind |-> "app", k |-> -1, failg |-> 0, failc |-> 0, why |-> "none", big |-> FALSE]),
                                [kind |-> "end", obs |-> Obs])
                    ELSE hist

ESpec == EInit /\ [][ENext]_evars

Export == (Idle /\ nops = MaxOps) => PrintT(ToJson(hist))
=============================================================================
