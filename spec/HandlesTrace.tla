----------------------------- MODULE HandlesTrace -----------------------------
(* code -> spec: a run of two real threads under the deterministic scheduler     *)
(* (thread 1 = A, preempted once; thread 2 = B, runs to completion in between).  *)
(* Logged: the children of the parent's root element sampled at the preemption   *)
(* point, B's outcome, A's outcome.  The run is accepted iff some interleaving   *)
(* of the spec's steps has A stopped in a state showing exactly the sampled      *)
(* children, then B running alone to the logged outcome, then A to its outcome:  *)
(* i.e. the specification explains why B failed or succeeded.                    *)
EXTENDS Handles, Json, IOUtils, TLCExt

Traces == JsonDeserialize(IOEnv.TRACE_FILE)
VARIABLES tid, l
tvars == <<vars, tid, l>>
T  == Traces[tid]
Ev == T.events[l]
SeqToSet(s) == {s[i] : i \in DOMAIN s}
TraceNames == Traces[1].names
NoOps == <<>>
Abs(r) == IF r \in {"ok", "running"} THEN r ELSE "failed"

TInit == /\ tid \in 1..Len(Traces) /\ l = 1 /\ TLCSet(tid, 0)
         /\ opsOf = (1 :> Traces[tid].opA) @@ (2 :> Traces[tid].opB)
         /\ lookups = (1 :> Traces[tid].lookA) @@ (2 :> Traces[tid].lookB)
         /\ InitDyn

(* phases: events 1 = sample (A stopped), 2 = b_end, 3 = a_end *)
StepA == l = 1 /\ Step(1) /\ UNCHANGED <<tid, l>>
Sample == /\ l = 1 /\ Ev.ev = "sample" /\ tree[Parent] = SeqToSet(Ev.children)
          /\ l' = 2 /\ UNCHANGED <<vars, tid>>
StepB == l = 2 /\ Step(2) /\ UNCHANGED <<tid, l>>
BEnd  == /\ l = 2 /\ Ev.ev = "b_end" /\ pc[2] = "done" /\ Abs(result[2]) = Ev.result
         /\ l' = 3 /\ UNCHANGED <<vars, tid>>
StepA2 == l = 3 /\ Step(1) /\ UNCHANGED <<tid, l>>
AEnd  == /\ l = 3 /\ Ev.ev = "a_end" /\ pc[1] = "done" /\ Abs(result[1]) = Ev.result
         /\ l' = 4 /\ UNCHANGED <<vars, tid>>
TNext == StepA \/ Sample \/ StepB \/ BEnd \/ StepA2 \/ AEnd
TSpec == TInit /\ [][TNext]_tvars

Done == l = 4
Report == Done => PrintT(<<"DONE", tid, result[1] = "ok", result[2] = "ok">>)
Progress == TLCSet(tid, IF TLCGet(tid) > l THEN TLCGet(tid) ELSE l)
PrintRegs == \A i \in 1..Len(Traces) : PrintT(<<"PROG", i, TLCGet(i)>>)
=============================================================================
