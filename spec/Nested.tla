------------------------------- MODULE Nested -------------------------------
(***************************************************************************)
(* LIST columns: Dremel shredding and record assembly across pages (C15).   *)
(*                                                                         *)
(* A row is NULLROW, the empty list, or a list of elements (NULLE or a      *)
(* value).  The standard shredding gives one (repetition, definition,       *)
(* value) triple per element (or one for a null / empty row); a column      *)
(* chunk stores the triple stream cut into pages at ARBITRARY positions     *)
(* (version-1 pages may split a row).                                       *)
(* CONTRACT: assembling the stream gives back exactly the rows.             *)
(* MECHANISM: cencoding._assemble_objects, called once per page, with the   *)
(* state it carries across pages (the index where the next row goes) and    *)
(* its per-page locals (part, started, have_null, vali) - transcribed.      *)
(***************************************************************************)
EXTENDS Integers, Sequences, FiniteSets, TLC

CONSTANTS MaxRows, MaxLen, MaxPages, ListOptionals, ElemOptionals, Vals

NULLROW == <<-5>>            \* marker: a sequence no real row can be (elements are >= 0)
NULLE == 0

VARIABLES rows, lopt, eopt, cuts,     \* the input
          pc, page, assign, nexti, misplaced
vars == <<rows, lopt, eopt, cuts, pc, page, assign, nexti, misplaced>>

ElemsOf(eo) == Vals \cup (IF eo THEN {NULLE} ELSE {})
RowsOf(lo, eo) == (IF lo THEN {NULLROW} ELSE {}) \cup UNION {[1..k -> ElemsOf(eo)] : k \in 0..MaxLen}

MaxDef == (IF lopt THEN 1 ELSE 0) + 1 + (IF eopt THEN 1 ELSE 0)
DEmpty == IF lopt THEN 1 ELSE 0
(* standard Dremel shredding of one row *)
ShredRow(r) ==
  IF r = NULLROW THEN <<[rep |-> 0, def |-> 0, val |-> -1]>>
  ELSE IF r = <<>> THEN <<[rep |-> 0, def |-> DEmpty, val |-> -1]>>
  ELSE [j \in 1..Len(r) |-> [rep |-> IF j = 1 THEN 0 ELSE 1,
                            def |-> IF r[j] = NULLE THEN MaxDef - 1 ELSE MaxDef,
                            val |-> IF r[j] = NULLE THEN -1 ELSE r[j]]]
RECURSIVE Flatten(_)
Flatten(ss) == IF ss = <<>> THEN <<>> ELSE Head(ss) \o Flatten(Tail(ss))
Stream == Flatten([i \in DOMAIN rows |-> ShredRow(rows[i])])

RECURSIVE PiecesFrom(_, _, _)
PiecesFrom(start, cs, n) ==
  IF start > n THEN <<>>
  ELSE LET later == {c \in cs : c >= start}
           e == IF later = {} THEN n ELSE CHOOSE c \in later : \A d \in later : c <= d
       IN <<[a |-> start, b |-> e]>> \o PiecesFrom(e + 1, cs, n)
Pages == PiecesFrom(1, cuts, Len(Stream))

Init == /\ lopt \in ListOptionals /\ eopt \in ElemOptionals
        /\ rows \in UNION {[1..n -> RowsOf(lopt, eopt)] : n \in 1..MaxRows}
        /\ cuts \in {S \in SUBSET (1..(Len(Flatten([i \in DOMAIN rows |-> ShredRow(rows[i])])) - 1)) : Cardinality(S) <= MaxPages - 1}
        /\ pc = "pages" /\ page = 1 /\ assign = [i \in DOMAIN rows |-> <<-7>>] /\ nexti = 1 /\ misplaced = FALSE

(* _assemble_objects over the triples of one page; i is 1-based here (prev_i + 1) *)
RECURSIVE Walk(_, _, _, _, _, _, _, _)
Walk(trs, k, asg, i, part, started, havenull, vali) ==
  \* returns [asg, i, part, started, havenull, bad]
  IF k > Len(trs) THEN [asg |-> asg, i |-> i, part |-> part, started |-> started, havenull |-> havenull, vali |-> vali]
  ELSE LET t == trs[k]
           null == IF lopt THEN 1 ELSE 0
           \* at a new row
           s1 == IF t.rep = 0
                 THEN IF started
                      THEN [asg |-> [asg EXCEPT ![i] = IF havenull THEN NULLROW ELSE part], i |-> i + 1, part |-> <<>>, started |-> TRUE]
                      ELSE IF vali > 0
                           THEN [asg |-> [asg EXCEPT ![i - 1] = @ \o part], i |-> i, part |-> <<>>, started |-> TRUE]
                           ELSE [asg |-> asg, i |-> i, part |-> part, started |-> TRUE]
                 ELSE [asg |-> asg, i |-> i, part |-> part, started |-> started]
           part2 == IF t.def = MaxDef THEN Append(s1.part, t.val)
                    ELSE IF t.def > null THEN Append(s1.part, NULLE) ELSE s1.part
           vali2 == IF t.def = MaxDef THEN vali + 1 ELSE vali
           oob == \/ (t.rep = 0 /\ started /\ i > Len(asg))                    \* assign[i] = ... past the column
                  \/ (t.rep = 0 /\ ~started /\ vali > 0 /\ i - 1 < 1)
       IN IF oob
          THEN [asg |-> asg, i |-> i, part |-> part, started |-> started, havenull |-> havenull, vali |-> -99]
          ELSE Walk(trs, k + 1, s1.asg, s1.i, part2, s1.started, (t.def = 0 /\ null = 1), vali2)

DoPage ==
  /\ pc = "pages" /\ page <= Len(Pages)
  /\ LET p == Pages[page]
         trs == SubSeq(Stream, p.a, p.b)
         w == Walk(trs, 1, assign, nexti, <<>>, FALSE, FALSE, 0)
     IN IF w.vali = -99
        THEN /\ misplaced' = TRUE /\ assign' = assign /\ nexti' = nexti
        ELSE /\ misplaced' = misplaced
             /\ IF w.started
                THEN /\ assign' = IF w.i \in DOMAIN w.asg THEN [w.asg EXCEPT ![w.i] = IF w.havenull THEN NULLROW ELSE w.part]
                                  ELSE w.asg                       \* IndexError in the real code
                     /\ nexti' = w.i + 1
                ELSE IF w.i - 1 >= 1
                     \* the function returns i and the caller stores 1 + i: the position advances although no row began
                     THEN /\ assign' = [w.asg EXCEPT ![w.i - 1] = @ \o w.part] /\ nexti' = w.i + 1
                     ELSE /\ assign' = w.asg /\ nexti' = w.i + 1
  /\ page' = page + 1 /\ UNCHANGED <<rows, lopt, eopt, cuts, pc>>
Finish == pc = "pages" /\ page > Len(Pages) /\ pc' = "done" /\ UNCHANGED <<rows, lopt, eopt, cuts, page, assign, nexti, misplaced>>
Next == DoPage \/ Finish
Spec == Init /\ [][Next]_vars

(* CONTRACT *)
Assembled == pc = "done" => (~misplaced /\ assign = rows)
=============================================================================
