------------------------------ MODULE Filters ------------------------------
(***************************************************************************)
(* Filter expressions on reads (C05 row-group pruning, C13 row filtering).  *)
(*                                                                         *)
(* A dataset is a sequence of row groups; a row group has rows over the    *)
(* value columns x and y (values 0..MaxV or NULL), optional exact          *)
(* statistics per column, and an optional partition value p (hive          *)
(* directory).  A program is an OR of AND groups of atoms                   *)
(* [col, op, c] with op in {"==","=","!=","<","<=",">",">=","in","not in"} *)
(* and c a scalar or a set.                                                *)
(*                                                                         *)
(* CONTRACT                                                                *)
(*   DefSat(row, prog)  the row certainly qualifies;                       *)
(*   MaySat(row, prog)  it may (a NULL cell under != / not in is left to   *)
(*                      the implementation: SQL and pandas differ);        *)
(*   a row group may be omitted only if no row in it DefSat's;             *)
(*   a row filter returns all DefSat rows and only MaySat rows.            *)
(* MECHANISM: transcriptions of api.filter_row_groups, filter_out_stats,   *)
(*   filter_out_cats, filter_val, filter_in, filter_not_in and             *)
(*   ParquetFile._column_filter, with variant switches                     *)
(*   NotInPrunesOnBound [TRUE as found]  `not in` prunes whenever a BOUND  *)
(*        is in the list (sound only if min = max)                         *)
(*   FlatListIsOr [TRUE as found] the row filter ORs the atoms of a flat   *)
(*        list (the pruner ANDs them)                                      *)
(*   RowFilterSkipsPartition [TRUE as found] partition atoms are ignored   *)
(*        by the row filter                                                *)
(***************************************************************************)
EXTENDS Integers, Sequences, FiniteSets, TLC

CONSTANTS MaxV, NotInPrunesOnBound, FlatListIsOr, RowFilterSkipsPartition,
          MaskedNulls,  \* the column is a nullable (masked) integer: a missing cell compares as NA, which the row
                        \* filter turns into "no match" also for != (numpy NaN / None compare unequal = match)
          ZeroIsEmpty   \* the column class maps value 0 to the EMPTY string: its stored bound b'' is falsy, and the
                        \* reader's `s.min or s.min_value` then sees no bound at all (statistics state "partial")

NULL   == -9
NoPart == -9
Vals   == 0..MaxV
Consts == -1..(MaxV + 1)
ScalarOps == {"==", "=", "!=", "<", "<=", ">", ">="}
SetOps    == {"in", "not in"}

Atom(col, op, c) == [col |-> col, op |-> op, c |-> c]
IsFlat(prog) == prog.flat          \* a flat list of atoms (meaning AND), kept apart because the code treats it apart
Groups(prog) == prog.groups        \* sequence of AND groups, each a sequence of atoms

----------------------------------------------------------------------------
(* CONTRACT *)
(* an atom's constant is always a set: a singleton for the scalar operators *)
Only(c) == CHOOSE x \in c : TRUE
Cmp(op, v, c) == CASE op \in {"==", "="} -> v = Only(c)
                   [] op = "!=" -> v # Only(c)
                   [] op = "<"  -> v < Only(c)
                   [] op = "<=" -> v <= Only(c)
                   [] op = ">"  -> v > Only(c)
                   [] op = ">=" -> v >= Only(c)
                   [] op = "in" -> v \in c
                   [] op = "not in" -> v \notin c

CellOf(rg, r, col) == IF col = "p" THEN rg.p ELSE rg.rows[r][col]

AtomDef(rg, r, a) == LET v == CellOf(rg, r, a.col) IN IF v = NULL THEN FALSE ELSE Cmp(a.op, v, a.c)
AtomMay(rg, r, a) == LET v == CellOf(rg, r, a.col) IN
                     IF v = NULL THEN a.op \in {"!=", "not in"} ELSE Cmp(a.op, v, a.c)

DefSat(rg, r, prog) == \E gi \in DOMAIN Groups(prog) :
                          \A ai \in DOMAIN Groups(prog)[gi] : AtomDef(rg, r, Groups(prog)[gi][ai])
MaySat(rg, r, prog) == \E gi \in DOMAIN Groups(prog) :
                          \A ai \in DOMAIN Groups(prog)[gi] : AtomMay(rg, r, Groups(prog)[gi][ai])
MayOmit(rg, prog) == ~\E r \in DOMAIN rg.rows : DefSat(rg, r, prog)

----------------------------------------------------------------------------
(* statistics a writer with exact statistics (C04) stores *)
NonNull(rg, col) == {rg.rows[r][col] : r \in {q \in DOMAIN rg.rows : rg.rows[q][col] # NULL}}
Min(S) == CHOOSE x \in S : \A y \in S : x <= y
Max(S) == CHOOSE x \in S : \A y \in S : y <= x
NoVal == -8
StatsOf(rg, col) ==
  [has |-> rg.stats /\ (rg.only = "both" \/ rg.only = col),     \* stats=True / stats=[col]: min/max per column
   nulls |-> Cardinality({r \in DOMAIN rg.rows : rg.rows[r][col] = NULL}),
   n |-> Len(rg.rows),
   min |-> IF NonNull(rg, col) = {} \/ (ZeroIsEmpty /\ col = "x" /\ Min(NonNull(rg, col)) = 0) THEN NoVal
           ELSE Min(NonNull(rg, col)),
   max |-> IF NonNull(rg, col) = {} \/ (ZeroIsEmpty /\ col = "x" /\ Max(NonNull(rg, col)) = 0) THEN NoVal
           ELSE Max(NonNull(rg, col))]

----------------------------------------------------------------------------
(* MECHANISM: pruning.  None is NoVal. *)
SortedSeq(S) == LET RECURSIVE F(_)
                    F(T) == IF T = {} THEN <<>> ELSE <<Min(T)>> \o F(T \ {Min(T)})
                IN F(S)
(* np.searchsorted(sorted, v, side): left = #elements < v, right = #elements <= v *)
FilterIn(values, vmin, vmax) ==
  IF values = {} THEN TRUE
  ELSE IF vmax = vmin /\ vmax # NoVal /\ vmax \notin values THEN TRUE
  ELSE IF vmin = NoVal /\ vmax = NoVal THEN FALSE
  ELSE IF vmin = NoVal THEN Min(values) > vmax
  ELSE IF vmax = NoVal THEN Max(values) < vmin
  ELSE Cardinality({v \in values : v < vmin}) = Cardinality({v \in values : v <= vmax})

FilterNotInV(values, vmin, vmax, onBound) ==
  IF values = {} THEN FALSE
  ELSE IF onBound
       THEN (vmax # NoVal /\ vmax \in values) \/ (vmin # NoVal /\ vmin \in values)
       ELSE vmin # NoVal /\ vmin = vmax /\ vmin \in values

FilterNotIn(values, vmin, vmax) == FilterNotInV(values, vmin, vmax, NotInPrunesOnBound)

FilterValV(op, c, vmin, vmax, onBound) ==
  IF op = "in" THEN FilterIn(c, vmin, vmax)
  ELSE IF op = "not in" THEN FilterNotInV(c, vmin, vmax, onBound)
  ELSE LET val == Only(c) IN
       \/ vmax # NoVal /\ ((op \in {"==", ">=", "="} /\ val > vmax) \/ (op = ">" /\ val >= vmax))
       \/ vmin # NoVal /\ ((op \in {"==", "<=", "="} /\ val < vmin) \/ (op = "<" /\ val <= vmin))
       \/ op = "!=" /\ vmax # NoVal /\ vmin # NoVal /\ vmax = vmin /\ val = vmax

FilterVal(op, c, vmin, vmax) == FilterValV(op, c, vmin, vmax, NotInPrunesOnBound)

(* filter_out_stats(rg, and_filters): TRUE = exclude the row group *)
FilterOutStatsV(rg, g, onBound) ==
  \/ Len(rg.rows) = 0
  \/ \E col \in {"x", "y"} : \E ai \in DOMAIN g :
       /\ g[ai].col = col
       /\ LET s == StatsOf(rg, col) IN
          \* the writer records null_count in every chunk, min/max only when statistics are requested
          \/ s.nulls = s.n                                  \* "skip row groups with no valid values"
          \* filter_val is consulted even without min/max (both bounds None): `in []` then still excludes
          \/ FilterValV(g[ai].op, g[ai].c, IF s.has THEN s.min ELSE NoVal, IF s.has THEN s.max ELSE NoVal, onBound)
(* filter_out_cats: the partition value compared as a degenerate range *)
FilterOutCatsV(rg, g, onBound) ==
  /\ rg.p # NoPart
  /\ \E ai \in DOMAIN g : g[ai].col = "p" /\ FilterValV(g[ai].op, g[ai].c, rg.p, rg.p, onBound)
FilterOutStats(rg, g) == FilterOutStatsV(rg, g, NotInPrunesOnBound)
FilterOutCats(rg, g)  == FilterOutCatsV(rg, g, NotInPrunesOnBound)

KeepV(rg, prog, onBound) == \E gi \in DOMAIN Groups(prog) :
                     ~FilterOutStatsV(rg, Groups(prog)[gi], onBound) /\ ~FilterOutCatsV(rg, Groups(prog)[gi], onBound)
Keep(rg, prog) == KeepV(rg, prog, NotInPrunesOnBound)

(* MECHANISM: row filter (ParquetFile._column_filter on the pruned frame) *)
RowAtom(rg, r, a) ==        \* pandas element-wise semantics: NaN/None compares False, != and ~isin give True
  LET v == CellOf(rg, r, a.col) IN
  IF v = NULL THEN (a.op = "not in" \/ (a.op = "!=" /\ ~(MaskedNulls /\ a.col # "p"))) ELSE Cmp(a.op, v, a.c)
RowSel(rg, r, prog) ==
  IF IsFlat(prog) /\ FlatListIsOr
  THEN \E ai \in DOMAIN Groups(prog)[1] :
          LET a == Groups(prog)[1][ai] IN
          IF a.col = "p" /\ RowFilterSkipsPartition THEN FALSE ELSE RowAtom(rg, r, a)
  ELSE \E gi \in DOMAIN Groups(prog) : \A ai \in DOMAIN Groups(prog)[gi] :
          LET a == Groups(prog)[gi][ai] IN
          IF a.col = "p" /\ RowFilterSkipsPartition THEN TRUE ELSE RowAtom(rg, r, a)

----------------------------------------------------------------------------
(* transition system: choose (row group, program), decide pruning, then filter rows *)
VARIABLES rg, prog, pc, kept, sel
vars == <<rg, prog, pc, kept, sel>>

CONSTANTS RowGroups, Programs

Init == /\ rg \in RowGroups /\ prog \in Programs /\ pc = "prune" /\ kept = TRUE /\ sel = {}
Prune == /\ pc = "prune" /\ kept' = Keep(rg, prog) /\ pc' = "rows" /\ UNCHANGED <<rg, prog, sel>>
Rows  == /\ pc = "rows"
         /\ sel' = IF kept THEN {r \in DOMAIN rg.rows : RowSel(rg, r, prog)} ELSE {}
         /\ pc' = "done" /\ UNCHANGED <<rg, prog, kept>>
Next == Prune \/ Rows
Spec == Init /\ [][Next]_vars

(* C05 *)
PruneSound == pc # "prune" /\ ~kept => MayOmit(rg, prog)
(* C13 *)
RowFilterExact == pc = "done" =>
   /\ \A r \in DOMAIN rg.rows : DefSat(rg, r, prog) => r \in sel
   /\ \A r \in sel : MaySat(rg, r, prog)
(* witnesses *)
WitnessPruned == ~(pc = "done" /\ ~kept)
=============================================================================
