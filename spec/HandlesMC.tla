----------------------------- MODULE HandlesMC -----------------------------
EXTENDS Handles
T2 == {1, 2}
T3 == {1, 2, 3}
N3 == <<"a", "b", "c">>
OpsSR  == (1 :> "slice") @@ (2 :> "read")
OpsSI  == (1 :> "slice") @@ (2 :> "iter")
OpsSS  == (1 :> "slice") @@ (2 :> "slice")
OpsSRI == (1 :> "slice") @@ (2 :> "read") @@ (3 :> "iter")
OpsSSR == (1 :> "slice") @@ (2 :> "slice") @@ (3 :> "read")
OpsFF  == (1 :> "filter") @@ (2 :> "filter")
OpsFFS == (1 :> "filter") @@ (2 :> "filter") @@ (3 :> "slice")
OpsRR  == (1 :> "read") @@ (2 :> "read")
LookAll == [t \in {1, 2, 3} |-> <<"a", "b", "c", "a">>]
=============================================================================
