----------------------------- MODULE MetaRoutes -----------------------------
(***************************************************************************)
(* Routes by which metadata gets (re-)serialised (C10, second half: "also   *)
(* when metadata originally read from another writer is re-serialised       *)
(* (merge, append, metadata update)").                                      *)
(*                                                                         *)
(* A route is a source dataset followed by operations, each of which makes  *)
(* the library serialise a FileMetaData somewhere: into a file footer, a    *)
(* _metadata / _common_metadata file, a pickle, or the bytes of a handle's  *)
(* own metadata object.  The state abstracts what decides applicability:    *)
(* where the dataset lives, whether the handle is a derived one (slice),    *)
(* and the row counts of its row groups (the part of the content the        *)
(* harness compares after every step; the bytes themselves are judged by    *)
(* the acceptor ThriftCompact.tla against the IDL).                         *)
(*                                                                         *)
(* CONTRACT (checked by the harness on every artefact of every step):       *)
(*   every serialised FileMetaData is accepted by ThriftCompact (field ids  *)
(*   and wire types of the IDL) and carries exactly the row groups `rgs`.   *)
(***************************************************************************)
EXTENDS Integers, Sequences, TLC

CONSTANTS Sources,   \* set of [origin : {"lib", "foreign"}, store : {"simple", "multi", "nested"}]
                     \* nested = two multi-file datasets with their own _metadata, opened / merged as one
          MaxOps

VARIABLES src, store, derived, rgs, prog, hist,
          kv,       \* the user key-value entries of the footer: a SEQUENCE of <<key, value>> (the IDL's list<KeyValue>:
                    \* another writer may repeat a key or use the empty key)
          kvhist
vars == <<src, store, derived, rgs, prog, hist, kv, kvhist>>

(* what a foreign writer left: a repeated key, the empty key twice, one ordinary key, one key the update removes *)
ForeignKv == << <<"dup", "one">>, <<"solo", "s">>, <<"dup", "two">>, <<"", "e1">>, <<"drop", "x">>, <<"", "e2">> >>
LibKv == << <<"origin", "lib">>, <<"drop", "x">> >>
(* update_file_custom_metadata({"solo": "S<n>", "drop": None, "new<n>": "v"}) : named keys are replaced in place or removed, *)
(* every other entry stays where it is, new keys go to the end                                                       *)
RECURSIVE Upd(_, _)
Upd(s, n) == IF s = <<>> THEN <<>>
             ELSE LET h == Head(s) IN
                  (IF h[1] = "drop" THEN <<>> ELSE IF h[1] = "solo" THEN << <<"solo", "S" \o n>> >> ELSE <<h>>) \o Upd(Tail(s), n)
HasKey(s, key) == \E i \in DOMAIN s : s[i][1] = key
AfterUpdate(s, n) == LET u == Upd(s, n) IN
                     (IF HasKey(s, "solo") THEN u ELSE Append(u, <<"solo", "S" \o n>>)) \o << <<"new" \o n, "v">> >>

Init == /\ src \in Sources /\ store = src.store /\ derived = FALSE
        /\ rgs = (IF src.store = "nested" THEN <<3, 3, 3, 3>> ELSE <<3, 3>>) /\ prog = <<>> /\ hist = <<>>
        /\ kv = (IF src.origin = "foreign" /\ src.store = "simple" THEN ForeignKv ELSE LibKv) /\ kvhist = <<>>

Step(op, newstore, newderived, newrgs) ==
  /\ Len(prog) < MaxOps
  /\ prog' = Append(prog, op) /\ store' = newstore /\ derived' = newderived /\ rgs' = newrgs
  /\ hist' = Append(hist, newrgs) /\ UNCHANGED src
  /\ kv' = (IF op = "kvupdate" THEN AfterUpdate(kv, ToString(Len(prog) + 1)) ELSE kv)
  /\ kvhist' = Append(kvhist, kv')

(* pf[0:1] : a derived handle; its metadata object is built from the parent's *)
Slice == Len(rgs) >= 2 /\ Step("slice", store, TRUE, <<Head(rgs)>>)
(* pickle round trip of the handle (serialises the metadata inside __getstate__) *)
Pickle == Step("pickle", store, derived, rgs)
(* write(path, frame, append=True): re-serialises the existing metadata plus one row group of 2 rows *)
AppendRows == ~derived /\ store # "nested" /\ Step("append", store, FALSE, Append(rgs, 2))
(* update_file_custom_metadata on a single file: footer rewritten in place *)
KvUpdate == ~derived /\ store = "simple" /\ Step("kvupdate", store, FALSE, rgs)
(* remove_row_groups of the first row group's file: _metadata rewritten *)
Remove == ~derived /\ store = "multi" /\ Len(rgs) >= 2 /\ Step("remove", store, FALSE, Tail(rgs))
(* merge of the part files: _metadata written from the parts' footers *)
Merge == ~derived /\ store \in {"multi", "nested"} /\ Step("merge", store, FALSE, rgs)      \* nested: merge of the two sub-datasets' summaries
(* write_common_metadata(fn, handle.fmd): schema-only copy of whatever the handle holds *)
Common == Step("common", store, derived, rgs)

Next == Slice \/ Pickle \/ AppendRows \/ KvUpdate \/ Remove \/ Merge \/ Common
Spec == Init /\ [][Next]_vars

Maximal == Len(prog) = MaxOps
(* model-level sanity: a route never holds a negative or empty row group, derived handles are never written through *)
RowGroupsPositive == \A i \in DOMAIN rgs : rgs[i] > 0
=============================================================================
