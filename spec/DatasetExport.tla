---------------------------- MODULE DatasetExport ----------------------------
(* spec -> code: the tree of operation histories of Dataset, each with the     *)
(* contract's plain model and the mechanism's predicted directory after every  *)
(* operation; harness/checks/dataset.py replays them on real directories.      *)
EXTENDS DatasetMC, Json

VARIABLE hist
evars == <<vars, hist>>

PathRec(p) == [k |-> p.k, i |-> p.i, t |-> p.t]
RefsOf(d) == IF META \in DOMAIN d /\ d[META].st = "full"
             THEN [i \in DOMAIN d[META].refs |-> [p |-> PathRec(d[META].refs[i].p), g |-> d[META].refs[i].g]] ELSE <<>>
RECURSIVE SetToSeqAny(_)
SetToSeqAny(X) == IF X = {} THEN <<>> ELSE LET x == CHOOSE y \in X : TRUE IN <<x>> \o SetToSeqAny(X \ {x})
FilesOf(d) == SetToSeqAny({[p |-> PathRec(p), g |-> d[p].g, st |-> d[p].st] : p \in {q \in DOMAIN d : IsPart(q)}})

Obs == [outcome |-> last', model |-> model', ordered |-> ordered', refs |-> RefsOf(disk'), files |-> FilesOf(disk'),
        readable |-> (META \in DOMAIN disk' /\ disk'[META].st = "full"
                      /\ \A i \in DOMAIN disk'[META].refs :
                           LET r == disk'[META].refs[i] IN r.p \in DOMAIN disk' /\ disk'[r.p].st = "full" /\ disk'[r.p].g = r.g)]

FrameSeq(f) == [c \in DOMAIN f |-> SetToSortedSeq(f[c])]

EInit == Init /\ hist = <<>>

BeginRec ==
  IF opk' = "write" THEN [kind |-> "write", groups |-> pending', part |-> (\E i \in DOMAIN pending' : pending'[i].k # NoKey),
                          frame |-> FrameSeq(arg')]
  ELSE [kind |-> opk', fault |-> faultAt', plan |-> [i \in DOMAIN plan' |-> plan'[i].c], frame |-> FrameSeq(arg'),
        newgroups |-> SelectSeq(pending', LAMBDA e : e.g > ng)]

ENext == /\ Next
         /\ hist' = IF opk = "none" /\ opk' # "none" THEN Append(hist, BeginRec @@ [steps |-> plan'])
                    ELSE IF opk # "none" /\ opk' = "none" THEN Append(hist, [kind |-> "end", obs |-> Obs])
                    ELSE hist
ESpec == EInit /\ [][ENext]_evars

Export == (Idle /\ nops = MaxOps) => PrintT(ToJson(hist))
=============================================================================
