------------------------------ MODULE Predict ------------------------------
(***************************************************************************)
(* Metadata-only answers versus the data actually read (C17).               *)
(* The state is a file class and a tuple of read options; the handle first  *)
(* PREDICTS from metadata alone (column names and order, dtype per column,  *)
(* categorical / partition / index columns, row counts) and then READS.     *)
(* CONTRACT: Predicted = Realised, component by component.  Both sides are  *)
(* observations of the real code (the harness fills them in); TLC's part is *)
(* the exhaustive product of file classes and option tuples.                *)
(***************************************************************************)
EXTENDS Integers, Sequences, FiniteSets, TLC, Json

CONSTANTS FileClasses, ColumnOpts, CategoryOpts, IndexOpts, NullOpts, DtypeOpts,
          HandleOpts    \* which handle answers: the opened one, a row-group slice of it (first / all but first / none), a pickled copy

VARIABLES opt, pc
Opts == [file : FileClasses, columns : ColumnOpts, categories : CategoryOpts, index : IndexOpts,
         pandas_nulls : NullOpts, dtypes : DtypeOpts, handle : HandleOpts]
(* option combinations the API defines: a dtypes override and an explicit index are only explored with all columns *)
Sensible(o) == /\ (o.dtypes # "none" => o.columns = "all")
               /\ (o.index \in {"name", "time"} => o.columns = "all")
               /\ (o.handle # "whole" => o.dtypes = "none" /\ o.index \notin {"name", "time"} /\ o.categories \in {"none", "list"})
Init == opt \in {o \in Opts : Sensible(o)} /\ pc = "predict"
PredictStep == pc = "predict" /\ pc' = "read" /\ UNCHANGED opt
ReadStep == pc = "read" /\ pc' = "done" /\ UNCHANGED opt
Next == PredictStep \/ ReadStep
Spec == Init /\ [][Next]_<<opt, pc>>
Export == pc = "done" => PrintT(ToJson(opt))

(* own_idx / own_tidx / own_midx: files written WITH a row index (a named integer index, a named microsecond timestamp
   index, a two-level index): the index columns the handle announces are the ones the read then puts into the index *)
FilesAll == {"own", "own_nometa", "foreign", "hive", "drill", "own_idx", "own_tidx", "own_midx"}
ColsAllOpts == {"all", "subset", "reordered"}
CatsAll == {"none", "list", "dict", "empty"}
IdxAll == {"none", "false", "name", "time"}     \* "time": a timestamp column of micro- or millisecond resolution as the index
NullsBoth == {TRUE, FALSE}
DtypesBoth == {"none", "override"}
HandlesAll == {"whole", "first", "rest", "empty", "pickled"}
=============================================================================
