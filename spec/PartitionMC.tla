---------------------------- MODULE PartitionMC ----------------------------
EXTENDS Partition, Json, SequencesExt
K3 == {NULLK, 1, 2, 3}
K2 == {1, 2}
K2n == {NULLK, 1, 2}
One == {NoCol}
Offs5 == { <<0>>, <<0, 2>>, <<0, 1, 3>>, <<0, 4>>, <<0, 2, 4>> }
Offs4 == { <<0>>, <<0, 2>>, <<0, 1, 3>> }
Offs3 == { <<0>>, <<0, 2>>, <<0, 1>> }
IxRange == {"range"}
IxAll == {"range", "repeated", "shuffled"}
FileJson(f) == [key |-> f.key, part |-> f.part, rows |-> SetToSeq(f.rows)]
Export == Done => PrintT(ToJson([frame |-> [r \in 1..NRows |-> <<frame[r].k1, frame[r].k2, frame[r].k3>>], offs |-> offs, index |-> ixk,
                                 files |-> SetToSeq({FileJson(f) : f \in files})]))
=============================================================================
