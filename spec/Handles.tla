------------------------------ MODULE Handles ------------------------------
(***************************************************************************)
(* Several threads use one ParquetFile handle (C20).                       *)
(*                                                                         *)
(* The only state the read-only operations share and mutate is the schema  *)
(* tree: every schema element is a dict; the root element's "children"     *)
(* dict maps column names to elements.  Deriving a handle (pf[i:j], and    *)
(* iter_row_groups / head, which slice internally) builds a new            *)
(* SchemaHelper:                                                           *)
(*     decode names -> schema_tree: root["children"] = {} ; then one       *)
(*     insertion per child -> flatten: re-insert / add dotted names.       *)
(* MECHANISM switch SliceSharesSchemaDicts [TRUE as found]: the derived    *)
(* handle's FileMetaData is a shallow copy, so these steps run on the      *)
(* PARENT's element dicts; FALSE: the derived handle owns private copies.  *)
(*                                                                         *)
(* Readers (to_pandas, dtypes, statistics, ...) look names up in           *)
(* root["children"]; serialisers (pickle) iterate over the element dicts.  *)
(*                                                                         *)
(* Filtered reads additionally memoise the CONVERTED min/max of a column    *)
(* chunk inside the shared statistics dict (filter_out_stats): slot states *)
(* empty -> done.  A two-step publication (raw, then converted: the model   *)
(* mutant MemoAtomic = FALSE) lets another thread compare against the raw   *)
(* value.                                                                  *)
(*                                                                         *)
(* CONTRACT: every operation returns what it returns alone; no operation   *)
(* fails because of another; the parent handle is never disturbed.         *)
(***************************************************************************)
EXTENDS Integers, Sequences, FiniteSets, TLC

CONSTANTS Threads,       \* thread ids
          Names,         \* column names, as a sequence (insertion order)
          OpsInit,       \* function Threads -> {"slice", "read", "iter"}
          LookupInit,    \* function Threads -> sequence of names a reader looks up during its run
          SliceSharesSchemaDicts,
          MemoAtomic     \* [TRUE as found] a converted statistic is published into the shared cache in one step

NameSet == {Names[i] : i \in DOMAIN Names}
Parent == 0                                   \* dict id of the parent's root element

VARIABLES opsOf,   \* thread -> operation kind (fixed during a behaviour)
          lookups, \* thread -> names a "read" looks up (fixed during a behaviour)
          tree,    \* dict id -> set of child names currently installed
          pc,      \* per thread
          todo,    \* slice: names still to insert; read: lookups left; iter: positions left
          target,  \* dict the thread's operation works on
          seen,    \* iter: size the iteration started with
          memo,    \* shared cache slot of one converted statistic: "empty" | "raw" | "done"
          got,     \* per thread: what a filtering thread took from the slot
          result   \* per thread: "running" | "ok" | "KeyError" | "RuntimeError" | "WrongResult"
vars == <<opsOf, lookups, tree, pc, todo, target, seen, memo, got, result>>
fixed == <<opsOf, lookups>>

InitDyn ==
  /\ tree = [d \in {Parent} \cup Threads |-> IF d = Parent THEN NameSet ELSE {}]
  /\ pc = [t \in Threads |-> "start"]
  /\ todo = [t \in Threads |-> <<>>]
  /\ target = [t \in Threads |-> Parent]
  /\ seen = [t \in Threads |-> 0]
  /\ result = [t \in Threads |-> "running"]
  /\ memo = "empty" /\ got = [t \in Threads |-> "none"]
Init == opsOf = OpsInit /\ lookups = LookupInit /\ InitDyn

(* ---- slice: pf[i:j] ---- *)
SliceBegin(t) ==                 \* copy.copy(fmd) [+ private element dicts]; decode names
  /\ pc[t] = "start" /\ opsOf[t] = "slice"
  /\ target' = [target EXCEPT ![t] = IF SliceSharesSchemaDicts THEN Parent ELSE t]
  /\ pc' = [pc EXCEPT ![t] = "reset"]
  /\ UNCHANGED <<fixed, memo, got, tree, todo, seen, result>>
ResetChildren(t) ==              \* schema_tree: root["children"] = OrderedDict()
  /\ pc[t] = "reset"
  /\ tree' = [tree EXCEPT ![target[t]] = {}]
  /\ todo' = [todo EXCEPT ![t] = Names]
  /\ pc' = [pc EXCEPT ![t] = "fill"]
  /\ UNCHANGED <<fixed, memo, got, target, seen, result>>
AddChild(t) ==                   \* root["children"][s.name] = s
  /\ pc[t] = "fill" /\ todo[t] # <<>>
  /\ tree' = [tree EXCEPT ![target[t]] = @ \cup {Head(todo[t])}]
  /\ todo' = [todo EXCEPT ![t] = Tail(todo[t])]
  /\ UNCHANGED <<fixed, memo, got, pc, target, seen, result>>
SliceEnd(t) ==                   \* flatten (idempotent re-insertions for flat schemas), _set_attrs done
  /\ pc[t] = "fill" /\ todo[t] = <<>>
  /\ pc' = [pc EXCEPT ![t] = "done"] /\ result' = [result EXCEPT ![t] = "ok"]
  /\ UNCHANGED <<fixed, memo, got, tree, todo, target, seen>>

(* ---- read: to_pandas / dtypes / statistics: NLookups lookups of existing names ---- *)
ReadBegin(t) ==
  /\ pc[t] = "start" /\ opsOf[t] = "read"
  /\ todo' = [todo EXCEPT ![t] = lookups[t]]
  /\ pc' = [pc EXCEPT ![t] = "lookup"]
  /\ UNCHANGED <<fixed, memo, got, tree, target, seen, result>>
Lookup(t) ==                     \* schema.schema_element(name): root["children"][part]
  /\ pc[t] = "lookup" /\ todo[t] # <<>>
  /\ IF Head(todo[t]) \in tree[target[t]]
     THEN /\ todo' = [todo EXCEPT ![t] = Tail(todo[t])] /\ UNCHANGED <<fixed, pc, result>>
     ELSE /\ pc' = [pc EXCEPT ![t] = "done"] /\ result' = [result EXCEPT ![t] = "KeyError"] /\ UNCHANGED todo
  /\ UNCHANGED <<fixed, memo, got, tree, target, seen>>
ReadEnd(t) ==
  /\ pc[t] = "lookup" /\ todo[t] = <<>>
  /\ pc' = [pc EXCEPT ![t] = "done"] /\ result' = [result EXCEPT ![t] = "ok"]
  /\ UNCHANGED <<fixed, memo, got, tree, todo, target, seen>>

(* ---- iter: pickle / deepcopy walk over root["children"] ---- *)
IterBegin(t) ==
  /\ pc[t] = "start" /\ opsOf[t] = "iter"
  /\ seen' = [seen EXCEPT ![t] = Cardinality(tree[target[t]])]
  /\ todo' = [todo EXCEPT ![t] = Names]
  /\ pc' = [pc EXCEPT ![t] = "iter"]
  /\ UNCHANGED <<fixed, memo, got, tree, target, result>>
IterStep(t) ==                   \* "dictionary changed size during iteration"
  /\ pc[t] = "iter"
  /\ IF Cardinality(tree[target[t]]) # seen[t]
     THEN /\ pc' = [pc EXCEPT ![t] = "done"] /\ result' = [result EXCEPT ![t] = "RuntimeError"] /\ UNCHANGED todo
     ELSE IF todo[t] = <<>>
          THEN /\ pc' = [pc EXCEPT ![t] = "done"] /\ result' = [result EXCEPT ![t] = "ok"] /\ UNCHANGED todo
          ELSE /\ todo' = [todo EXCEPT ![t] = Tail(todo[t])] /\ UNCHANGED <<fixed, pc, result>>
  /\ UNCHANGED <<fixed, memo, got, tree, target, seen>>

(* ---- filter: to_pandas(filters=...) / count(filters=...) on a column with a converted type ---- *)
FilterMemo(t) ==                 \* filter_out_stats: `if not hasattr(s, "converted_max")`
  /\ pc[t] = "start" /\ opsOf[t] = "filter"
  /\ IF memo = "empty"
     THEN IF MemoAtomic THEN /\ memo' = "done" /\ got' = [got EXCEPT ![t] = "done"] /\ pc' = [pc EXCEPT ![t] = "cmp"]
                        ELSE /\ memo' = "raw" /\ got' = got /\ pc' = [pc EXCEPT ![t] = "memo2"]
     ELSE /\ memo' = memo /\ got' = [got EXCEPT ![t] = memo] /\ pc' = [pc EXCEPT ![t] = "cmp"]
  /\ UNCHANGED <<fixed, tree, todo, target, seen, result>>
FilterMemo2(t) ==
  /\ pc[t] = "memo2" /\ memo' = "done" /\ got' = [got EXCEPT ![t] = "done"] /\ pc' = [pc EXCEPT ![t] = "cmp"]
  /\ UNCHANGED <<fixed, tree, todo, target, seen, result>>
FilterCmp(t) ==                  \* filter_val(op, val, vmin, vmax) with what was taken from the slot
  /\ pc[t] = "cmp" /\ pc' = [pc EXCEPT ![t] = "done"]
  /\ result' = [result EXCEPT ![t] = IF got[t] = "done" THEN "ok" ELSE "WrongResult"]
  /\ UNCHANGED <<fixed, memo, got, tree, todo, target, seen>>

Step(t) == \/ FilterMemo(t) \/ FilterMemo2(t) \/ FilterCmp(t)
           \/ SliceBegin(t) \/ ResetChildren(t) \/ AddChild(t) \/ SliceEnd(t)
           \/ ReadBegin(t) \/ Lookup(t) \/ ReadEnd(t)
           \/ IterBegin(t) \/ IterStep(t)
Next == \E t \in Threads : Step(t)
Spec == Init /\ [][Next]_vars /\ \A t \in Threads : WF_vars(Step(t))

----------------------------------------------------------------------------
(* CONTRACT *)
(* alone, every operation ends "ok": so "same result as sequential" is *)
NoOpFailsBecauseOfAnother == \A t \in Threads : result[t] \in {"running", "ok"}
(* deriving a handle does not disturb the handle it came from *)
ParentUndisturbed == tree[Parent] = NameSet
AllFinish == <>(\A t \in Threads : pc[t] = "done")

(* witnesses: expected to be violated, show the interleavings are explored *)
WitnessAllDone == ~(\A t \in Threads : pc[t] = "done")
=============================================================================
