---------------------------- MODULE ThriftShapes ----------------------------
(* spec -> code: the lattice of metadata VALUE SHAPES generated from the IDL (C10): for every struct of         *)
(* ParquetIDL, which optional fields are present, how long lists / strings are, which integer boundary is used.  *)
(* The harness builds the value of each shape, encodes it with the independent encoder (foreign bytes), runs it  *)
(* through the library (parse, re-serialise) and validates the re-serialised bytes with ThriftCompact.           *)
EXTENDS Integers, Sequences, FiniteSets, TLC, ParquetIDL, Json

Structs == DOMAIN IDL
OptIds(s) == {f.id : f \in {g \in IDL[s].fields : ~g.req}}
ListLens == {0, 1, 14, 15, 16, 40}
IntClasses == {"zero", "one", "min", "max"}
StrLens == {0, 1, 127, 128, 300}

VARIABLES shape, pc
Init == /\ pc = "emit"
        /\ shape \in UNION {
             {[struct |-> s, presence |-> "required_only", only |-> 0, listlen |-> 1, intcls |-> "one", strlen |-> 1],
              [struct |-> s, presence |-> "all", only |-> 0, listlen |-> 1, intcls |-> "one", strlen |-> 1]}
             \cup {[struct |-> s, presence |-> "single", only |-> i, listlen |-> 1, intcls |-> "one", strlen |-> 1] : i \in OptIds(s)}
             \cup {[struct |-> s, presence |-> "all", only |-> 0, listlen |-> n, intcls |-> "one", strlen |-> 1] : n \in ListLens}
             \cup {[struct |-> s, presence |-> "all", only |-> 0, listlen |-> 1, intcls |-> c, strlen |-> 1] : c \in IntClasses}
             \cup {[struct |-> s, presence |-> "all", only |-> 0, listlen |-> 1, intcls |-> "one", strlen |-> k] : k \in StrLens}
             : s \in Structs}
Next == pc = "emit" /\ pc' = "done" /\ UNCHANGED shape
Spec == Init /\ [][Next]_<<shape, pc>>
Emit == pc = "done" => PrintT(ToJson(shape))
=============================================================================
