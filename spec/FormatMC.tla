------------------------------ MODULE FormatMC ------------------------------
EXTENDS Format, Json
K(name, dictable, deltable, boolrle) == [name |-> name, dictable |-> dictable, deltable |-> deltable, boolrle |-> boolrle]
KindsAll == { K("int32", TRUE, TRUE, FALSE), K("int64", TRUE, TRUE, FALSE), K("double", TRUE, FALSE, FALSE),
              K("float", TRUE, FALSE, FALSE), K("utf8", TRUE, FALSE, FALSE), K("bytes", TRUE, FALSE, FALSE),
              K("bool", FALSE, FALSE, TRUE), K("date", TRUE, TRUE, FALSE), K("ts_ms", TRUE, TRUE, FALSE),
              K("ts_us", TRUE, TRUE, FALSE), K("uint8", TRUE, FALSE, FALSE), K("uint32", TRUE, FALSE, FALSE),
              K("int16", TRUE, TRUE, FALSE), K("uint64", TRUE, FALSE, FALSE), K("int96", FALSE, FALSE, FALSE),
              K("flba", TRUE, FALSE, FALSE), K("time_ms", TRUE, FALSE, FALSE), K("decimal32", TRUE, FALSE, FALSE),
              K("decimal64", TRUE, FALSE, FALSE), K("decimal_ba", TRUE, FALSE, FALSE), K("decimal_flba", TRUE, FALSE, FALSE),
              K("decimal_flba9", TRUE, FALSE, FALSE), K("decimal_flba16", TRUE, FALSE, FALSE),
              K("time_us", TRUE, FALSE, FALSE), K("int8", TRUE, FALSE, FALSE), K("uint16", TRUE, FALSE, FALSE),
              K("json", TRUE, FALSE, FALSE), K("ts_ns_logical", TRUE, FALSE, FALSE) }
KindsCore == {k \in KindsAll : k.name \in {"int32", "int64", "double", "utf8", "bool"}}
KindInt == {k \in KindsAll : k.name = "int64"}
KindsDict == {k \in KindsAll : k.name \in {"int32", "utf8"}}

BoolBoth == {TRUE, FALSE}
OnlyOpt == {TRUE}
Rows6 == {0, 1, 3, 6}
Rows9 == {9}
Rows6b == {0, 1, 3, 6, 9, 17}     \* 9 and 17: bit-packed level runs of two and three groups
Rows3 == {3}
PatsAll == {"none", "all", "first", "last", "alt"}
PatsFew == {"none", "alt"}
PatsAlt == {"alt"}
ValsAll == {"perm", "const", "asc"}
ValsPerm == {"perm"}
V12 == {1, 2}
EncPlain == {"PLAIN"}
EncAll == {"PLAIN", "DICT", "RLE", "DELTA"}
EncDict == {"PLAIN", "DICT"}
RunsAll == {"rle", "bp", "mixed"}
RunsRle == {"rle"}
WidthsAll == {"min", "plus1", "w8", "w16", "w17", "w32"}
WidthMin == {"min"}
CodecsAll == {"UNCOMPRESSED", "SNAPPY", "GZIP", "ZSTD"}
CodecNone == {"UNCOMPRESSED"}
FlagsAll == {"absent", "true", "false"}
FlagAbsent == {"absent"}
CreatorsBoth == {"other", "fastparquet-like"}
CreatorOther == {"other"}
StatsAbsent == {"absent"}
StatsBoth == {"absent", "exact"}
StatsPresent == {"exact", "new"}
PadNone == {0}
PadsSmall == {0, 126, 253}
PadsEdges == {0, 126, 253, 32766, 65533}      \* used indices straddle 2^7, 2^8, 2^15, 2^16
WidthsMinPlus == {"min", "plus1"}
Rows4 == {4}

PageJson(p) == [a |-> p.a, b |-> p.b, v |-> p.v, enc |-> p.enc, def_runs |-> p.def_runs, index_runs |-> p.index_runs,
                index_width |-> p.index_width, compressed |-> p.compressed]
Export == pc = "done" => PrintT(ToJson([kind |-> col.kind.name, n |-> col.n, optional |-> col.optional, codec |-> col.codec,
                                          creator |-> col.creator, stats |-> col.stats, nullpat |-> col.nullpat, valpat |-> col.valpat,
                                          cells |-> Cells,
                                          rgs |-> [g \in DOMAIN rgs |-> [a |-> rgs[g].a, b |-> rgs[g].b, dict |-> rgs[g].dict,
                                                                          usedict |-> rgs[g].usedict, pad |-> rgs[g].pad,
                                                                          pages |-> [p \in DOMAIN rgs[g].pages |-> PageJson(rgs[g].pages[p])]]]]))
=============================================================================
