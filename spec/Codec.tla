------------------------------- MODULE Codec -------------------------------
(***************************************************************************)
(* Primitive codecs of the Parquet format at the level of bits and bytes   *)
(* (C11, C12, and the streams used by C03).                                *)
(*                                                                         *)
(* FORMAT layer (written from the Parquet "Encodings" document):           *)
(*   unsigned varints, bit-packed runs (values LSB first, groups of 8),    *)
(*   RLE runs, hybrid streams, boolean packing.                            *)
(*   A value is a sequence of bits, least significant first, so widths up  *)
(*   to 64 need no 64-bit integers (TLC integers are 32 bits).             *)
(* MECHANISM layer: the cursor machine of cencoding.read_bitpacked /       *)
(*   delta_read_bitpacked: an accumulator of AccBits bits, byte-wise       *)
(*   refill at `left`, extraction at `right`, counters of CtrBits bits.    *)
(*   As found: AccBits = 32 for read_bitpacked (bits shifted beyond bit 31 *)
(*   are lost: widths >= 25 decode wrongly); AccBits = 64, signed 8-bit    *)
(*   counters for delta_read_bitpacked (widths >= 57 lose bits).           *)
(* CONTRACT: the decoder emits exactly the packed values (EmittedPrefix),  *)
(*   never more than `cap` of them (OutWithinCapacity), never reads past   *)
(*   the stream (InWithinInput), and terminates.                           *)
(***************************************************************************)
EXTENDS Integers, Sequences, FiniteSets, TLC

----------------------------------------------------------------------------
(* bits and bytes *)
Bit == {0, 1}
RECURSIVE BitsToNat(_)
BitsToNat(b) == IF b = <<>> THEN 0 ELSE Head(b) + 2 * BitsToNat(Tail(b))        \* only for <= 30 bits
NatToBits(n, w) == [i \in 1..w |-> (n \div (2 ^ (i - 1))) % 2]                  \* n < 2^30
PadTo(b, n) == b \o [i \in 1..(n - Len(b)) |-> 0]
RECURSIVE Flatten(_)
Flatten(ss) == IF ss = <<>> THEN <<>> ELSE Head(ss) \o Flatten(Tail(ss))
(* a bit sequence whose length is a multiple of 8 as bytes *)
BitsToBytes(b) == [k \in 1..(Len(b) \div 8) |-> BitsToNat(SubSeq(b, 8 * (k - 1) + 1, 8 * k))]
BytesToBits(bs) == Flatten([k \in DOMAIN bs |-> NatToBits(bs[k], 8)])

(* value patterns: bit j (0-based) of value number i (0-based) of width w *)
PatBit(pat, i, j, w) == CASE pat = "zeros" -> 0
                          [] pat = "ones" -> 1
                          [] pat = "alt" -> (i + j) % 2
                          [] pat = "top" -> IF j = w - 1 THEN 1 ELSE 0          \* only the most significant bit
                          [] pat = "mix" -> ((i * 7 + j * 3 + (j * j) \div 2) % 5) % 2
Value(pat, i, w) == [j \in 1..w |-> PatBit(pat, i, j - 1, w)]
Values(pat, n, w) == [i \in 1..n |-> Value(pat, i - 1, w)]

(* ---- FORMAT ---- *)
(* ULEB128 of a number given as bits (LSB first), any length: groups of 7 bits, high bit = continuation *)
TrimZeros(b) == LET idx == {i \in DOMAIN b : b[i] = 1} IN
                IF idx = {} THEN <<>> ELSE SubSeq(b, 1, CHOOSE m \in idx : \A k \in idx : k <= m)
VarintBits(b) ==
  LET t == TrimZeros(b)
      ng == IF t = <<>> THEN 1 ELSE (Len(t) + 6) \div 7
      p == PadTo(t, 7 * ng)
  IN [g \in 1..ng |-> BitsToNat(SubSeq(p, 7 * (g - 1) + 1, 7 * g)) + (IF g < ng THEN 128 ELSE 0)]
Varint(n) == VarintBits(NatToBits(n, 30))

(* bit-packed run: values padded to a multiple of 8, header = (groups << 1) | 1 *)
BitPackBody(vals, w) ==
  LET n == Len(vals)
      groups == (n + 7) \div 8
      padded == vals \o [i \in 1..(8 * groups - n) |-> [j \in 1..w |-> 0]]
  IN BitsToBytes(Flatten(padded))
BitPackRun(vals, w) == Varint(2 * ((Len(vals) + 7) \div 8) + 1) \o BitPackBody(vals, w)
(* RLE run: header = count << 1, then the value in ceil(w/8) bytes *)
RleRun(val, w, count) == Varint(2 * count) \o BitsToBytes(PadTo(val, 8 * ((w + 7) \div 8)))
(* boolean column packing = bit-packing of width 1 without header *)
BoolPack(bools) == BitsToBytes(PadTo(bools, 8 * ((Len(bools) + 7) \div 8)))

----------------------------------------------------------------------------
(* ---- MECHANISM: the refill/extract cursor machine ---- *)
CONSTANTS AccBits,      \* accumulator width
          CtrMax,       \* largest value the left/right counters can hold (127 for int8, 255 for unsigned char)
          FirstByteEager \* read_bitpacked loads the first byte before the loop (left starts at 8)

VARIABLES w, pat, n, cap,     \* the case: width, pattern, number of packed values (multiple of 8), output capacity
          stream,             \* the packed bytes as bits
          acc, left, right, inpos, count, out, pc
vars == <<w, pat, n, cap, stream, acc, left, right, inpos, count, out, pc>>

CONSTANTS Widths, Pats, Groups

StreamOf(pt, nn, ww) == Flatten(Values(pt, nn, ww))

ByteAt(k) == IF 8 * k <= Len(stream) THEN SubSeq(stream, 8 * (k - 1) + 1, 8 * k) ELSE [i \in 1..8 |-> 0]
(* acc | (byte << left), truncated to AccBits bits *)
ShiftIn(a, byte, l) == [i \in 1..AccBits |-> IF i - 1 >= l /\ i - 1 < l + 8 THEN (IF a[i] = 1 \/ byte[i - l] = 1 THEN 1 ELSE 0)
                                              ELSE a[i]]
ShiftRight8(a) == [i \in 1..AccBits |-> IF i + 8 <= AccBits THEN a[i + 8] ELSE 0]
Extract(a, r, ww) == [j \in 1..ww |-> IF r + j <= AccBits THEN a[r + j] ELSE 0]
Wrap(x) == x % (CtrMax + 1)          \* counters wrap (the signed case is modelled by its range only)

Init ==
  /\ w \in Widths /\ pat \in Pats /\ n \in {8 * g : g \in Groups} /\ cap \in {n, n - 1}
  /\ stream = StreamOf(pat, n, w)
  /\ acc = IF FirstByteEager THEN ShiftIn([i \in 1..AccBits |-> 0], SubSeq(stream \o [i \in 1..8 |-> 0], 1, 8), 0)
           ELSE [i \in 1..AccBits |-> 0]
  /\ left = IF FirstByteEager THEN 8 ELSE 0
  /\ right = 0 /\ inpos = IF FirstByteEager THEN 1 ELSE 0
  /\ count = n /\ out = <<>> /\ pc = "run"

(* read_bitpacked: `if right > 8` first, then refill, then emit; delta_read_bitpacked: refill first *)
Drop ==  /\ pc = "run" /\ count > 0 /\ right > 8
         /\ (FirstByteEager \/ ~(left - right < w))
         /\ acc' = ShiftRight8(acc) /\ left' = left - 8 /\ right' = right - 8
         /\ UNCHANGED <<w, pat, n, cap, stream, inpos, count, out, pc>>
Refill == /\ pc = "run" /\ count > 0 /\ left - right < w
          /\ (FirstByteEager => ~(right > 8))
          /\ acc' = ShiftIn(acc, ByteAt(inpos + 1), left)
          /\ inpos' = inpos + 1 /\ left' = Wrap(left + 8)
          /\ UNCHANGED <<w, pat, n, cap, stream, right, count, out, pc>>
Emit ==  /\ pc = "run" /\ count > 0 /\ ~(left - right < w) /\ ~(right > 8)
         /\ out' = IF Len(out) < cap THEN Append(out, Extract(acc, right, w)) ELSE out
         /\ count' = count - 1 /\ right' = Wrap(right + w)
         /\ UNCHANGED <<w, pat, n, cap, stream, acc, left, inpos, pc>>
Stop ==  /\ pc = "run" /\ count = 0 /\ pc' = "done"
         /\ UNCHANGED <<w, pat, n, cap, stream, acc, left, right, inpos, count, out>>
Next == Drop \/ Refill \/ Emit \/ Stop
Spec == Init /\ [][Next]_vars /\ WF_vars(Next)

(* ---- CONTRACT ---- *)
Expected == Values(pat, n, w)
EmittedPrefix == \A i \in DOMAIN out : out[i] = Expected[i]
OutWithinCapacity == Len(out) <= cap
InWithinInput == pc = "done" => 8 * inpos <= Len(stream) + 8        \* at most the final partial byte beyond
ExactCount == pc = "done" => Len(out) = (IF cap < n THEN cap ELSE n)
Terminates == <>(pc = "done")
=============================================================================
