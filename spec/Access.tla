------------------------------- MODULE Access -------------------------------
(***************************************************************************)
(* Handle programs on a dataset (C06) and metadata-only answers (C17).      *)
(*                                                                         *)
(* A dataset is a sequence of row groups with row counts.  A handle is a    *)
(* VIEW: the list of row-group positions it sees (pf[i:j:k], pf[i] derive   *)
(* views from views with Python's slice semantics), plus read options.      *)
(* A program is a sequence of view-deriving steps followed by one read.     *)
(* CONTRACT: the read returns exactly the rows of the full read that belong *)
(* to the view (in view order), restricted to the selected columns and the  *)
(* first h rows for head(h); every reported count equals the rows read;     *)
(* what the handle predicts from metadata (columns, row counts) equals what *)
(* the read produces.                                                       *)
(***************************************************************************)
EXTENDS Integers, Sequences, FiniteSets, TLC

CONSTANTS RowCounts,      \* the dataset: sequence of row-group sizes
          SliceArgs,      \* values for i and j, including None
          Steps,          \* slice steps, including None
          Derivations,    \* subset of {"slice", "pick", "pickle", "copy", "deepcopy"}
          Reads,          \* subset of {"to_pandas", "iter", "head", "count", "filelike"}
          ColumnSets,     \* selections of columns (sequences), <<>> = all
          Sources,        \* how the root handle is opened: "path" | "fileobj" (caller's open file) | "bytesio"
          IndexArgs,      \* the index= argument of a read: "default" (what the file records) | "false" (suppressed) | a column name
          MaxDepth

None == 99
N0 == Len(RowCounts)

Clamp(x, lo, hi) == IF x < lo THEN lo ELSE IF x > hi THEN hi ELSE x
(* CPython's PySlice_AdjustIndices + iteration: positions (1-based) of s[i:j:k] in a list of length n *)
RECURSIVE Walk(_, _, _)
Walk(cur, stop, k) == IF (k > 0 /\ cur >= stop) \/ (k < 0 /\ cur <= stop) THEN <<>>
                      ELSE <<cur + 1>> \o Walk(cur + k, stop, k)
PySlice(n, i, j, kk) ==
  LET k == IF kk = None THEN 1 ELSE kk IN
  IF k > 0
  THEN LET start == IF i = None THEN 0 ELSE Clamp(IF i < 0 THEN i + n ELSE i, 0, n)
           stop  == IF j = None THEN n ELSE Clamp(IF j < 0 THEN j + n ELSE j, 0, n)
       IN Walk(start, stop, k)
  ELSE LET start == IF i = None THEN n - 1 ELSE Clamp(IF i < 0 THEN i + n ELSE i, -1, n - 1)
           stop  == IF j = None THEN -1 ELSE Clamp(IF j < 0 THEN j + n ELSE j, -1, n - 1)
       IN Walk(start, stop, k)

VARIABLES view,     \* positions (1-based, into the dataset) the handle sees, in order
          prog,     \* the program so far (for the replay)
          pc, outcome,
          src       \* how the root handle was opened
vars == <<view, prog, pc, outcome, src>>

Init == view = [g \in 1..N0 |-> g] /\ prog = <<>> /\ pc = "derive" /\ outcome = <<>> /\ src \in Sources

Apply(v, idxs) == [p \in DOMAIN idxs |-> v[idxs[p]]]

Slice(i, j, k) ==
  /\ pc = "derive" /\ Len(prog) < MaxDepth /\ "slice" \in Derivations
  /\ view' = Apply(view, PySlice(Len(view), i, j, k))
  /\ prog' = Append(prog, [op |-> "slice", i |-> i, j |-> j, k |-> k])
  /\ UNCHANGED <<pc, outcome>>
Pick(i) ==          \* pf[i]: IndexError when out of range (accepted), else a one-row-group view
  /\ pc = "derive" /\ Len(prog) < MaxDepth /\ "pick" \in Derivations
  /\ LET p == IF i < 0 THEN i + Len(view) ELSE i IN
     IF p < 0 \/ p >= Len(view)
     THEN /\ pc' = "done" /\ outcome' = [kind |-> "IndexError"] /\ view' = view
     ELSE /\ view' = <<view[p + 1]>> /\ UNCHANGED <<pc, outcome>>
  /\ prog' = Append(prog, [op |-> "pick", i |-> i, j |-> 0, k |-> 0])
Clone(how) ==       \* pickle round trip / copy / deepcopy: the same view
  /\ pc = "derive" /\ Len(prog) < MaxDepth /\ how \in Derivations
  /\ prog' = Append(prog, [op |-> how, i |-> 0, j |-> 0, k |-> 0])
  /\ UNCHANGED <<view, pc, outcome>>

Warm ==             \* an earlier full read through the current handle (result discarded): later reads must not depend on it
  /\ pc = "derive" /\ Len(prog) < MaxDepth /\ "warm" \in Derivations
  /\ (IF prog = <<>> THEN TRUE ELSE prog[Len(prog)].op # "warm")
  /\ prog' = Append(prog, [op |-> "warm", i |-> 0, j |-> 0, k |-> 0])
  /\ UNCHANGED <<view, pc, outcome>>

RECURSIVE Sum(_)
Sum(s) == IF s = <<>> THEN 0 ELSE Head(s) + Sum(Tail(s))
RowsOf(v) == Sum([p \in DOMAIN v |-> RowCounts[v[p]]])

InSeq(x, sq) == \E p \in DOMAIN sq : sq[p] = x
Read(kind, cols, h, ix) ==
  /\ pc = "derive" /\ kind \in Reads
  /\ (kind = "head" => h \in 0..(RowsOf(view) + 1)) /\ (kind # "head" => h = 0)
  /\ (ix # "default" => kind \in {"to_pandas", "iter", "head"})
  /\ (ix \notin {"default", "false"} => cols = <<>> \/ InSeq(ix, cols))     \* a named index column is among those read
  /\ outcome' = [kind |-> kind, cols |-> cols, h |-> h, ix |-> ix, view |-> view, rows |-> RowsOf(view),
                 per_rg |-> [p \in DOMAIN view |-> RowCounts[view[p]]]]
  /\ prog' = Append(prog, [op |-> kind, i |-> h, j |-> 0, k |-> 0])
  /\ pc' = "done" /\ UNCHANGED view

Next == /\ \/ \E i \in SliceArgs, j \in SliceArgs, k \in Steps : Slice(i, j, k)
           \/ \E i \in SliceArgs \ {None} : Pick(i)
           \/ \E how \in {"pickle", "copy", "deepcopy"} : Clone(how)
           \/ Warm
           \/ \E kind \in Reads, cols \in ColumnSets, h \in 0..(Sum(RowCounts) + 1), ix \in IndexArgs : Read(kind, cols, h, ix)
        /\ UNCHANGED src
Spec == Init /\ [][Next]_vars

(* CONTRACT sanity: a view never invents row groups and never repeats one *)
ViewIsSubsequenceOfDataset == /\ \A p \in DOMAIN view : view[p] \in 1..N0
                              /\ \A p, q \in DOMAIN view : p # q => view[p] # view[q]
=============================================================================
