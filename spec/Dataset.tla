------------------------------ MODULE Dataset ------------------------------
(***************************************************************************)
(* A multi-file (hive) dataset: a directory of part files plus the summary *)
(* files _metadata / _common_metadata, edited by                           *)
(*   write, write(append=True), write(append='overwrite'),                 *)
(*   ParquetFile.remove_row_groups, ParquetFile.write_row_groups           *)
(* at the granularity of single filesystem calls (C07 C09 C18 C19).        *)
(*                                                                         *)
(* MECHANISM: an operation is compiled, exactly as the code does it, into  *)
(* a PLAN = sequence of filesystem calls and in-memory list updates        *)
(* (write_multi / partition_on_columns / find_max_part / part_ids /        *)
(* overwrite / remove_row_groups / _sort_part_names /                      *)
(* _write_common_metadata); one action executes one call.  A fault can hit *)
(* any call of an append.                                                  *)
(* CONTRACT: what a fresh reader finds in the directory between            *)
(* operations, against a plain model of the content.                       *)
(*                                                                         *)
(* Variant switches:                                                       *)
(*   PartIdsByPath [FALSE as found]: part_ids keeps one entry per part     *)
(*       NUMBER (first occurrence wins), so with partitions several files  *)
(*       share a number and renumbering sees only some of them.            *)
(*   SummaryFirst [FALSE as found; TRUE is a model mutant]: the summary is *)
(*       rewritten before the part files.                                  *)
(***************************************************************************)
EXTENDS Integers, Sequences, FiniteSets, TLC

CONSTANTS NK,            \* partition keys 1..NK
          Frames,        \* frames: sequences of chunks, a chunk = non-empty set of keys
          MaxOps,
          Partitioned,   \* set of booleans: which kinds of dataset to explore
          EnableFault,   \* inject one I/O failure into appends
          Ops,           \* subset of {"append","overwrite","remove","wrg"}
          PartIdsByPath, SummaryFirst

NoKey == 0
Part(k, i) == [k |-> k, i |-> i, t |-> 0]
Tmp(k, i)  == [k |-> k, i |-> i, t |-> 1]
META   == [k |-> -1, i |-> 0, t |-> 0]
COMMON == [k |-> -1, i |-> 1, t |-> 0]
IsPart(p) == p.k >= 0

VARIABLES
  disk,      \* path -> [g, st] for part files, [refs, st] for _metadata, [st] for _common_metadata
  dirs,      \* partition directories that exist
  mem,       \* the operation's in-memory row-group list: Seq([p, g])
  plan,      \* remaining steps of the operation in progress
  opk,       \* kind of the operation in progress ("none" when idle)
  arg,       \* its frame argument (sequence of chunks), <<>> if none
  model,     \* CONTRACT: plain model of the content, Seq([k, g]) in insertion order
  pending,   \* model value to install if the operation returns normally
  ng,        \* row groups ever written
  nops, calls, faultAt,
  touched,   \* the summary rewrite of this operation has started
  last,      \* "none" | "ok" | "raised" | "faulted_before_summary" | "faulted_in_summary"
  badOpen,   \* ghost: a file referenced by the summary was opened for writing by an append
  early,     \* ghost: the summary was opened for writing while a planned part file was not complete
  ordered    \* every operation so far promised order (write/append only)

vars == <<disk, dirs, mem, plan, opk, arg, model, pending, ng, nops, calls, faultAt, touched, last, badOpen, early, ordered>>

----------------------------------------------------------------------------
(* helpers on sequences *)
RECURSIVE SetToSortedSeq(_)
SetToSortedSeq(S) == IF S = {} THEN <<>>
                     ELSE LET m == CHOOSE x \in S : \A y \in S : x <= y IN <<m>> \o SetToSortedSeq(S \ {m})

Range(s) == {s[i] : i \in DOMAIN s}

(* stable sort (Python's sorted) of s by the integer-valued function kf over its elements *)
RECURSIVE InsertLast(_, _, _)
InsertLast(t, e, kf) == IF t = <<>> THEN <<e>>
                        ELSE IF kf[e] < kf[Head(t)] THEN <<e>> \o t
                             ELSE <<Head(t)>> \o InsertLast(Tail(t), e, kf)
RECURSIVE StableSort(_, _)
StableSort(s, kf) == IF s = <<>> THEN <<>>
                     ELSE InsertLast(StableSort(SubSeq(s, 1, Len(s) - 1), kf), s[Len(s)], kf)

Bag(s) == [x \in Range(s) |-> Cardinality({i \in DOMAIN s : s[i] = x})]

----------------------------------------------------------------------------
(* CONTRACT: what a fresh reader finds *)

RefOK(r) == /\ r.p \in DOMAIN disk /\ disk[r.p].st = "full" /\ disk[r.p].g = r.g

(* a reader can open the dataset and every referenced file holds what the summary says *)
Readable == /\ META \in DOMAIN disk /\ disk[META].st = "full"
            /\ \A i \in DOMAIN disk[META].refs : RefOK(disk[META].refs[i])
(* the sequence of row-group ids a reader then gets *)
ReadBack == [i \in DOMAIN disk[META].refs |-> disk[META].refs[i].g]

ModelGs == [i \in DOMAIN model |-> model[i].g]

Idle == opk = "none"

Referenced == IF META \in DOMAIN disk /\ disk[META].st = "full" THEN {disk[META].refs[i].p : i \in DOMAIN disk[META].refs}
              ELSE {}

(* C09: content equals the plain model (as a multiset; in order when only write/append were used) *)
ModelContent == Idle /\ last \in {"ok", "raised", "faulted_before_summary"} =>
                  /\ Readable
                  /\ Bag(ReadBack) = Bag(ModelGs)
                  /\ (ordered => ReadBack = ModelGs)
(* C09: summary and directory agree after a successful operation *)
NoOrphans == Idle /\ last = "ok" =>
                \A p \in DOMAIN disk : IsPart(p) => (p \in Referenced /\ p.t = 0)
CommonPresent == Idle /\ last = "ok" => COMMON \in DOMAIN disk /\ disk[COMMON].st = "full"
(* C19 *)
NeverOpensReferenced == ~badOpen
PartsBeforeSummary   == ~early
NoCrash == last # "crashed"
(* C07: existing part files are never rewritten/renamed/removed by an append *)
AppendKeepsFiles == [][opk = "append" =>
                        \A p \in Referenced : IsPart(p) /\ disk[p].st = "full" =>
                             p \in DOMAIN disk' /\ disk'[p] = disk[p]]_vars

----------------------------------------------------------------------------
(* MECHANISM: plans *)

Step(c, a) == [c |-> c] @@ a

(* steps writing the part files of `frame` with part numbers starting at `off`; g ids from g0+1 *)
RECURSIVE ChunkSteps(_, _, _, _)
ChunkSteps(keys, i, g, part) ==    \* keys: sorted seq of keys of one chunk
  IF keys = <<>> THEN <<>>
  ELSE LET k == IF part THEN Head(keys) ELSE NoKey
           p == Part(k, i)
       IN (IF part THEN <<Step("mkdir", [k |-> k])>> ELSE <<>>)
          \o <<Step("openw", [p |-> p, g |-> g]), Step("write", [p |-> p, g |-> g]),
               Step("close", [p |-> p]), Step("memappend", [p |-> p, g |-> g, k |-> k])>>
          \o ChunkSteps(Tail(keys), i, g + 1, part)

RECURSIVE FrameSteps(_, _, _, _, _)
FrameSteps(frame, c, off, g, part) ==
  IF c > Len(frame) THEN <<>>
  ELSE LET keys == IF part THEN SetToSortedSeq(frame[c]) ELSE <<NoKey>> IN
       ChunkSteps(keys, (c - 1) + off, g, part) \o FrameSteps(frame, c + 1, off, g + Len(keys), part)

RECURSIVE FrameGroups(_, _, _, _)
FrameGroups(frame, c, g, part) ==       \* the [k, g] pairs the frame adds to the model, in order
  IF c > Len(frame) THEN <<>>
  ELSE LET keys == IF part THEN SetToSortedSeq(frame[c]) ELSE <<NoKey>> IN
       [j \in 1..Len(keys) |-> [k |-> keys[j], g |-> g + j - 1]] \o FrameGroups(frame, c + 1, g + Len(keys), part)

SummarySteps == <<Step("openw", [p |-> META, g |-> 0]), Step("write", [p |-> META, g |-> 0]), Step("close", [p |-> META]),
                  Step("openw", [p |-> COMMON, g |-> 0]), Step("write", [p |-> COMMON, g |-> 0]), Step("close", [p |-> COMMON])>>

(* writer.part_ids / find_max_part *)
Nums(m) == {m[i].p.i : i \in DOMAIN m}
MaxPart(m) == IF m = <<>> THEN 0 ELSE (CHOOSE x \in Nums(m) : \A y \in Nums(m) : y <= x) + 1
FirstIdx(m, n) == CHOOSE i \in DOMAIN m : m[i].p.i = n /\ \A j \in DOMAIN m : m[j].p.i = n => i <= j

(* _sort_part_names on list m: entries to rename, as [idx (0-based), p].  As found the dict is keyed by part *)
(* number: only the first row group carrying a number is seen.  Keyed by path: every file is seen.         *)
RenameSet(m) ==
  IF PartIdsByPath
  THEN {[idx |-> i - 1, p |-> m[i].p] : i \in {j \in DOMAIN m : m[j].p.i # j - 1}}
  ELSE {[idx |-> FirstIdx(m, n) - 1, p |-> m[FirstIdx(m, n)].p] : n \in {x \in Nums(m) : x # FirstIdx(m, x) - 1}}

RECURSIVE Pass1(_)
Pass1(S) == IF S = {} THEN <<>>
            ELSE LET e == CHOOSE x \in S : \A y \in S : x.idx <= y.idx IN
                 <<Step("rename", [src |-> e.p, dst |-> Tmp(e.p.k, e.idx)])>> \o Pass1(S \ {e})
RECURSIVE Pass2(_)
Pass2(S) == IF S = {} THEN <<>>
            ELSE LET e == CHOOSE x \in S : \A y \in S : x.idx <= y.idx IN
                 <<Step("rename", [src |-> Tmp(e.p.k, e.idx), dst |-> Part(e.p.k, e.idx)]),
                   Step("mempath", [idx |-> e.idx + 1, p |-> Part(e.p.k, e.idx)])>> \o Pass2(S \ {e})
SortNamesSteps(m) == Pass1(RenameSet(m)) \o Pass2(RenameSet(m))

(* the list after _sort_part_names (needed to know nothing more; the steps update mem themselves) *)

KeyOf(e) == e.p.k

----------------------------------------------------------------------------
Init ==
  /\ disk = <<>> /\ dirs = {} /\ mem = <<>> /\ plan = <<>> /\ opk = "none" /\ arg = <<>> /\ model = <<>> /\ pending = <<>>
  /\ ng = 0 /\ nops = 0 /\ calls = 0 /\ faultAt = 0 /\ touched = FALSE /\ last = "none"
  /\ badOpen = FALSE /\ early = FALSE /\ ordered = TRUE

Begin(kind, steps, newmodel, keepOrder, m0, fr) ==
  /\ opk' = kind /\ arg' = fr /\ plan' = steps /\ pending' = newmodel /\ mem' = m0
  /\ nops' = nops + 1 /\ calls' = 0 /\ touched' = FALSE
  /\ ordered' = (ordered /\ keepOrder)
  /\ UNCHANGED <<disk, dirs, model, ng, last, badOpen, early>>

Loaded == disk[META].refs      \* ParquetFile(dir): the row-group list comes from _metadata

IsPartitioned == \E p \in DOMAIN disk : IsPart(p) /\ p.k # NoKey

(* write(dir, frame, file_scheme='hive', partition_on=...) into an empty directory *)
BeginWrite(frame, part) ==
  /\ Idle /\ nops = 0
  /\ faultAt' = 0
  /\ LET parts == FrameSteps(frame, 1, 0, ng + 1, part)
         steps == <<Step("mkdirroot", <<>>)>> \o (IF SummaryFirst THEN SummarySteps \o parts ELSE parts \o SummarySteps)
     IN Begin("write", steps, FrameGroups(frame, 1, ng + 1, part), TRUE, <<>>, frame)

(* write(dir, frame, append=True) *)
BeginAppend(frame, f) ==
  /\ Idle /\ nops > 0 /\ nops < MaxOps /\ "append" \in Ops /\ Readable
  /\ faultAt' = f
  /\ LET part  == IsPartitioned
         parts == FrameSteps(frame, 1, MaxPart(Loaded), ng + 1, part)
         steps == IF SummaryFirst THEN SummarySteps \o parts ELSE parts \o SummarySteps
     IN Begin("append", steps, model \o FrameGroups(frame, 1, ng + 1, part), TRUE, Loaded, frame)

(* ParquetFile(dir).write_row_groups(frame, sort_key=by partition key | None, sort_pnames) *)
BeginWrg(frame, bykey, sortp) ==
  /\ Idle /\ nops > 0 /\ nops < MaxOps /\ "wrg" \in Ops /\ Readable
  /\ faultAt' = 0
  /\ LET part  == IsPartitioned
         parts == FrameSteps(frame, 1, MaxPart(Loaded), ng + 1, part)
     IN Begin("wrg",
              parts \o (IF bykey THEN <<Step("memsort", [how |-> "key"])>> ELSE <<>>)
                    \o (IF sortp THEN <<Step("sortnames", <<>>)>> ELSE <<>>) \o SummarySteps,
              model \o FrameGroups(frame, 1, ng + 1, part), FALSE, Loaded, frame)

(* write(dir, frame, append='overwrite'): replace the partitions present in frame *)
BeginOverwrite(frame) ==
  /\ Idle /\ nops > 0 /\ nops < MaxOps /\ "overwrite" \in Ops /\ Readable /\ IsPartitioned
  /\ faultAt' = 0
  /\ LET ks    == UNION Range(frame)
         parts == FrameSteps(frame, 1, MaxPart(Loaded), ng + 1, TRUE)
         kept(e) == e.k \notin ks
     IN Begin("overwrite",
              parts \o <<Step("memsort", [how |-> "overwrite"])>>
                    \o (IF \E i \in DOMAIN Loaded : Loaded[i].p.k \in ks     \* remove_row_groups: `if rgs:`
                        THEN <<Step("memremove", [ks |-> ks, n0 |-> Len(Loaded)]),
                               Step("remove", [ks |-> ks, n0 |-> Len(Loaded)])>> ELSE <<>>)
                    \o <<Step("sortnames", <<>>)>> \o SummarySteps,
              SelectSeq(model, kept) \o FrameGroups(frame, 1, ng + 1, TRUE), FALSE, Loaded, frame)

(* ParquetFile(dir).remove_row_groups(subset S of positions, sort_pnames) *)
BeginRemove(Sx, sortp) ==
  /\ Idle /\ nops > 0 /\ nops < MaxOps /\ "remove" \in Ops /\ Readable
  /\ Sx # {} /\ Sx \subseteq DOMAIN Loaded
  /\ faultAt' = 0
  /\ LET gs == {Loaded[i].g : i \in Sx}
         kept(e) == e.g \notin gs
     IN Begin("remove",
              <<Step("memremoveg", [gs |-> gs]), Step("removeg", [ps |-> {Loaded[i].p : i \in Sx}])>>
                \o (IF sortp THEN <<Step("sortnames", <<>>)>> ELSE <<>>) \o SummarySteps,
              SelectSeq(model, kept), ordered, Loaded, <<>>)

----------------------------------------------------------------------------
(* executing one step *)

Cur == Head(plan)
Advance == plan' = Tail(plan)
Countable(c) == c \in {"mkdirroot", "mkdir", "openw", "write", "close"}
FaultNow == EnableFault /\ opk = "append" /\ faultAt > 0 /\ Countable(Cur.c) /\ calls + 1 = faultAt

DoMkdir ==
  /\ plan # <<>> /\ Cur.c \in {"mkdirroot", "mkdir"} /\ ~FaultNow
  /\ dirs' = IF Cur.c = "mkdir" THEN dirs \cup {Cur.k} ELSE dirs
  /\ calls' = calls + 1 /\ Advance
  /\ UNCHANGED <<disk, mem, opk, arg, model, pending, ng, nops, faultAt, touched, last, badOpen, early, ordered>>

DoOpenW ==
  /\ plan # <<>> /\ Cur.c = "openw" /\ ~FaultNow
  /\ LET p == Cur.p IN
     /\ disk' = IF p = META THEN (p :> [refs |-> <<>>, st |-> "partial"]) @@ disk
                ELSE IF p = COMMON THEN (p :> [st |-> "partial"]) @@ disk
                ELSE (p :> [g |-> Cur.g, st |-> "partial"]) @@ disk
     /\ badOpen' = (badOpen \/ (opk = "append" /\ IsPart(p) /\ p \in Referenced))
     /\ early' = (early \/ (p = META /\ \E i \in DOMAIN mem : ~RefOK(mem[i])))
     /\ touched' = (touched \/ p = META)
     /\ ng' = IF IsPart(p) /\ Cur.g > ng THEN Cur.g ELSE ng
  /\ calls' = calls + 1 /\ Advance
  /\ UNCHANGED <<dirs, mem, opk, arg, model, pending, nops, faultAt, last, ordered>>

DoWrite ==
  /\ plan # <<>> /\ Cur.c = "write" /\ ~FaultNow
  /\ disk' = IF Cur.p = META THEN [disk EXCEPT ![META].refs = mem] ELSE disk
  /\ calls' = calls + 1 /\ Advance
  /\ UNCHANGED <<dirs, mem, opk, arg, model, pending, ng, nops, faultAt, touched, last, badOpen, early, ordered>>

DoClose ==
  /\ plan # <<>> /\ Cur.c = "close" /\ ~FaultNow
  /\ disk' = [disk EXCEPT ![Cur.p].st = "full"]
  /\ calls' = calls + 1 /\ Advance
  /\ UNCHANGED <<dirs, mem, opk, arg, model, pending, ng, nops, faultAt, touched, last, badOpen, early, ordered>>

(* an injected I/O failure: the call does not happen, the operation raises *)
Fault ==
  /\ plan # <<>> /\ FaultNow
  /\ opk' = "none" /\ arg' = <<>> /\ plan' = <<>> /\ mem' = <<>>
  /\ last' = IF touched THEN "faulted_in_summary" ELSE "faulted_before_summary"
  /\ calls' = calls + 1
  \* once the summary rewrite has started the statement promises nothing: whatever a reader finds from now on
  \* is the content later operations build on
  /\ model' = IF touched /\ Readable
              THEN [i \in DOMAIN disk[META].refs |-> [k |-> disk[META].refs[i].p.k, g |-> disk[META].refs[i].g]]
              ELSE model
  /\ UNCHANGED <<disk, dirs, pending, ng, nops, faultAt, touched, badOpen, early, ordered>>

DoMemAppend ==
  /\ plan # <<>> /\ Cur.c = "memappend"
  /\ mem' = Append(mem, [p |-> Cur.p, g |-> Cur.g]) /\ Advance
  /\ UNCHANGED <<disk, dirs, opk, arg, model, pending, ng, nops, calls, faultAt, touched, last, badOpen, early, ordered>>

(* sorted(row_groups, key=sort_key): stable *)
DoMemSort ==
  /\ plan # <<>> /\ Cur.c = "memsort"
  /\ LET n0 == Len(disk[META].refs)
         old == disk[META].refs
         FirstOfKey(k) == IF \E i \in DOMAIN old : old[i].p.k = k
                          THEN (CHOOSE i \in DOMAIN old : old[i].p.k = k /\ \A j \in DOMAIN old : old[j].p.k = k => i <= j) - 1
                          ELSE n0
         keyOw == [e \in Range(mem) |-> FirstOfKey(e.p.k)]
         keyK  == [e \in Range(mem) |-> e.p.k]
     IN mem' = IF Cur.how = "overwrite" THEN StableSort(mem, keyOw) ELSE StableSort(mem, keyK)
  /\ Advance
  /\ UNCHANGED <<disk, dirs, opk, arg, model, pending, ng, nops, calls, faultAt, touched, last, badOpen, early, ordered>>

(* overwrite: drop the OLD row groups (positions < n0 in the loaded list) whose key is rewritten *)
OldG(ks, n0) == {disk[META].refs[i].g : i \in {j \in 1..n0 : disk[META].refs[j].p.k \in ks}}
DoMemRemove ==
  /\ plan # <<>> /\ Cur.c \in {"memremove", "memremoveg"}
  /\ LET gs == IF Cur.c = "memremove" THEN OldG(Cur.ks, Cur.n0) ELSE Cur.gs
         keep(e) == e.g \notin gs
     IN mem' = SelectSeq(mem, keep)
  /\ Advance
  /\ UNCHANGED <<disk, dirs, opk, arg, model, pending, ng, nops, calls, faultAt, touched, last, badOpen, early, ordered>>

DoRemove ==
  /\ plan # <<>> /\ Cur.c \in {"remove", "removeg"}
  /\ LET ps == IF Cur.c = "remove"
               THEN {disk[META].refs[i].p : i \in {j \in 1..Cur.n0 : disk[META].refs[j].p.k \in Cur.ks}}
               ELSE Cur.ps
     IN disk' = [p \in DOMAIN disk \ ps |-> disk[p]]
  /\ Advance
  /\ UNCHANGED <<dirs, mem, opk, arg, model, pending, ng, nops, calls, faultAt, touched, last, badOpen, early, ordered>>

(* _sort_part_names is planned when reached, from the list as it is then *)
DoSortNames ==
  /\ plan # <<>> /\ Cur.c = "sortnames"
  /\ plan' = SortNamesSteps(mem) \o Tail(plan)
  /\ UNCHANGED <<disk, dirs, mem, opk, arg, model, pending, ng, nops, calls, faultAt, touched, last, badOpen, early, ordered>>

(* os.rename: silently replaces an existing destination *)
DoRename ==
  /\ plan # <<>> /\ Cur.c = "rename"
  /\ Cur.src \in DOMAIN disk
  /\ disk' = [p \in (DOMAIN disk \ {Cur.src}) \cup {Cur.dst} |-> IF p = Cur.dst THEN disk[Cur.src] ELSE disk[p]]
  /\ Advance
  /\ UNCHANGED <<dirs, mem, opk, arg, model, pending, ng, nops, calls, faultAt, touched, last, badOpen, early, ordered>>

(* the source of a rename does not exist: the real call raises FileNotFoundError in the middle of the operation *)
DoRenameMissing ==
  /\ plan # <<>> /\ Cur.c = "rename" /\ Cur.src \notin DOMAIN disk
  /\ opk' = "none" /\ arg' = <<>> /\ plan' = <<>> /\ mem' = <<>> /\ last' = "crashed"
  /\ UNCHANGED <<disk, dirs, model, pending, ng, nops, calls, faultAt, touched, badOpen, early, ordered>>

DoMemPath ==
  /\ plan # <<>> /\ Cur.c = "mempath"
  /\ mem' = IF Cur.idx \in DOMAIN mem THEN [mem EXCEPT ![Cur.idx].p = Cur.p] ELSE mem
  /\ Advance
  /\ UNCHANGED <<disk, dirs, opk, arg, model, pending, ng, nops, calls, faultAt, touched, last, badOpen, early, ordered>>

Return ==
  /\ opk # "none" /\ plan = <<>>
  /\ opk' = "none" /\ arg' = <<>> /\ model' = pending /\ last' = "ok" /\ mem' = <<>>
  /\ UNCHANGED <<disk, dirs, plan, pending, ng, nops, calls, faultAt, touched, badOpen, early, ordered>>

MaxCalls == 40
DoBeginWrite     == \E f \in Frames : \E part \in Partitioned : BeginWrite(f, part)
DoBeginAppend    == \E f \in Frames : \E k \in (IF EnableFault THEN 0..MaxCalls ELSE {0}) :
                       /\ BeginAppend(f, k)
                       /\ k <= Cardinality({i \in DOMAIN plan' : Countable(plan'[i].c)})
DoBeginWrg       == \E f \in Frames : \E bykey \in BOOLEAN : \E sortp \in BOOLEAN : BeginWrg(f, bykey, sortp)
DoBeginOverwrite == \E f \in Frames : BeginOverwrite(f)
DoBeginRemove    == \E Sx \in SUBSET (1..6) : \E sortp \in BOOLEAN : BeginRemove(Sx, sortp)

Next ==
  \/ DoBeginWrite \/ DoBeginAppend \/ DoBeginWrg \/ DoBeginOverwrite \/ DoBeginRemove
  \/ DoMkdir \/ DoOpenW \/ DoWrite \/ DoClose \/ Fault
  \/ DoMemAppend \/ DoMemSort \/ DoMemRemove \/ DoRemove \/ DoSortNames \/ DoRename \/ DoRenameMissing \/ DoMemPath
  \/ Return

Spec == Init /\ [][Next]_vars
=============================================================================
