--------------------------- MODULE CategoricalMC ---------------------------
EXTENDS Categorical, Json
DictsSmall == { <<"a","b">>, <<"x","y">>, <<"a","b","c">>, <<"b","a">> }
(* spec -> code: every completed read with the contract's expectation and the mechanism's prediction *)
Export == pc = "done" => PrintT(ToJson([rgs |-> rgs, written |-> Written, decoded |-> Decoded]))
=============================================================================
