----------------------------- MODULE DatasetTrace -----------------------------
(* code -> spec: the filesystem calls of one real operation (recorded through    *)
(* caller-supplied open_with / mkdirs / fs wrappers) must be a behaviour of the   *)
(* Dataset mechanism started from the observed directory, with every path bound; *)
(* the contract predicates are reported on the reconstructed end state.          *)
EXTENDS Dataset, Json, IOUtils, TLCExt

Traces == JsonDeserialize(IOEnv.TRACE_FILE)

VARIABLES tid, l, kept
tvars == <<vars, tid, l, kept>>

T  == Traces[tid]
Ev == T.events[l]
IsEvent(name) == l <= Len(T.events) /\ Ev.ev = name /\ l' = l + 1 /\ tid' = tid

SeqToSet(s) == {s[i] : i \in DOMAIN s}
FrameOf(fr) == [c \in DOMAIN fr |-> SeqToSet(fr[c])]

TInit ==
  /\ tid \in 1..Len(Traces) /\ l = 1 /\ kept = TRUE /\ TLCSet(tid, 0)
  /\ LET pre == Traces[tid].pre
         fs  == SeqToSet(pre.files)
         paths == {f.p : f \in fs}
         fileOf(p) == CHOOSE f \in fs : f.p = p
     IN /\ disk = IF pre.exists
                  THEN [q \in paths \cup {META, COMMON} |->
                           IF q = META THEN [refs |-> pre.refs, st |-> "full"]
                           ELSE IF q = COMMON THEN [st |-> "full"]
                           ELSE [g |-> fileOf(q).g, st |-> "full"]]
                  ELSE <<>>
        /\ model = pre.model /\ ng = pre.ng /\ nops = IF pre.exists THEN 1 ELSE 0
        /\ ordered = pre.ordered
  /\ dirs = {} /\ mem = <<>> /\ plan = <<>> /\ opk = "none" /\ arg = <<>> /\ pending = <<>>
  /\ calls = 0 /\ faultAt = 0 /\ touched = FALSE /\ last = "none" /\ badOpen = FALSE /\ early = FALSE

TBegin ==
  /\ IsEvent("begin")
  /\ LET b == Ev IN
     \/ b.kind = "write" /\ BeginWrite(FrameOf(b.frame), b.part)
     \/ b.kind = "append" /\ BeginAppend(FrameOf(b.frame), 0)
     \/ b.kind = "wrg" /\ BeginWrg(FrameOf(b.frame), b.bykey, b.sortp)
     \/ b.kind = "overwrite" /\ BeginOverwrite(FrameOf(b.frame))
     \/ b.kind = "remove" /\ BeginRemove({i \in DOMAIN disk[META].refs : disk[META].refs[i].g \in SeqToSet(b.gs)}, b.sortp)

TMkdir == /\ \/ IsEvent("mkdirroot") /\ Cur.c = "mkdirroot"
             \/ IsEvent("mkdir") /\ Cur.c = "mkdir" /\ Cur.k = Ev.k
          /\ DoMkdir
TOpenW == IsEvent("openw") /\ DoOpenW /\ Cur.p = Ev.p
TWrite == IsEvent("write") /\ DoWrite /\ Cur.p = Ev.p
TClose == IsEvent("close") /\ DoClose /\ Cur.p = Ev.p
TRename == IsEvent("rename") /\ DoRename /\ Cur.src = Ev.src /\ Cur.dst = Ev.dst
RemoveSet == IF Cur.c = "remove"
             THEN {disk[META].refs[i].p : i \in {j \in 1..Cur.n0 : disk[META].refs[j].p.k \in Cur.ks}}
             ELSE Cur.ps
TRemove == IsEvent("remove") /\ DoRemove /\ RemoveSet = SeqToSet(Ev.ps)
(* an I/O failure observed in the trace: the pending countable call did not happen, the operation raised *)
TFault ==
  /\ IsEvent("fault") /\ plan # <<>> /\ Countable(Cur.c)
  /\ opk' = "none" /\ arg' = <<>> /\ plan' = <<>> /\ mem' = <<>>
  /\ last' = IF touched THEN "faulted_in_summary" ELSE "faulted_before_summary"
  /\ calls' = calls + 1
  /\ UNCHANGED <<disk, dirs, model, pending, ng, nops, faultAt, touched, badOpen, early, ordered>>

Silent == /\ \/ DoMemAppend \/ DoMemSort \/ DoMemRemove \/ DoSortNames \/ DoMemPath \/ Return
          /\ UNCHANGED <<tid, l>>

TNext ==
  /\ \/ TBegin \/ TMkdir \/ TOpenW \/ TWrite \/ TClose \/ TRename \/ TRemove \/ TFault \/ Silent
  /\ kept' = (kept /\ (opk = "append" =>
                          \A p \in Referenced : IsPart(p) => (p \in DOMAIN disk' /\ disk'[p] = disk[p])))

TSpec == TInit /\ [][TNext]_tvars

Done == l = Len(T.events) + 1 /\ opk = "none" /\ l > 1
Report == Done => PrintT(<<"DONE", tid, last,
                           Readable,
                           Readable /\ Bag(ReadBack) = Bag(ModelGs),
                           Readable /\ (ordered => ReadBack = ModelGs),
                           \A p \in DOMAIN disk : IsPart(p) => (p \in Referenced /\ p.t = 0),
                           ~badOpen, ~early, kept>>)
Progress == TLCSet(tid, IF TLCGet(tid) > l THEN TLCGet(tid) ELSE l)
PrintRegs == \A i \in 1..Len(Traces) : PrintT(<<"PROG", i, TLCGet(i)>>)
=============================================================================
