----------------------------- MODULE FiltersMC -----------------------------
(* bounded domains for Filters (cfg files cannot hold these sets) and the export of cases for the replay *)
EXTENDS Filters, Json

RowVals == Vals \cup {NULL}
RowsX(n)  == UNION {[1..k -> [x : RowVals, y : {0}]] : k \in 1..n}
RowsXY(n) == UNION {[1..k -> [x : {0, 2, NULL}, y : {0, 2, NULL}]] : k \in 1..n}
RGs(rowsets, parts) == {[rows |-> rs, stats |-> st, only |-> "both", p |-> pp] : rs \in rowsets, st \in BOOLEAN, pp \in parts}
(* min/max statistics written for ONE of the two value columns only (write(..., stats=[column])) *)
RGsCols(rowsets, parts) == {[rows |-> rs, stats |-> TRUE, only |-> o, p |-> pp] : rs \in rowsets, o \in {"x", "y"}, pp \in parts}

Sets2(consts) == {{}} \cup {{a} : a \in consts} \cup {{a, b} : a \in consts, b \in consts}
AtomsOn(col, consts, sets) == {Atom(col, op, {c}) : op \in ScalarOps, c \in consts}
                              \cup {Atom(col, op, S) : op \in SetOps, S \in sets}
Single(a) == [flat |-> TRUE, groups |-> <<<<a>>>>]

(* A: every single atom on a value column or the partition column *)
ProgsSingle == {Single(a) : a \in AtomsOn("x", Consts, Sets2(Consts)) \cup AtomsOn("p", -1..2, Sets2(-1..2))}
RGsSingle2 == RGs(RowsX(2), {NoPart, 0, 1})
RGsSingle3 == RGs(RowsX(3), {NoPart, 0, 1})

(* B: pairs, as a flat list (AND), as one explicit AND group, and as two OR groups *)
RedX == AtomsOn("x", {1}, {{}, {0, 3}})
RedY == AtomsOn("y", {2}, {{2}})
RedP == AtomsOn("p", {1}, {{1}})
Pairs == (RedX \X RedX) \cup (RedX \X RedY) \cup (RedX \X RedP) \cup (RedP \X RedX)
ProgsPair == {[flat |-> TRUE, groups |-> <<<<pr[1], pr[2]>>>>] : pr \in Pairs}
             \cup {[flat |-> FALSE, groups |-> <<<<pr[1], pr[2]>>>>] : pr \in Pairs}
             \cup {[flat |-> FALSE, groups |-> <<<<pr[1]>>, <<pr[2]>>>>] : pr \in Pairs}
RGsPair2 == RGs(RowsXY(2), {NoPart, 0, 1})
RowsXYq == [1..1 -> [x : {0, 2, NULL}, y : {0, 2}]] \cup [1..2 -> [x : {0, 2, NULL}, y : {0, 2}]]
RGsPairQ == RGs(RowsXYq, {NoPart, 0, 1})
RGsSingle1 == RGs(RowsX(1), {NoPart, 0, 1})
RGsPairCols == RGsCols(RowsXYq, {NoPart, 0})
(* partition values and constants on a DOUBLED scale: the partitions are the even numbers 0 and 2, constants range over  *)
(* -1..3, so an odd constant lies strictly between (or outside) the partition values - the harness halves both (an int   *)
(* partition column compared with a non-integer constant) or renders both as text (a text partition column)             *)
PartsDoubled == {0, 2}
RGsParts == RGs(RowsX(1), PartsDoubled)
ProgsPartOnly == {Single(a) : a \in AtomsOn("p", -1..3, Sets2(-1..3))}
                 \cup {[flat |-> TRUE, groups |-> <<<<a, b>>>>] : a \in AtomsOn("p", {1}, {{0, 1}}), b \in AtomsOn("x", {1}, {{1}})}

(* spec -> code: the (op, constant, min, max) tuples the pruner is asked about, with the transcription's answer *)
StatPairs == {<<a, b>> \in (Vals \cup {NoVal}) \X (Vals \cup {NoVal}) : a = NoVal \/ b = NoVal \/ a <= b}
FVArgs == {<<op, {c}>> : op \in ScalarOps, c \in Consts} \cup {<<op, S>> : op \in SetOps, S \in Sets2(Consts)}
(* CONTRACT for the decision function itself: excluding a chunk whose values lie in [vmin, vmax] (an absent bound *)
(* = unknown) is sound only if no value of that range qualifies                                               *)
SoundPrune(op, c, vmin, vmax) ==
  ~\E v \in (IF vmin = NoVal THEN 0 ELSE vmin)..(IF vmax = NoVal THEN MaxV ELSE vmax) : Cmp(op, v, c)
FilterValCases ==
  {[op |-> a[1], c |-> a[2], vmin |-> mm[1], vmax |-> mm[2], out |-> FilterVal(a[1], a[2], mm[1], mm[2]),
    outb |-> FilterValV(a[1], a[2], mm[1], mm[2], TRUE), sound |-> SoundPrune(a[1], a[2], mm[1], mm[2])] :
     a \in FVArgs, mm \in StatPairs}
=============================================================================
